"""Symbolic walk over the bookkeeping of Compiler methods (HIR, source order, closures inlined at the call that
receives them): the sub-index stack of `current_index` (push_subindex/pop_subindex), the scope depth
(scope_begin/scope_end) and the nested-function depth (compile_begin/compile_end). Used by C15.I and C01.S.

Nothing is executed: the walker tracks *symbolic* stack entries (literals, the enumerate index of a list place, the
length of a list place) and records at which symbolic index path each child card place is compiled."""
from cao.facts import hir_strip, hir_callee, hir_local_id, pat_bindings, short, block_exprs, hir_children
from cao import cardshape as cs
from cao import hirutil as hu

PUSH = "compiler::module::CardIndex::push_subindex"
POP = "compiler::module::CardIndex::pop_subindex"
PROCESS = "compiler::Compiler::process_card"
SUBEXPR = "compiler::Compiler::compile_subexpr"
SCOPE_BEGIN = "compiler::Compiler::scope_begin"
SCOPE_END = "compiler::Compiler::scope_end"
COMPILE_BEGIN = "compiler::Compiler::compile_begin"
COMPILE_END = "compiler::Compiler::compile_end"


class Imbalance(Exception):
    def __init__(self, what, ln):
        self.what = what
        self.ln = ln


class Walk:
    def __init__(self, F, fn, env):
        self.F = F
        self.fn = fn
        self.env = dict(env)       # hir id -> place tuple | ('#idx', place) | ('#elem', place)
        self.stack = []            # symbolic sub-index stack relative to entry
        self.scope = 0
        self.nest = 0
        self.events = []           # (kind, payload, tuple(stack), ln)
        self.problems = []         # (what, ln)
        self.counts = {"push": 0, "pop": 0, "scope_begin": 0, "scope_end": 0, "compile_begin": 0, "compile_end": 0}
        self.interp = cs.Interp(F, fn, None, None, None)
        self.param_cls = {}        # parameter of an inlined helper -> class of the slice expression it was called with

    # ---- places -------------------------------------------------------------------------------
    def place(self, e):
        e = hir_strip(e)
        if e is None:
            return None
        if e.get("k") == "path":
            r = e["path"]["res"]
            if r["k"] == "local":
                v = self.env.get(r["id"])
                if isinstance(v, tuple) and (not v or not (isinstance(v[0], str) and v[0].startswith("#"))):
                    return v
            return None
        if e.get("k") == "field":
            p = self.place(e["e"])
            return None if p is None else p + (e["name"],)
        if e.get("k") == "addr_of" or (e.get("k") == "un" and e["op"] == "Deref"):
            return self.place(e["e"])
        if e.get("k") == "mcall" and e["name"] in cs.TRANSPARENT:
            return self.place(e["recv"])
        return None

    def sym(self, e):
        """symbolic value of an index expression"""
        e = hu.strip_casts(e)
        if e.get("k") == "lit" and e["lit"]["k"] == "int":
            return e["lit"]["v"]
        if e.get("k") == "path" and e["path"]["res"]["k"] == "local":
            v = self.env.get(e["path"]["res"]["id"])
            if isinstance(v, tuple) and v and v[0] == "#idx":
                return ("idx", v[1], 0)
            if isinstance(v, tuple) and v and v[0] == "#sym":
                return v[1]       # parameter of an inlined helper bound to the caller's index expression
        if e.get("k") == "bin" and e["op"] in ("Add", "Sub"):
            l, r = self.sym(e["l"]), self.sym(e["r"])
            sign = 1 if e["op"] == "Add" else -1
            if isinstance(l, tuple) and l[0] == "idx" and isinstance(r, int):
                return ("idx", l[1], l[2] + sign * r)
            if isinstance(r, tuple) and r[0] == "idx" and isinstance(l, int) and sign == 1:
                return ("idx", r[1], r[2] + l)
            if isinstance(l, int) and isinstance(r, int):
                return l + sign * r
        if e.get("k") == "mcall" and e["name"] == "len":
            p = self.place(e["recv"])
            if p is not None:
                return ("len", p)
        return ("?", e.get("ln"))

    # ---- walking ------------------------------------------------------------------------------
    def walk(self, e):
        e = hir_strip(e)
        if e is None:
            return
        k = e.get("k")
        if k == "block":
            self.block(e["block"])
            return
        if k == "if":
            self.walk(e["cond"])
            self.branches([e["then"], e.get("else")], e["ln"])
            return
        if k == "match":
            src = e.get("source", "")
            if src.startswith("ForLoopDesugar"):
                self.for_loop(e)
                return
            self.walk(e["scrut"])
            if src.startswith("TryDesugar"):
                return   # the residual arm returns the error; the continue arm is the value
            self.branches([a["body"] for a in e["arms"]], e["ln"], pats=[a["pat"] for a in e["arms"]])
            return
        if k == "loop":
            snap = self.snapshot()
            for x in block_exprs(e["body"]):
                self.walk(x)
            self.require_same(snap, e["ln"], "loop body")
            return
        if k == "closure":
            # a closure that is not passed to a call we inline: walk it as a balanced region
            snap = self.snapshot()
            self.walk(e["body"])
            self.require_same(snap, e["ln"], "closure")
            return
        if k in ("call", "mcall"):
            self.call(e)
            return
        if k == "ret":
            if e.get("e") is not None:
                self.walk(e["e"])
            if not hu.is_error_ret(e):
                self.events.append(("ok_return", None, tuple(self.stack), e["ln"], self.scope, self.nest))
            return
        for c in hir_children(e):
            self.walk(c)

    def snapshot(self):
        return (list(self.stack), self.scope, self.nest)

    def require_same(self, snap, ln, what):
        # depth (not content) must be restored: `pop_subindex(); push_subindex(k)` replaces the top entry
        if (len(self.stack), self.scope, self.nest) != (len(snap[0]), snap[1], snap[2]):
            self.problems.append(("%s leaves the bookkeeping unbalanced (index stack %s -> %s, scope %+d, nesting %+d)"
                                  % (what, snap[0], self.stack, self.scope - snap[1], self.nest - snap[2]), ln))
            self.stack, self.scope, self.nest = list(snap[0]), snap[1], snap[2]

    def branches(self, bodies, ln, pats=None):
        snap = self.snapshot()
        for n, b in enumerate(bodies):
            if b is None:
                continue
            self.stack, self.scope, self.nest = list(snap[0]), snap[1], snap[2]
            saved_env = dict(self.env)
            if pats is not None:
                for bid, _nm in pat_bindings(pats[n]):
                    self.env.setdefault(bid, ("#val",))
            self.walk(b)
            self.env = saved_env
            if not self.diverges(b):
                self.require_same(snap, b.get("ln", ln), "branch")
        self.stack, self.scope, self.nest = list(snap[0]), snap[1], snap[2]

    def diverges(self, e):
        e = hir_strip(e)
        return e is not None and e.get("ty") == "!"

    def block(self, bl):
        for st in bl["stmts"]:
            if st["k"] == "let":
                self.let(st)
            elif st["k"] in ("semi", "expr"):
                self.walk(st["e"])
        if bl.get("expr") is not None:
            self.walk(bl["expr"])

    def let(self, st):
        pat = st["pat"]
        init = st.get("init")
        if init is not None:
            p = self.place(init)
            if p is not None:
                k = pat.get("k")
                if k == "bind":
                    self.env[pat["id"]] = p
                    return
                if k == "struct":
                    for f in pat["fields"]:
                        if f["pat"].get("k") == "bind":
                            self.env[f["pat"]["id"]] = p + (f["name"],)
                    return
                if k == "slice" and not pat.get("mid") and not pat["after"]:
                    for n, sp in enumerate(pat["before"]):
                        if sp.get("k") == "bind":
                            self.env[sp["id"]] = p + (("[]", n),)
                    return
                if k in ("ref", "deref"):
                    pass
            self.walk(init)
        if st.get("els") is not None:
            self.block(st["els"])

    def for_loop(self, e):
        """for PAT in ITER { body }"""
        it = hir_strip(e["scrut"])
        if it.get("k") == "call" and it["args"]:
            it = hir_strip(it["args"][0])
        self.walk_args_only(it)
        lst, enumerate_, rev = self.iter_source(it)
        # find the loop and its Some(..) arm
        arm0 = e["arms"][0]
        loop = hir_strip(arm0["body"])
        inner = None
        for x in block_exprs(loop["body"]) if loop.get("k") == "loop" else []:
            x = hir_strip(x)
            if x.get("k") == "match":
                inner = x
        if inner is None:
            self.problems.append(("unrecognised for-loop shape", e["ln"]))
            return
        for a in inner["arms"]:
            p = a["pat"]
            if p.get("k") == "struct" and p["fields"]:
                sub = p["fields"][0]["pat"]
                saved = dict(self.env)
                self.bind_element(sub, lst, enumerate_, rev)
                snap = self.snapshot()
                self.walk(a["body"])
                self.require_same(snap, a["body"].get("ln", e["ln"]), "loop body")
                self.env = saved

    def iter_source(self, it):
        """recognise P.iter().enumerate() / P.iter(): (list place | None, enumerated?, reversed?)"""
        enumerate_ = False
        base = hir_strip(it)
        if base.get("k") == "mcall" and base["name"] == "enumerate":
            enumerate_ = True
            base = hir_strip(base["recv"])
        rev = False
        if base.get("k") == "mcall" and base["name"] == "rev":
            rev = True
            base = hir_strip(base["recv"])
        lst = None
        if base.get("k") == "mcall" and base["name"] in ("iter", "iter_mut"):
            lst = self.place(base["recv"])
        return lst, enumerate_, rev

    def bind_element(self, sub, lst, enumerate_, rev):
        """bind the pattern of one element of an iteration over list place `lst`"""
        if lst is None or rev or sub is None:
            return
        if enumerate_ and sub.get("k") == "tuple" and len(sub["pats"]) == 2:
            if sub["pats"][0].get("k") == "bind":
                self.env[sub["pats"][0]["id"]] = ("#idx", lst)
            if sub["pats"][1].get("k") == "bind":
                self.env[sub["pats"][1]["id"]] = ("#elem", lst)
        elif not enumerate_ and sub.get("k") == "bind":
            self.env[sub["id"]] = ("#elem", lst)

    # iterator consumers that run their closure once per element, in order, like the body of a `for`
    PER_ELEMENT = ("try_for_each", "for_each")

    def walk_args_only(self, e):
        for x in ([e.get("recv")] if e.get("k") == "mcall" else []) + list(e.get("args", [])):
            if x is not None and hir_strip(x).get("k") in ("call", "mcall"):
                pass

    def elem_of(self, e):
        e = hir_strip(e)
        if e is not None and e.get("k") == "path" and e["path"]["res"]["k"] == "local":
            v = self.env.get(e["path"]["res"]["id"])
            if isinstance(v, tuple) and v and v[0] == "#elem":
                return v[1]
        return None

    BOOKKEEPING = None

    KNOWN = (PUSH, POP, PROCESS, SUBEXPR, SCOPE_BEGIN, SCOPE_END, COMPILE_BEGIN, COMPILE_END, "compiler::Compiler::encode_if_then")
    MAX_INLINE_DEPTH = 8

    def moves_bookkeeping(self, name, _seen=None):
        """does the Compiler method `name` - itself or through other Compiler methods it calls - move the sub-index stack
        or compile cards (push_subindex / pop_subindex / process_card / compile_subexpr)? (cached per fact base)"""
        cache = self.F.__dict__.setdefault("_cw_movers", {})
        if name in cache:
            return cache[name]
        seen = set() if _seen is None else _seen
        if name in seen:
            return False
        seen.add(name)
        g = self.F.fn(name, required=False)
        if g is None or not g.hir or not name.startswith("compiler::Compiler::"):
            cache[name] = False
            return False
        from cao.facts import hir_walk
        r = False
        for y in hir_walk(g.hir["body"]):
            if y.get("k") not in ("call", "mcall"):
                continue
            cs_ = hir_callee(y)
            if any(c in (PUSH, POP, PROCESS, SUBEXPR) for c in cs_):
                r = True
                break
            if any(c.startswith("compiler::Compiler::") and c not in self.KNOWN and self.moves_bookkeeping(c, seen) for c in cs_):
                r = True
                break
        if _seen is None or r:
            cache[name] = r       # a negative answer inside a cycle is only final at the top of the search
        return r

    def inlineable(self, names):
        """a Compiler method (other than the ones modelled directly) that - itself or through the Compiler methods it
        calls - moves the bookkeeping or compiles cards: it is walked in place of the call, its parameters bound to the
        call's arguments (no function is inlined inside itself; nesting bound MAX_INLINE_DEPTH)"""
        stack = getattr(self, "_inline_stack", [])
        if len(stack) >= self.MAX_INLINE_DEPTH:
            return None
        for n in names:
            if not n.startswith("compiler::Compiler::") or n in self.KNOWN:
                continue
            g = self.F.fn(n, required=False)
            if g is None or not g.hir or g is self.fn or n in stack:
                continue
            if self.moves_bookkeeping(n):
                return g
        return None

    def inline(self, g, e):
        params = list(g.hir.get("params", []))
        args = list(e["args"])
        if e["k"] == "mcall" and len(params) == len(args) + 1:
            params = params[1:]
        saved_env = dict(self.env)
        binds, cls_binds = {}, {}
        for p_, a in zip(params, args):
            if p_.get("k") != "bind":
                continue
            a_ = hir_strip(a)
            if a_.get("k") == "closure":
                binds[p_["id"]] = ("#closure", a_)
                continue
            pl = self.place(a)
            el = self.elem_of(a)
            single, sp = self.single_card(a)
            if single:
                binds[p_["id"]] = ("#single", sp)
            elif pl is not None:
                binds[p_["id"]] = pl
                c = self.arg_class(a)
                if c is not None and c[0] in ("array", "vec"):
                    cls_binds[p_["id"]] = c
            elif el is not None:
                binds[p_["id"]] = ("#elem", el)
            else:
                # an index argument (literal, enumerate index +- k, len of a list place): inside the helper the
                # parameter stands for that symbolic value; an unrecognised expression stays unbound (sym -> '?')
                sv = self.sym(a)
                binds[p_["id"]] = None if isinstance(sv, tuple) and sv[0] == "?" else ("#sym", sv)
        saved_cls = dict(self.param_cls)
        for pid, v in binds.items():       # arguments are evaluated in the caller's environment, then bound
            self.env.pop(pid, None)
            self.param_cls.pop(pid, None)
            if v is not None:
                self.env[pid] = v
        self.param_cls.update(cls_binds)
        self._inline_stack = getattr(self, "_inline_stack", []) + [g.short]
        try:
            self.walk(g.hir["body"])
        finally:
            self._inline_stack = self._inline_stack[:-1]
            self.env = saved_env
            self.param_cls = saved_cls

    def call(self, e):
        names = hir_callee(e)
        args = list(e["args"])
        # a call of a closure parameter of an inlined helper: the closure runs here, with the current bookkeeping
        if e["k"] == "call":
            fl = hir_local_id(hir_strip(e["f"])) if e.get("f") is not None else None
            v = self.env.get(fl) if fl is not None else None
            if isinstance(v, tuple) and v and v[0] == "#closure":
                snap = self.snapshot()
                self.walk(v[1]["body"])
                self.require_same(snap, e.get("ln"), "closure passed to a helper")
                return
        g = self.inlineable(names)
        if g is not None:
            if e["k"] == "mcall":
                self.walk(e["recv"])
            for a in args:
                if hir_strip(a).get("k") != "closure":
                    self.walk(a)
            self.inline(g, e)
            return
        closure_args = [hir_strip(a) for a in args if hir_strip(a).get("k") == "closure"]
        plain = [a for a in args if hir_strip(a).get("k") != "closure"]
        if e["k"] == "mcall" and e["name"] in self.PER_ELEMENT and len(closure_args) == 1 and not plain and \
                any(n.startswith(("std::iter::", "core::iter::")) for n in names):
            # ITER.try_for_each(|PAT| body) == for PAT in ITER { body? }
            lst, enumerate_, rev = self.iter_source(e["recv"])
            c = closure_args[0]
            saved = dict(self.env)
            if len(c["params"]) == 1:
                self.bind_element(c["params"][0], lst, enumerate_, rev)
            snap = self.snapshot()
            self.walk(c["body"])
            self.require_same(snap, c.get("ln", e["ln"]), "loop body")
            self.env = saved
            return
        if e["k"] == "mcall":
            self.walk(e["recv"])
        for a in plain:
            self.walk(a)
        ln = e["ln"]
        if PUSH in names:
            self.stack.append(self.sym(args[0]))
            self.counts["push"] += 1
        elif POP in names:
            self.counts["pop"] += 1
            if not self.stack:
                self.problems.append(("pop_subindex without a matching push_subindex", ln))
            else:
                self.stack.pop()
        elif SCOPE_BEGIN in names:
            self.scope += 1
            self.counts["scope_begin"] += 1
        elif SCOPE_END in names:
            self.scope -= 1
            self.counts["scope_end"] += 1
        elif COMPILE_BEGIN in names:
            self.nest += 1
            self.counts["compile_begin"] += 1
        elif COMPILE_END in names:
            self.nest -= 1
            self.counts["compile_end"] += 1
        elif PROCESS in names:
            target = args[0]
            p = self.place(target)
            el = self.elem_of(target)
            if p is not None:
                self.events.append(("child", cs.Accessors._place_outcome(p), tuple(self.stack), ln, self.scope))
            elif el is not None:
                self.events.append(("list_elem", el, tuple(self.stack), ln, self.scope))
            else:
                self.events.append(("synthetic", None, tuple(self.stack), ln, self.scope))
        elif SUBEXPR in names:
            self.subexpr(args[0], ln)
        elif any(n.startswith("compiler::Compiler::") and n != "compiler::Compiler::encode_if_then" for n in names):
            if any(n.startswith("compiler::Compiler::") and n not in self.KNOWN and self.moves_bookkeeping(n) for n in names):
                # a helper that compiles cards / moves the index but was not walked (recursion, nesting bound): unknown effect
                self.events.append(("unknown_subexpr", None, tuple(self.stack), ln))
            # any other Compiler method may emit instructions / raise located errors on behalf of the card being compiled
            self.events.append(("emit", [n for n in names if n.startswith("compiler::Compiler::")][0], tuple(self.stack), ln, self.scope))
        if "compiler::Compiler::encode_if_then" in names:
            # encode_if_then itself emits the conditional jump before it runs the callback
            self.events.append(("emit", "compiler::Compiler::encode_if_then", tuple(self.stack), ln, self.scope))
        # closures run with the caller's bookkeeping state (encode_if_then calls `then(self)` once)
        for c in closure_args:
            if "compiler::Compiler::encode_if_then" in names:
                self.walk(c["body"])
            else:
                snap = self.snapshot()
                self.walk(c["body"])
                self.require_same(snap, c.get("ln", ln), "closure")

    def arg_class(self, a):
        """class of a slice-of-cards expression: ('array', N) | ('vec',) | None. A parameter of an inlined helper keeps
        the class of the expression it was called with (a `[Card; 2]` payload handed over as `&[Card]` is still 2 cards);
        borrows / derefs / as_ref are looked through, an array type found on the way wins over the coerced slice type."""
        a = hir_strip(a)
        if a is None:
            return None
        lid = hir_local_id(a)
        if lid is not None and lid in self.param_cls:
            return self.param_cls[lid]
        best = cs.classify(a.get("ty", "") or "") or cs.classify(a.get("ty_adj", "") or "")
        inner = None
        if a.get("k") == "mcall" and a["name"] in cs.TRANSPARENT:
            inner = a["recv"]
        elif a.get("k") == "addr_of" or (a.get("k") == "un" and a["op"] == "Deref"):
            inner = a["e"]
        if inner is not None:
            c = self.arg_class(inner)
            if c is not None and (c[0] == "array" or best is None or best[0] == "card"):
                best = c
        return best

    def single_card(self, a):
        """`slice::from_ref(&P)` (or a parameter of an inlined helper bound to one): (True, place | None), else (False, None)"""
        a = hir_strip(a)
        if a is not None and a.get("k") == "call" and any(n.endswith("slice::from_ref") for n in hir_callee(a)):
            return True, self.place(a["args"][0])
        lid = hir_local_id(a) if a is not None else None
        v = self.env.get(lid) if lid is not None else None
        if isinstance(v, tuple) and v and v[0] == "#single":
            return True, v[1]
        return False, None

    def subexpr(self, arg, ln):
        a = hir_strip(arg)
        # slice::from_ref(&P)
        single, sp = self.single_card(a)
        if single:
            if sp is None:
                self.events.append(("synthetic", None, tuple(self.stack) + (0,), ln))
            else:
                self.events.append(("child", cs.Accessors._place_outcome(sp), tuple(self.stack) + (0,), ln))
            return
        p = self.place(a)
        cls = self.arg_class(a)
        if p is None or cls is None:
            self.events.append(("unknown_subexpr", None, tuple(self.stack), ln))
            return
        if cls[0] == "array":
            for n in range(cls[1]):
                self.events.append(("child", ("elem", p, n), tuple(self.stack) + (n,), ln))
        elif cls[0] == "vec":
            self.events.append(("list_elem", p, tuple(self.stack) + (("idx", p, 0),), ln))
        else:
            self.events.append(("unknown_subexpr", None, tuple(self.stack), ln))
