"""Exhaustive small-domain evaluation of a (small, loop-free or bounded) MIR body.

This is not running the program: there is no compiled code and no Value. A body is *evaluated as a term* over a finite
abstract domain (small unsigned integers for heights/indices, opaque tokens for everything else) for every point of that
domain, the same way cao/backshift.py evaluates a HIR predicate. It decides clauses of the form "for every state the
guards admit, the field ends up with X and the result comes from Y" for accessor-sized functions whose behaviour is a
finite case split on comparisons.

  run(fn, args, fields, calls) -> Outcome(ret, fields, trace)
     args    {local number: value}
     fields  {field name: value}   fields of *self (by name; any base that is a reference to self)
     calls   callback(names, argvalues, state) -> value   (raise Unknown to give up)
Values: int, bool, ("tok", ...) tuples, ("tuple", a, b), ("agg", path, variant, [ops]).
"""
from .facts import callee_names, op_place, short

M64 = 1 << 64


class Unknown(Exception):
    pass


class Panic(Exception):
    pass


class Outcome:
    def __init__(self, ret, fields, trace, panicked=None):
        self.ret = ret
        self.fields = fields
        self.trace = trace
        self.panicked = panicked


BIN = {
    "Lt": lambda a, b: a < b, "Le": lambda a, b: a <= b, "Gt": lambda a, b: a > b, "Ge": lambda a, b: a >= b,
    "Eq": lambda a, b: a == b, "Ne": lambda a, b: a != b,
    "BitAnd": lambda a, b: a & b, "BitOr": lambda a, b: a | b, "BitXor": lambda a, b: a ^ b,
}


class State:
    def __init__(self, fn, args, fields, calls, overflow_checks=True):
        self.fn = fn
        self.locals = dict(args)
        self.fields = dict(fields)
        self.calls = calls
        self.trace = []
        self.self_local = 1

    # -- places
    def read_place(self, pl):
        l, proj = pl["l"], pl["p"]
        if self._is_self(l, proj):
            rest = [e for e in proj if e["k"] != "deref"]
            if not rest:
                return ("self",)
            if rest[0]["k"] == "field":
                name = rest[0]["name"]
                if name not in self.fields:
                    raise Unknown("field %s" % name)
                v = self.fields[name]
                return self._project(v, rest[1:])
            raise Unknown("projection on self")
        if l not in self.locals:
            raise Unknown("local _%d read before it is written" % l)
        return self._project(self.locals[l], [e for e in proj if e["k"] != "deref"])

    def _is_self(self, l, proj):
        v = self.locals.get(l)
        return v == ("self",) and any(e["k"] == "deref" for e in proj) or (v == ("self",) and not proj and False)

    def _project(self, v, proj):
        for e in proj:
            if e["k"] == "field":
                if isinstance(v, tuple) and v and v[0] == "tuple":
                    v = v[1 + int(e["name"])]
                elif isinstance(v, tuple) and v and v[0] == "agg":
                    v = v[3][int(e["name"])] if e["name"].isdigit() else _unknown("named field of aggregate")
                elif v == ("self",):
                    if e["name"] not in self.fields:
                        raise Unknown("field %s" % e["name"])
                    v = self.fields[e["name"]]
                else:
                    raise Unknown("field of %r" % (v,))
            elif e["k"] == "downcast":
                continue
            else:
                raise Unknown("projection %s" % e["k"])
        return v

    def write_place(self, pl, v):
        l, proj = pl["l"], pl["p"]
        if self.locals.get(l) == ("self",) and any(e["k"] == "deref" for e in proj):
            rest = [e for e in proj if e["k"] != "deref"]
            if len(rest) == 1 and rest[0]["k"] == "field":
                self.fields[rest[0]["name"]] = v
                self.trace.append(("store", rest[0]["name"], v))
                return
            raise Unknown("store into self through %s" % rest)
        if proj:
            raise Unknown("store into a projection of a local")
        self.locals[l] = v

    def operand(self, op):
        k = op.get("k")
        if k == "const":
            if "val" in op and isinstance(op["val"], (int, bool)):
                return op["val"]
            return ("const", op.get("text", op.get("ty", "?")))
        return self.read_place(op["place"])

    def rvalue(self, rv):
        k = rv["k"]
        if k == "use":
            return self.operand(rv["op"])
        if k == "cast":
            return self.operand(rv["op"])
        if k in ("ref", "rawptr"):
            pl = rv["place"]
            v = self.locals.get(pl["l"])
            if v == ("self",) and all(e["k"] == "deref" for e in pl["p"]):
                return ("self",)
            return ("ref", self.read_place(pl))
        if k == "bin":
            a = self.operand(rv["l"])
            b = self.operand(rv["r"])
            op = rv["op"]
            if not (isinstance(a, (int, bool)) and isinstance(b, (int, bool))):
                raise Unknown("%s on %r, %r" % (op, a, b))
            if op in BIN:
                return BIN[op](a, b)
            if op in ("Add", "AddUnchecked"):
                return (a + b) % M64
            if op in ("Sub", "SubUnchecked"):
                return (a - b) % M64
            if op == "Mul":
                return (a * b) % M64
            if op == "AddWithOverflow":
                return ("tuple", (a + b) % M64, a + b >= M64)
            if op == "SubWithOverflow":
                return ("tuple", (a - b) % M64, a - b < 0)
            if op == "MulWithOverflow":
                return ("tuple", (a * b) % M64, a * b >= M64)
            raise Unknown("binary op %s" % op)
        if k == "un":
            x = self.operand(rv["x"])
            if rv["op"] == "Not":
                if isinstance(x, bool):
                    return not x
                if isinstance(x, int):
                    return (~x) % M64
            raise Unknown("unary %s" % rv["op"])
        if k == "agg":
            a = rv["agg"]
            ops = [self.operand(o) for o in rv["ops"]]
            if a["k"] == "tuple":
                return ("tuple",) + tuple(ops)
            return ("agg", short(a.get("path", "")), a.get("variant", ""), ops)
        if k == "discr":
            v = self.read_place(rv["place"])
            if isinstance(v, tuple) and v and v[0] == "opt":
                return 1 if v[1] is not None else 0
            raise Unknown("discriminant of %r" % (v,))
        raise Unknown("rvalue %s" % k)


def _unknown(msg):
    raise Unknown(msg)


def run(fn, args, fields, calls, max_steps=400):
    st = State(fn, args, fields, calls)
    bi = 0
    steps = 0
    while True:
        steps += 1
        if steps > max_steps:
            raise Unknown("step bound")
        b = fn.blocks[bi]
        for s in b["stmts"]:
            if s["k"] != "assign":
                continue
            st.write_place(s["place"], st.rvalue(s["rv"]))
        t = b["term"]
        k = t["k"]
        if k == "return":
            return Outcome(st.locals.get(0), st.fields, st.trace)
        if k == "goto":
            bi = t["target"]
        elif k == "switch":
            d = st.operand(t["discr"])
            if isinstance(d, bool):
                d = 1 if d else 0
            if not isinstance(d, int):
                raise Unknown("switch on %r" % (d,))
            bi = dict((v, bb) for v, bb in t["targets"]).get(d, t["otherwise"])
        elif k == "assert":
            c = st.operand(t["cond"])
            if not isinstance(c, bool):
                raise Unknown("assert on %r" % (c,))
            if c != t.get("expected", True):
                return Outcome(None, st.fields, st.trace, panicked=str(t.get("msg")))
            bi = t["target"]
        elif k == "call":
            names = callee_names(t["func"])
            argv = [st.operand(a) for a in t["args"]]
            v = calls(names, argv, st)
            st.trace.append(("call", names[0] if names else "?", tuple(argv)))
            st.write_place(t["dest"], v)
            if t.get("target") is None:
                raise Unknown("diverging call")
            bi = t["target"]
        elif k == "drop":
            bi = t["target"]
        else:
            raise Unknown("terminator %s" % k)
