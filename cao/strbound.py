"""C01.W / C10.S: the VM's string reader accepts every string the compiler stores.

The compiler writes a string operand as a handle into the data section, where `encode_str` stores a u32 length and the
bytes - of any length. The reader (`read_str` and whatever else hands a piece of the data section to `decode_str`) must look
at the data up to its end. A reader that cuts the slice at a constant distance (a 'maximum string length' window) turns a
literal, a property name or a native-function name longer than the window into a run-time error although it compiled.
Accepted alternative: the same constant is tested on the compiler's side on a path that ends in a compile error."""
from cao.facts import hir_walk, hir_callee, hir_strip, hir_local_id, AnchorMissing
from cao.rules import ok, bad, undecided
from cao import hirutil as hu


def _bounds_in(e, inits, seen, depth=0):
    """constants (const items, integer literals > 16) and clamping calls that take part in computing expression e,
    following single-assignment locals"""
    out = []
    for x in hir_walk(e):
        k = x.get("k")
        if k == "lit" and isinstance(x["lit"].get("v"), int) and x["lit"]["v"] > 16:
            out.append(("literal", str(x["lit"]["v"])))
        elif k == "path":
            r = x["path"]["res"]
            if r.get("k") in ("def", "const") and "const" in str(r.get("def_kind", r.get("kind", ""))).lower():
                out.append(("const", r.get("path") or r.get("name")))
            elif r.get("k") == "def" and str(r.get("path", "")).rsplit("::", 1)[-1].isupper():
                out.append(("const", r.get("path")))
            lid = hir_local_id(x)
            if lid is not None and lid not in seen and depth < 6:
                seen.add(lid)
                for init in inits.get(lid, []):
                    out += _bounds_in(init, inits, seen, depth + 1)
        elif k == "mcall" and x["name"] in ("min", "clamp", "saturating_sub", "take"):
            out.append(("clamp", x["name"]))
    return out


def rule_string_window(F, rid="C01.W", prefix="C01/W"):
    res = []
    readers = []
    for f in F.fns:
        if not f.hir or f.is_closure or not (f.path.startswith("vm::") or f.path.startswith("vm")):
            continue
        for x in hir_walk(f.hir["body"]):
            if x.get("k") == "call" and any(n.endswith("bytecode::decode_str") or n.endswith("::decode_str") for n in (hir_callee(x) or [])):
                readers.append((f, x))
    if not readers:
        raise AnchorMissing("calls of bytecode::decode_str in the vm module")
    # the compiler's side: constants it compares string lengths with
    comp_consts = set()
    for f in F.fns:
        if f.hir and (f.path.startswith("compiler::") or f.path.startswith("bytecode::")):
            for x in hir_walk(f.hir["body"]):
                if x.get("k") == "bin" and x.get("op") in ("Lt", "Le", "Gt", "Ge"):
                    for kind, name in _bounds_in(x, {}, set()):
                        if kind == "const":
                            comp_consts.add(name)
    for f, call in readers:
        inits = hu.let_inits(f)
        arg = call["args"][0] if call.get("args") else None
        key = "%s/%s/reads-to-the-end-of-the-data" % (prefix, f.name)
        if arg is None:
            res.append(undecided(rid, key, f.loc(call.get("ln")), "decode_str called without an argument expression"))
            continue
        bounds = [b for b in _bounds_in(arg, inits, set())]
        consts = [n for k_, n in bounds if k_ in ("const", "literal")]
        if consts and not all(n in comp_consts for n in consts):
            res.append(bad(rid, key, f.loc(call.get("ln")),
                           "%s hands decode_str a piece of the data section that is cut at a constant distance (%s%s): the compiler stores "
                           "strings of any length (no such limit is tested when a string is emitted), so a literal, a property name or a "
                           "native-function name longer than the window compiles and then fails at run time"
                           % (f.name, ", ".join(sorted(set(consts))), ", via " + "/".join(sorted(set(n for k_, n in bounds if k_ == "clamp"))) if any(k_ == "clamp" for k_, _ in bounds) else "")))
        else:
            res.append(ok(rid, key, f.loc(call.get("ln")), "the slice handed to decode_str is bounded by the data section only%s"
                          % (" (limit %s is also enforced by the compiler)" % consts if consts else "")))
    return res
