"""Call-frame balance of a function over all of its non-error paths (interprocedural, path-sensitive at block level).

delta(path) = (#BoundedStack::push on call_stack) - (#BoundedStack::pop on call_stack) - (#Vm::_run)
              + sum of the deltas of crate-local callees
Vm::_run (the interpreter loop, located by what it does: interpreter_loop) counts -1: it returns when the callee's Return
pops the frame that was pushed for it (C08.F / C03 decide that).
The call stack is recognised by the field it is reached through or by its type (BoundedStack<CallFrame>: a `&mut` to it kept in
a local or captured by a closure is still the call stack). A closure of the function that is called in place counts like a
function; a closure handed to `Result::and_then` / `Option::and_then` counts on the paths where the result is Ok / Some (it ran
and succeeded - the other outcomes are error results, not judged here, as for a direct call); a closure that changes the balance
and is handed to any other function is undecided.
Loops: a natural loop whose trip count is a literal Range a..b contributes (b-a) x (delta of one trip round the body);
any other loop that changes the balance is undecided. Error paths (a block that assigns the return place from an Err
aggregate or from FromResidual::from_residual) are not judged here.
"""
from .facts import callee_names, op_local, short, DefUse
from . import mirutil as mu


class Undecided(Exception):
    pass


def _is_call_stack(f, du, arg):
    l = op_local(arg)
    if l is None:
        return False
    if mu.ref_of_field_chain(f, du, l, ["call_stack"]):
        return True
    ty = (f.local_ty(l) or "").replace(" ", "")
    return "BoundedStack<vm::runtime::CallFrame>" in ty or "BoundedStack<runtime::CallFrame>" in ty


INSTR = "instruction::Instruction"


def interpreter_loop(F):
    """short path of the function that runs instructions until the program ends (today Vm::_run), found by what it does:
    the function of the vm module with the largest switch on an Instruction discriminant when that switch sits in a loop,
    else the nearest caller in the vm module that calls the switching function from inside a loop."""
    cached = getattr(F, "_interpreter_loop", None)
    if cached is not None:
        return cached
    best = None
    for cand in F.fns:
        if not cand.mir or cand.is_closure or not cand.path.startswith("vm::"):
            continue
        for bi, b in enumerate(cand.blocks):
            t = b["term"]
            if t["k"] != "switch" or len(t["targets"]) < 20:
                continue
            loc = op_local(t["discr"])
            if loc is None:
                continue
            for st in b["stmts"]:
                if st["k"] == "assign" and st["place"]["l"] == loc and st["rv"]["k"] == "discr" and short(st["rv"].get("adt", "")) == INSTR:
                    if best is None or len(t["targets"]) > best[2]:
                        best = (cand, bi, len(t["targets"]))
    out = "vm::Vm::_run"
    if best is not None:
        fn, bi, _n = best
        seen = set()
        work = [(fn, [bi])]
        found = None
        while work and found is None:
            g, sites = work.pop(0)
            if g.short in seen:
                continue
            seen.add(g.short)
            cfg = g.cfg
            if any(cfg.dominates(h, b_) for _a, h in cfg.back_edges() for b_ in sites):
                found = g.short
                break
            for c in F.fns:
                if c.mir and not c.is_closure and c.path.startswith("vm::") and c.short not in seen:
                    cs = [b_ for b_, t_ in mu.calls(c) if g.short in callee_names(t_["func"])]
                    if cs:
                        work.append((c, cs))
        if found is not None:
            out = found
    F._interpreter_loop = out
    return out


def _closure_operands(F, f, du, t):
    """closures of the crate among the arguments of a call (by value or by reference): [Fn]"""
    out = []
    for a in t["args"]:
        l = op_local(a)
        if l is None or "{closure@" not in (f.local_ty(l) or ""):
            continue
        seen = set()
        while l is not None and l not in seen:
            seen.add(l)
            d = du.sole_def(l)
            if d is None or d[2] != "assign":
                break
            rv = d[3]["rv"]
            if rv["k"] == "agg" and rv["agg"].get("k") == "closure":
                g = F.fn(short(rv["agg"]["path"]), required=False)
                if g is not None and g.mir:
                    out.append(g)
                break
            if rv["k"] in ("use", "cast"):
                l = op_local(rv["op"])
            elif rv["k"] in ("ref", "rawptr") and not [e for e in rv["place"]["p"] if e["k"] != "deref"]:
                l = rv["place"]["l"]
            else:
                break
    return out


def _error_block(f, bi):
    b = f.blocks[bi]
    for st in b["stmts"]:
        if st["k"] == "assign" and st["place"]["l"] == 0 and not st["place"]["p"] and mu.is_err_aggregate(st["rv"]):
            return True
    t = b["term"]
    if t["k"] == "call" and t["dest"]["l"] == 0 and not t["dest"]["p"] and \
            any(n.endswith("FromResidual::from_residual") or n.endswith("::from_residual") for n in callee_names(t["func"])):
        return True
    return False


def block_weight(F, f, du, bi, memo, stack):
    t = f.blocks[bi]["term"]
    if t["k"] != "call":
        return 0, None
    names = callee_names(t["func"])
    if "collections::bounded_stack::BoundedStack::push" in names and t["args"] and _is_call_stack(f, du, t["args"][0]):
        return 1, "push"
    if "collections::bounded_stack::BoundedStack::pop" in names and t["args"] and _is_call_stack(f, du, t["args"][0]):
        return -1, "pop"
    if interpreter_loop(F) in names:
        return -1, "_run"
    for n in names:
        g = F.fn(n, required=False)
        # (a closure named by the call is a closure of this function called in place: `make()` / Fn::call(&make, ()))
        if g is not None and g.mir and g is not f:
            if n in stack:
                return 0, None          # recursion: balanced by induction
            ds = deltas(F, g, memo, stack + (n,))
            if len(ds) > 1:
                raise Undecided("callee %s has frame deltas %s on its non-error paths" % (n, sorted(ds)))
            d = next(iter(ds)) if ds else 0
            return d, ("call %s" % n.rsplit("::", 1)[-1]) if d else None
    # closures handed to a function of another crate (combinators)
    total = 0
    for g in _closure_operands(F, f, du, t):
        if g.short in stack or not _touches(F, g, memo):
            continue
        ds = deltas(F, g, memo, stack + (g.short,))
        if ds == {0}:
            continue
        if any(n in ("std::result::Result::and_then", "std::option::Option::and_then") for n in names) and len(ds) == 1:
            total += next(iter(ds))
        else:
            raise Undecided("a closure that changes the frame balance by %s is handed to %s" % (sorted(ds), names[0] if names else "?"))
    return total, ("closure via %s" % names[0].rsplit("::", 1)[-1]) if total else None


def _touches(F, f, memo, seen=None):
    """does f (transitively, crate-local) push/pop the call stack or call _run?"""
    key = ("touch", f.short)
    if key in memo:
        return memo[key]
    memo[key] = False
    du = DefUse(f)
    r = False
    for bi, t in mu.calls(f):
        names = callee_names(t["func"])
        if interpreter_loop(F) in names:
            r = True
        if any(n in ("collections::bounded_stack::BoundedStack::push", "collections::bounded_stack::BoundedStack::pop") for n in names) and \
                t["args"] and _is_call_stack(f, du, t["args"][0]):
            r = True
        if r:
            break
        for n in names:
            g = F.fn(n, required=False)
            if g is not None and g.mir and g is not f and _touches(F, g, memo):
                r = True
        for g in _closure_operands(F, f, du, t):
            if g is not f and _touches(F, g, memo):
                r = True
    memo[key] = r
    return r


def deltas(F, f, memo, stack=()):
    key = ("delta", f.short)
    if key in memo:
        return memo[key]
    if not _touches(F, f, memo):
        memo[key] = {0}
        return memo[key]
    cfg = f.cfg
    du = DefUse(f)
    w = {}
    why = {}
    for bi in cfg.reach:
        if _error_block(f, bi) or all(_only_error(f, cfg, s_) for s_ in cfg.succ[bi]) and cfg.succ[bi]:
            w[bi], why[bi] = 0, None     # only on the way to an error exit: not judged here
            continue
        w[bi], why[bi] = block_weight(F, f, du, bi, memo, stack + (f.short,))
    back = cfg.back_edges()
    headers = sorted(set(h for _s, h in back))
    loop_body = {}
    for h in headers:
        srcs = [s for s, hh in back if hh == h]
        body = cfg.can_reach(srcs, avoid=[h]) | {h}
        body = set(b for b in body if cfg.dominates(h, b))
        loop_body[h] = body
    # trip counts: literal Range in the function
    trip = None
    for b in f.blocks:
        for st in b["stmts"]:
            if st["k"] == "assign" and st["rv"]["k"] == "agg" and short(st["rv"]["agg"].get("path", "")).endswith("ops::Range"):
                a, b2 = st["rv"]["ops"]
                if a.get("k") == "const" and b2.get("k") == "const" and isinstance(a.get("val"), int) and isinstance(b2.get("val"), int):
                    trip = b2["val"] - a["val"] if trip is None else "many"
    loop_effect = {}
    for h, body in loop_body.items():
        if not any(w[b] for b in body):
            loop_effect[h] = 0
            continue
        # delta of one trip: header -> back edge source, inside the body, not through error blocks
        per = _flow(f, cfg, w, start=h, inside=body, back=set(back), stop_at=[s for s, hh in back if hh == h])
        if len(per) != 1:
            raise Undecided("loop at bb%d changes the frame balance by %s per trip" % (h, sorted(per)))
        if not isinstance(trip, int):
            raise Undecided("loop at bb%d changes the frame balance and its trip count is not a literal range" % h)
        loop_effect[h] = next(iter(per)) * trip
    # whole function: DAG without back edges; loop bodies contribute through their header only
    in_loop = set()
    for h, body in loop_body.items():
        in_loop |= (body - {h})
    wf = {}
    for bi in cfg.reach:
        if bi in in_loop:
            wf[bi] = 0   # reached only on the way to an error exit or counted via the header
        else:
            wf[bi] = w[bi]
    for h in headers:
        wf[h] = w[h] + loop_effect[h]
    # paths that leave a loop body other than through the header carry a partial trip: only error exits do that today
    for h, body in loop_body.items():
        for b in body - {h}:
            for s in cfg.succ[b]:
                if s not in body and not _only_error(f, cfg, s):
                    if loop_effect[h] and _flow(f, cfg, w, start=h, inside=body, back=set(back), stop_at=[b]) != {0}:
                        raise Undecided("loop at bb%d is left from the middle of a trip on a non-error path" % h)
    rets = cfg.return_blocks()
    out = _flow(f, cfg, wf, start=0, inside=set(cfg.reach), back=set(back), stop_at=rets)
    memo[key] = out
    return out


def _only_error(f, cfg, b, depth=0):
    """every path from b to the return passes an error block"""
    seen = set()
    stack = [b]
    while stack:
        x = stack.pop()
        if x in seen:
            continue
        seen.add(x)
        if _error_block(f, x):
            continue
        if f.blocks[x]["term"]["k"] == "return":
            return False
        stack.extend(cfg.succ[x])
    return True


def _flow(f, cfg, w, start, inside, back, stop_at):
    """set of sums of w over the paths start -> stop_at inside `inside`, ignoring back edges and error blocks"""
    stop = set(stop_at)
    order = [b for b in cfg._rpo() if b in inside]
    acc = {start: {0}}
    out = set()
    for b in order:
        if b not in acc:
            continue
        if _error_block(f, b):
            continue
        vals = set(v + w.get(b, 0) for v in acc[b])
        if len(vals) > 16:
            raise Undecided("too many distinct frame deltas")
        if b in stop:
            out |= vals
            if f.blocks[b]["term"]["k"] == "return":
                continue
        for s in cfg.succ[b]:
            if (b, s) in back or s not in inside:
                continue
            acc.setdefault(s, set()).update(vals)
    return out
