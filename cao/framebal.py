"""Call-frame balance of a function over all of its non-error paths (interprocedural, path-sensitive at block level).

delta(path) = (#BoundedStack::push on call_stack) - (#BoundedStack::pop on call_stack) - (#Vm::_run)
              + sum of the deltas of crate-local callees
Vm::_run counts -1: it returns when the callee's Return pops the frame that was pushed for it (C08.F / C03 decide that).
Loops: a natural loop whose trip count is a literal Range a..b contributes (b-a) x (delta of one trip round the body);
any other loop that changes the balance is undecided. Error paths (a block that assigns the return place from an Err
aggregate or from FromResidual::from_residual) are not judged here.
"""
from .facts import callee_names, op_local, short, DefUse
from . import mirutil as mu


class Undecided(Exception):
    pass


def _is_call_stack(f, du, arg):
    l = op_local(arg)
    return l is not None and mu.ref_of_field_chain(f, du, l, ["call_stack"])


def _error_block(f, bi):
    b = f.blocks[bi]
    for st in b["stmts"]:
        if st["k"] == "assign" and st["place"]["l"] == 0 and not st["place"]["p"] and mu.is_err_aggregate(st["rv"]):
            return True
    t = b["term"]
    if t["k"] == "call" and t["dest"]["l"] == 0 and not t["dest"]["p"] and \
            any(n.endswith("FromResidual::from_residual") or n.endswith("::from_residual") for n in callee_names(t["func"])):
        return True
    return False


def block_weight(F, f, du, bi, memo, stack):
    t = f.blocks[bi]["term"]
    if t["k"] != "call":
        return 0, None
    names = callee_names(t["func"])
    if "collections::bounded_stack::BoundedStack::push" in names and t["args"] and _is_call_stack(f, du, t["args"][0]):
        return 1, "push"
    if "collections::bounded_stack::BoundedStack::pop" in names and t["args"] and _is_call_stack(f, du, t["args"][0]):
        return -1, "pop"
    if "vm::Vm::_run" in names:
        return -1, "_run"
    for n in names:
        g = F.fn(n, required=False)
        if g is not None and g.mir and not g.is_closure and g is not f:
            if n in stack:
                return 0, None          # recursion: balanced by induction
            ds = deltas(F, g, memo, stack + (n,))
            if len(ds) > 1:
                raise Undecided("callee %s has frame deltas %s on its non-error paths" % (n, sorted(ds)))
            d = next(iter(ds)) if ds else 0
            return d, ("call %s" % n.rsplit("::", 1)[-1]) if d else None
    return 0, None


def _touches(F, f, memo, seen=None):
    """does f (transitively, crate-local) push/pop the call stack or call _run?"""
    key = ("touch", f.short)
    if key in memo:
        return memo[key]
    memo[key] = False
    du = DefUse(f)
    r = False
    for bi, t in mu.calls(f):
        names = callee_names(t["func"])
        if "vm::Vm::_run" in names:
            r = True
        if any(n in ("collections::bounded_stack::BoundedStack::push", "collections::bounded_stack::BoundedStack::pop") for n in names) and \
                t["args"] and _is_call_stack(f, du, t["args"][0]):
            r = True
        if r:
            break
        for n in names:
            g = F.fn(n, required=False)
            if g is not None and g.mir and not g.is_closure and g is not f and _touches(F, g, memo):
                r = True
    memo[key] = r
    return r


def deltas(F, f, memo, stack=()):
    key = ("delta", f.short)
    if key in memo:
        return memo[key]
    if not _touches(F, f, memo):
        memo[key] = {0}
        return memo[key]
    cfg = f.cfg
    du = DefUse(f)
    w = {}
    why = {}
    for bi in cfg.reach:
        if _error_block(f, bi) or all(_only_error(f, cfg, s_) for s_ in cfg.succ[bi]) and cfg.succ[bi]:
            w[bi], why[bi] = 0, None     # only on the way to an error exit: not judged here
            continue
        w[bi], why[bi] = block_weight(F, f, du, bi, memo, stack + (f.short,))
    back = cfg.back_edges()
    headers = sorted(set(h for _s, h in back))
    loop_body = {}
    for h in headers:
        srcs = [s for s, hh in back if hh == h]
        body = cfg.can_reach(srcs, avoid=[h]) | {h}
        body = set(b for b in body if cfg.dominates(h, b))
        loop_body[h] = body
    # trip counts: literal Range in the function
    trip = None
    for b in f.blocks:
        for st in b["stmts"]:
            if st["k"] == "assign" and st["rv"]["k"] == "agg" and short(st["rv"]["agg"].get("path", "")).endswith("ops::Range"):
                a, b2 = st["rv"]["ops"]
                if a.get("k") == "const" and b2.get("k") == "const" and isinstance(a.get("val"), int) and isinstance(b2.get("val"), int):
                    trip = b2["val"] - a["val"] if trip is None else "many"
    loop_effect = {}
    for h, body in loop_body.items():
        if not any(w[b] for b in body):
            loop_effect[h] = 0
            continue
        # delta of one trip: header -> back edge source, inside the body, not through error blocks
        per = _flow(f, cfg, w, start=h, inside=body, back=set(back), stop_at=[s for s, hh in back if hh == h])
        if len(per) != 1:
            raise Undecided("loop at bb%d changes the frame balance by %s per trip" % (h, sorted(per)))
        if not isinstance(trip, int):
            raise Undecided("loop at bb%d changes the frame balance and its trip count is not a literal range" % h)
        loop_effect[h] = next(iter(per)) * trip
    # whole function: DAG without back edges; loop bodies contribute through their header only
    in_loop = set()
    for h, body in loop_body.items():
        in_loop |= (body - {h})
    wf = {}
    for bi in cfg.reach:
        if bi in in_loop:
            wf[bi] = 0   # reached only on the way to an error exit or counted via the header
        else:
            wf[bi] = w[bi]
    for h in headers:
        wf[h] = w[h] + loop_effect[h]
    # paths that leave a loop body other than through the header carry a partial trip: only error exits do that today
    for h, body in loop_body.items():
        for b in body - {h}:
            for s in cfg.succ[b]:
                if s not in body and not _only_error(f, cfg, s):
                    if loop_effect[h] and _flow(f, cfg, w, start=h, inside=body, back=set(back), stop_at=[b]) != {0}:
                        raise Undecided("loop at bb%d is left from the middle of a trip on a non-error path" % h)
    rets = cfg.return_blocks()
    out = _flow(f, cfg, wf, start=0, inside=set(cfg.reach), back=set(back), stop_at=rets)
    memo[key] = out
    return out


def _only_error(f, cfg, b, depth=0):
    """every path from b to the return passes an error block"""
    seen = set()
    stack = [b]
    while stack:
        x = stack.pop()
        if x in seen:
            continue
        seen.add(x)
        if _error_block(f, x):
            continue
        if f.blocks[x]["term"]["k"] == "return":
            return False
        stack.extend(cfg.succ[x])
    return True


def _flow(f, cfg, w, start, inside, back, stop_at):
    """set of sums of w over the paths start -> stop_at inside `inside`, ignoring back edges and error blocks"""
    stop = set(stop_at)
    order = [b for b in cfg._rpo() if b in inside]
    acc = {start: {0}}
    out = set()
    for b in order:
        if b not in acc:
            continue
        if _error_block(f, b):
            continue
        vals = set(v + w.get(b, 0) for v in acc[b])
        if len(vals) > 16:
            raise Undecided("too many distinct frame deltas")
        if b in stop:
            out |= vals
            if f.blocks[b]["term"]["k"] == "return":
                continue
        for s in cfg.succ[b]:
            if (b, s) in back or s not in inside:
                continue
            acc.setdefault(s, set()).update(vals)
    return out
