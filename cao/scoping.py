"""Searches over collections in HIR: for-loops with an early exit and position/find style adapters.

A *search* is described by
  kind        'for' | 'method'
  adapters    iterator adapter names from the collection outwards, e.g. ['iter_mut', 'enumerate', 'rev']
  terminal    'for' or the searching method (position, rposition, find, rfind, find_map, any)
  base        the collection expression (locals resolved through their single initialiser)
  base_fields names of all fields mentioned in the collection expression
  first_hit   True when the search stops at the first element satisfying `cond`
  cond        the condition expression (if-condition of the loop body / the closure body)
  elem_ids    HIR ids of the locals bound to the element
  node        the HIR node of the search, ln its line
Used by C01.V / C06.V (innermost binding wins) and C06.D (find-or-insert agreement).
"""
from cao.facts import hir_walk, hir_strip, hir_callee, hir_local_id, hir_children, pat_bindings, short
from cao import hirutil as hu

ITER_SOURCES = ("iter", "iter_mut", "into_iter")
PASS_THROUGH = ("enumerate", "rev", "copied", "cloned", "by_ref", "as_slice", "as_mut_slice")
TERMINALS = ("position", "rposition", "find", "rfind", "find_map", "any")


def _chain(f, e, depth=0):
    """iterator expression -> (adapters from the base outwards, base expression) or None"""
    names = []
    e = hu.strip_casts(e)
    while e is not None and e.get("k") in ("mcall", "call"):
        if e.get("k") == "call":
            nm = hir_callee(e)
            if any(n.endswith("IntoIterator::into_iter") for n in nm) and e["args"]:
                e = hu.strip_casts(e["args"][0])
                continue
            break
        n = e["name"]
        if n in ITER_SOURCES or n in PASS_THROUGH:
            names.append(n)
            e = hu.strip_casts(e["recv"])
            continue
        break
    names.reverse()
    # resolve `let xs = &mut self.locals[..]`
    base = e
    for _ in range(4):
        lid = hir_local_id(hu.strip_all(base)) if base is not None else None
        if lid is None:
            break
        inits = hu.let_inits(f).get(lid, [])
        if len(inits) != 1:
            break
        base = hu.strip_all(inits[0])
    return names, base


def _fields(e):
    out = set()
    for x in hir_walk(e):
        if x.get("k") == "field":
            out.add(x["name"])
    return out


def _exits(body):
    """early exits (ret / break out of the search loop) in a loop body, with the chain of if-conditions guarding them"""
    out = []

    def rec(e, conds, inner_loop):
        if e is None:
            return
        k = e.get("k")
        if k == "ret" or (k == "break" and not inner_loop):
            out.append((e, list(conds)))
            return
        if k == "if":
            rec(e["cond"], conds, inner_loop)
            rec(e["then"], conds + [e["cond"]], inner_loop)
            if e.get("else") is not None:
                rec(e["else"], conds + [("not", e["cond"])], inner_loop)
            return
        if k == "closure":
            return
        if k == "loop":
            for c in hir_children(e):
                rec(c, conds, True)
            return
        for c in hir_children(e):
            rec(c, conds, inner_loop)

    rec(body, [], False)
    return out


def searches(f):
    out = []
    for x in hir_walk(f.hir["body"]):
        if x.get("k") == "match" and str(x.get("source", "")).startswith("ForLoopDesugar"):
            scrut = hir_strip(x["scrut"])
            if not (scrut.get("k") == "call" and any(n.endswith("IntoIterator::into_iter") for n in hir_callee(scrut))):
                continue
            adapters, base = _chain(f, scrut)
            # the `Some(pat) => body` arm of the inner match
            some_arm = None
            for y in hir_walk(x):
                if y is not x and y.get("k") == "match" and str(y.get("source", "")).startswith("ForLoopDesugar"):
                    for a in y["arms"]:
                        if pat_bindings(a["pat"]) or a["pat"].get("k") in ("tuple_struct", "struct"):
                            if a["body"].get("k") != "break":
                                some_arm = a
                    break
            if some_arm is None:
                continue
            exits = _exits(some_arm["body"])
            cond = None
            first_hit = False
            if exits:
                first_hit = all(c for _e, c in exits) and len(exits) >= 1
                cond = [c for _e, cs in exits for c in cs]
            out.append({"kind": "for", "adapters": adapters, "terminal": "for", "base": base,
                        "base_fields": _fields(base) if base is not None else set(), "first_hit": first_hit,
                        "conds": cond or [], "exits": exits, "elem_ids": [i for i, _n in pat_bindings(some_arm["pat"])],
                        "elem_names": [n for _i, n in pat_bindings(some_arm["pat"])],
                        "node": x, "ln": scrut.get("ln"), "pat": some_arm["pat"]})
        elif x.get("k") == "mcall" and x["name"] in TERMINALS and x["args"]:
            clo = hu.strip_casts(x["args"][0])
            if clo is None or clo.get("k") != "closure":
                continue
            adapters, base = _chain(f, x["recv"])
            if not any(a in ITER_SOURCES for a in adapters):
                continue
            ids = []
            for p in clo.get("params", []):
                ids += pat_bindings(p)
            out.append({"kind": "method", "adapters": adapters, "terminal": x["name"], "base": base,
                        "base_fields": _fields(base) if base is not None else set(), "first_hit": True,
                        "conds": [clo["body"]], "exits": [], "elem_ids": [i for i, _n in ids],
                        "elem_names": [n for _i, n in ids], "node": x, "ln": x.get("ln"), "pat": None})
    return out


def direction(s):
    """('reverse'|'forward', index_is_front_based: bool | None)"""
    ad = s["adapters"]
    rev = ad.count("rev") % 2 == 1
    if s["terminal"] in ("rposition", "rfind"):
        rev = not rev
    index_ok = None
    if s["terminal"] == "for":
        if "enumerate" in ad:
            # enumerate before any rev: indices count from the front
            index_ok = "rev" not in ad[:ad.index("enumerate")]
    elif s["terminal"] in ("position", "rposition"):
        # position counts from the start of the (possibly reversed) iterator; rposition reports front-based indices
        index_ok = "rev" not in ad
    return ("reverse" if rev else "forward"), index_ok


def conj_eqs(e, neg=False):
    """the equalities of a conjunction: list of (lhs, rhs) or None when the condition is not a pure conjunction of =="""
    if isinstance(e, tuple):
        return None
    e = hu.strip_casts(e)
    if e is None:
        return None
    if e.get("k") == "bin" and e["op"] == "And":
        a = conj_eqs(e["l"])
        b = conj_eqs(e["r"])
        if a is None or b is None:
            return None
        return a + b
    if e.get("k") == "bin" and e["op"] == "Eq":
        return [(hu.strip_all(e["l"]), hu.strip_all(e["r"]))]
    return None


def rule_innermost(F, rid, fn_path, field, keybase):
    """The search over <field> in <fn_path> must yield the LAST declared element satisfying the condition and report its
    front-based index. Accepted idioms (enumerated from the repository and the std API):
      for (i, x) in xs.iter[_mut]().enumerate().rev() { if cond { return .. i .. } }
      xs.iter().rposition(|x| cond)            xs.iter().enumerate().rev().find(..)
    Violations: a forward first-hit scan (outermost binding wins), rev() before enumerate() or rev().position(..)
    (index counts from the back). Any other shape is reported undecided (the rule's floor then fails closed)."""
    from cao.rules import ok, bad, undecided
    from cao.facts import AnchorMissing
    f = F.fn(fn_path)
    ss = [s for s in searches(f) if field in s["base_fields"]]
    if not ss:
        raise AnchorMissing("search over `%s` in %s" % (field, fn_path))
    res = []
    for n, s in enumerate(ss):
        key = "%s/innermost-binding-wins%s" % (keybase, "" if n == 0 else "#%d" % n)
        d, index_ok = direction(s)
        shape = "%s over .%s" % ("/".join(s["adapters"] + ([s["terminal"]] if s["terminal"] != "for" else ["for"])), field)
        if not s["first_hit"]:
            res.append(undecided(rid, key, f.loc(s["ln"]), "search without an early exit (%s): cannot tell which match is used" % shape))
        elif d == "forward":
            res.append(bad(rid, key, f.loc(s["ln"]),
                           "%s scans `%s` front to back and stops at the first hit (%s): when a name is bound twice in one function "
                           "(a loop variable shadowing a parameter, an outer loop variable or an earlier local) the OUTER binding is "
                           "used, reads and writes in the inner scope go to the wrong slot" % (short(fn_path), field, shape),
                           adapters=s["adapters"], terminal=s["terminal"]))
        elif index_ok is False:
            res.append(bad(rid, key, f.loc(s["ln"]),
                           "%s: the index reported by the reversed search counts from the back (%s), it is used as a front-based slot"
                           % (short(fn_path), shape), adapters=s["adapters"], terminal=s["terminal"]))
        else:
            res.append(ok(rid, key, f.loc(s["ln"]), "reverse first-hit scan, front-based index (%s)" % shape,
                          adapters=s["adapters"], terminal=s["terminal"]))
    return res
