"""Searches over collections in HIR: for-loops with an early exit and position/find style adapters.

A *search* is described by
  kind        'for' | 'method'
  adapters    iterator adapter names from the collection outwards, e.g. ['iter_mut', 'enumerate', 'rev']
  terminal    'for' or the searching method (position, rposition, find, rfind, find_map, any)
  base        the collection expression (locals resolved through their single initialiser)
  base_fields names of all fields mentioned in the collection expression
  first_hit   True when the search stops at the first element satisfying `cond`
  cond        the condition expression (if-condition of the loop body / the closure body)
  elem_ids    HIR ids of the locals bound to the element
  node        the HIR node of the search, ln its line
Used by C01.V / C06.V (innermost binding wins) and C06.D (find-or-insert agreement).
"""
from cao.facts import hir_walk, hir_strip, hir_callee, hir_local_id, hir_children, pat_bindings, short
from cao import hirutil as hu

ITER_SOURCES = ("iter", "iter_mut", "into_iter")
PASS_THROUGH = ("enumerate", "rev", "copied", "cloned", "by_ref", "as_slice", "as_mut_slice")
TERMINALS = ("position", "rposition", "find", "rfind", "find_map", "any")


def _chain(f, e, depth=0):
    """iterator expression -> (adapters from the base outwards, base expression) or None"""
    names = []
    e = hu.strip_casts(e)
    while e is not None and e.get("k") in ("mcall", "call"):
        if e.get("k") == "call":
            nm = hir_callee(e)
            if any(n.endswith("IntoIterator::into_iter") for n in nm) and e["args"]:
                e = hu.strip_casts(e["args"][0])
                continue
            break
        n = e["name"]
        if n in ITER_SOURCES or n in PASS_THROUGH:
            names.append(n)
            e = hu.strip_casts(e["recv"])
            continue
        break
    names.reverse()
    return names, _resolve_base(f, e)


def _resolve_base(f, base):
    """resolve `let xs = &mut self.locals[..]`: a local with a single initialiser stands for that initialiser"""
    for _ in range(4):
        lid = hir_local_id(hu.strip_all(base)) if base is not None else None
        if lid is None:
            break
        inits = hu.let_inits(f).get(lid, [])
        if len(inits) != 1:
            break
        base = hu.strip_all(inits[0])
    return base


def _fields(e, f=None, depth=0):
    """names of the fields mentioned in an expression; with `f`, single-assignment locals (`let n = xs.len()`) are looked
    through"""
    out = set()
    for x in hir_walk(e):
        if x.get("k") == "field":
            out.add(x["name"])
        elif f is not None and depth < 3 and x.get("k") == "path" and x["path"]["res"].get("k") == "local":
            inits = hu.let_inits(f).get(x["path"]["res"]["id"], [])
            if len(inits) == 1:
                out |= _fields(inits[0], f, depth + 1)
    return out


def _exits(body):
    """early exits (ret / break out of the search loop) in a loop body, with the chain of if-conditions guarding them"""
    out = []

    def rec(e, conds, inner_loop):
        if e is None:
            return
        k = e.get("k")
        if k == "ret" or (k == "break" and not inner_loop):
            out.append((e, list(conds)))
            return
        if k == "if":
            rec(e["cond"], conds, inner_loop)
            rec(e["then"], conds + [e["cond"]], inner_loop)
            if e.get("else") is not None:
                rec(e["else"], conds + [("not", e["cond"])], inner_loop)
            return
        if k == "closure":
            return
        if k == "loop":
            for c in hir_children(e):
                rec(c, conds, True)
            return
        for c in hir_children(e):
            rec(c, conds, inner_loop)

    rec(body, [], False)
    return out


def _records_every_hit(body):
    """a loop body without early exit that stores into an outer local under an `if` whose condition does not read that
    local: after the loop the local holds the LAST element satisfying the condition"""
    def rec(e, conds):
        if e is None:
            return False
        k = e.get("k")
        if k in ("closure", "loop"):
            return False
        if k == "if":
            return rec(e["then"], conds + [e["cond"]]) or (e.get("else") is not None and rec(e["else"], conds + [e["cond"]]))
        if k == "assign" and conds:
            lid = hir_local_id(hu.strip_all(e["l"]))
            if lid is not None and not any(hir_local_id(y) == lid for c in conds for y in hir_walk(c) if y.get("k") == "path"):
                return True
        return any(rec(c, conds) for c in hir_children(e))
    return rec(body, [])


def searches(f):
    cached = getattr(f, "_scoping_searches", None)
    if cached is not None:
        return list(cached)
    out = _searches(f)
    f._scoping_searches = out
    return list(out)


def _searches(f):
    out = []
    for x in hir_walk(f.hir["body"]):
        if x.get("k") == "match" and str(x.get("source", "")).startswith("ForLoopDesugar"):
            scrut = hir_strip(x["scrut"])
            if not (scrut.get("k") == "call" and any(n.endswith("IntoIterator::into_iter") for n in hir_callee(scrut))):
                continue
            adapters, base = _chain(f, scrut)
            # the `Some(pat) => body` arm of the inner match
            some_arm = None
            for y in hir_walk(x):
                if y is not x and y.get("k") == "match" and str(y.get("source", "")).startswith("ForLoopDesugar"):
                    for a in y["arms"]:
                        if pat_bindings(a["pat"]) or a["pat"].get("k") in ("tuple_struct", "struct"):
                            if a["body"].get("k") != "break":
                                some_arm = a
                    break
            if some_arm is None:
                continue
            exits = _exits(some_arm["body"])
            cond = None
            first_hit = False
            if exits:
                first_hit = all(c for _e, c in exits) and len(exits) >= 1
                cond = [c for _e, cs in exits for c in cs]
            out.append({"kind": "for", "adapters": adapters, "terminal": "for", "base": base,
                        "base_fields": _fields(base, f) if base is not None else set(), "first_hit": first_hit,
                        "last_hit": (not exits) and _records_every_hit(some_arm["body"]),
                        "conds": cond or [], "exits": exits, "elem_ids": [i for i, _n in pat_bindings(some_arm["pat"])],
                        "elem_names": [n for _i, n in pat_bindings(some_arm["pat"])],
                        "node": x, "ln": scrut.get("ln"), "pat": some_arm["pat"]})
        elif x.get("k") == "mcall" and x["name"] in TERMINALS and x["args"]:
            clo = hu.strip_casts(x["args"][0])
            if clo is None or clo.get("k") != "closure":
                continue
            adapters, base = _chain(f, x["recv"])
            if not any(a in ITER_SOURCES for a in adapters):
                continue
            ids = []
            for p in clo.get("params", []):
                ids += pat_bindings(p)
            out.append({"kind": "method", "adapters": adapters, "terminal": x["name"], "base": base,
                        "base_fields": _fields(base, f) if base is not None else set(), "first_hit": True, "last_hit": False,
                        "conds": [clo["body"]], "exits": [], "elem_ids": [i for i, _n in ids],
                        "elem_names": [n for _i, n in ids], "node": x, "ln": x.get("ln"), "pat": None})
    return out


def direction(s):
    """('reverse'|'forward', index_is_front_based: bool | None)"""
    ad = s["adapters"]
    rev = ad.count("rev") % 2 == 1
    if s["terminal"] in ("rposition", "rfind"):
        rev = not rev
    index_ok = None
    if s["terminal"] in ("for", "find", "rfind", "find_map"):
        if "enumerate" in ad:
            # enumerate before any rev: indices count from the front
            index_ok = "rev" not in ad[:ad.index("enumerate")]
    elif s["terminal"] in ("position", "rposition"):
        # position counts from the start of the (possibly reversed) iterator; rposition reports front-based indices
        index_ok = "rev" not in ad
    return ("reverse" if rev else "forward"), index_ok


def conj_eqs(e, neg=False):
    """the equalities of a conjunction: list of (lhs, rhs) or None when the condition is not a pure conjunction of =="""
    if isinstance(e, tuple):
        return None
    e = hu.strip_casts(e)
    if e is None:
        return None
    if e.get("k") == "bin" and e["op"] == "And":
        a = conj_eqs(e["l"])
        b = conj_eqs(e["r"])
        if a is None or b is None:
            return None
        return a + b
    if e.get("k") == "bin" and e["op"] == "Eq":
        return [(hu.strip_all(e["l"]), hu.strip_all(e["r"]))]
    return None


def _local_refs(e, f, depth=0):
    """hir ids of the locals an expression mentions, single-assignment locals looked through"""
    out = set()
    for x in hir_walk(e):
        if x.get("k") == "path" and x["path"]["res"].get("k") == "local":
            lid = x["path"]["res"]["id"]
            out.add(lid)
            if depth < 3:
                inits = hu.let_inits(f).get(lid, [])
                if len(inits) == 1:
                    out |= _local_refs(inits[0], f, depth + 1)
    return out


def searches_reachable(F, f, not_into=(), depth=2, _bind=None, _stack=()):
    """The searches of `f` and of the crate functions it calls (private helpers a search was moved into), as
    (owner function, search, fields): `fields` are the fields the searched collection is reached through, where a
    parameter of a helper stands for the argument expression of the call (`Self::innermost(&self.locals[id], name)` searches
    `.locals`). Calls into `not_into` (searches decided by a sibling rule) and recursive calls are not followed."""
    bind = _bind or {}

    def fields_of(e):
        out = _fields(e, f)
        for lid in _local_refs(e, f):
            out |= bind.get(lid, set())
        return out

    out = []
    for s in searches(f):
        out.append((f, s, fields_of(s["base"]) if s["base"] is not None else set()))
    if depth <= 0:
        return out
    for x in hir_walk(f.hir["body"]):
        if x.get("k") not in ("call", "mcall"):
            continue
        for n in hir_callee(x):
            g = F.fn(n, required=False)
            if g is None or g.hir is None or g.is_closure or g is f or g.short in not_into or g.short in _stack:
                continue
            args = ([x["recv"]] if x.get("k") == "mcall" else []) + list(x["args"])
            params = g.hir.get("params", [])
            nb = {}
            for a, p in zip(args, params):
                fl = fields_of(a)
                for pid, _nm in pat_bindings(p):
                    nb[pid] = fl
            out += searches_reachable(F, g, not_into, depth - 1, nb, _stack + (f.short,))
            break
    return out


def rule_innermost(F, rid, fn_path, field, keybase, not_into=()):
    """The search over <field> in <fn_path> must yield the LAST declared element satisfying the condition and report its
    front-based index. The search may sit in <fn_path> itself or in a helper it calls (searches_reachable). Accepted idioms
    (enumerated from the repository and the std API):
      for (i, x) in xs.iter[_mut]().enumerate().rev() { if cond { return .. i .. } }
      xs.iter().rposition(|x| cond)            xs.iter().enumerate().rev().find(..)
      for (i, x) in xs.iter().enumerate() { if cond { found = Some(i) } }     (no early exit: the last hit stays)
    Violations: a forward first-hit scan (outermost binding wins), a reverse scan that keeps the last hit, rev() before
    enumerate() or rev().position(..) (index counts from the back). Any other shape is reported undecided (the rule's floor
    then fails closed)."""
    from cao.rules import ok, bad, undecided
    from cao.facts import AnchorMissing
    f = F.fn(fn_path)
    ss = [(g, s) for g, s, fields in searches_reachable(F, f, not_into) if field in fields]
    if not ss:
        raise AnchorMissing("search over `%s` in %s" % (field, fn_path))
    res = []
    for n, (g, s) in enumerate(ss):
        key = "%s/innermost-binding-wins%s" % (keybase, "" if n == 0 else "#%d" % n)
        d, index_ok = direction(s)
        keeps_last = bool(s.get("last_hit")) and not s["first_hit"]
        if keeps_last:
            d = "forward" if d == "reverse" else "reverse"
        shape = "%s over .%s%s" % ("/".join(s["adapters"] + ([s["terminal"]] if s["terminal"] != "for" else ["for"])), field,
                                  "" if g is f else " in %s" % g.name)
        if keeps_last:
            shape += ", every hit recorded, no early exit"
        if not s["first_hit"] and not keeps_last:
            res.append(undecided(rid, key, g.loc(s["ln"]), "search without an early exit (%s): cannot tell which match is used" % shape))
        elif d == "forward":
            res.append(bad(rid, key, g.loc(s["ln"]),
                           "%s scans `%s` %s (%s): when a name is bound twice in one function "
                           "(a loop variable shadowing a parameter, an outer loop variable or an earlier local) the OUTER binding is "
                           "used, reads and writes in the inner scope go to the wrong slot"
                           % (short(fn_path), field, "back to front and keeps the last hit" if keeps_last else "front to back and stops at the first hit", shape),
                           adapters=s["adapters"], terminal=s["terminal"]))
        elif index_ok is False:
            res.append(bad(rid, key, g.loc(s["ln"]),
                           "%s: the index reported by the reversed search counts from the back (%s), it is used as a front-based slot"
                           % (short(fn_path), shape), adapters=s["adapters"], terminal=s["terminal"]))
        else:
            res.append(ok(rid, key, g.loc(s["ln"]), "%s, front-based index (%s)" % ("forward scan that keeps the last hit" if keeps_last else "reverse first-hit scan", shape),
                          adapters=s["adapters"], terminal=s["terminal"]))
    return res
