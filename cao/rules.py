"""Rule results and small helpers shared by rule modules."""


class R(dict):
    """One decided (or undecided) rule instance."""

    def __init__(self, rule, key, status, loc="", msg="", **data):
        assert status in ("ok", "violation", "undecided", "note")
        super().__init__(rule=rule, key=key, status=status, loc=loc, msg=msg, data=data)


def ok(rule, key, loc="", msg="", **d):
    return R(rule, key, "ok", loc, msg, **d)


def bad(rule, key, loc="", msg="", **d):
    return R(rule, key, "violation", loc, msg, **d)


def undecided(rule, key, loc="", msg="", **d):
    return R(rule, key, "undecided", loc, msg, **d)


def note(rule, key, loc="", msg="", **d):
    return R(rule, key, "note", loc, msg, **d)


class Rule:
    def __init__(self, rid, fn, floor, doc, configs=("default", "noserde", "release")):
        self.id = rid          # e.g. "C10.W"
        self.fn = fn           # fn(facts) -> list[R]
        self.floor = floor     # minimum number of decided (ok|violation) instances, counted by hand
        self.doc = doc
        self.configs = configs


def shared(fn, from_rid, to_rid):
    """Use another property's rule as a rule of this property: results are re-labelled (rule id and key prefix), so each
    property's evidence and known-findings keys stay self-contained."""
    fp, tp = from_rid.split(".")[0], to_rid.split(".")[0]

    def run(F):
        out = []
        for r in fn(F):
            r = R(to_rid, tp + "/" + to_rid.split(".")[1] + r["key"][len(fp) + 2:] if r["key"].startswith(fp + "/") else r["key"],
                  r["status"], r["loc"], r["msg"], **r["data"])
            out.append(r)
        return out
    return run
