"""Loading and indexing the caofacts JSON dump; CFG / call-graph / HIR utilities shared by all rules."""
import json
import re
from collections import defaultdict, deque


class AnchorMissing(Exception):
    """An anchor function/type a rule depends on is not in the fact file: the check fails closed."""


def short(path):
    """Strip turbofish generic segments:  vm::Vm::<'_, Aux>::_run -> vm::Vm::_run"""
    out = []
    i = 0
    n = len(path)
    while i < n:
        if path.startswith("::<", i):
            depth = 0
            j = i + 2
            while j < n:
                c = path[j]
                if c == "<":
                    depth += 1
                elif c == ">" and path[j - 1] != "-":
                    depth -= 1
                    if depth == 0:
                        break
                j += 1
            i = j + 1
            continue
        out.append(path[i])
        i += 1
    return "".join(out)


class Fn:
    def __init__(self, raw):
        self.raw = raw
        self.path = raw["path"]
        self.short = short(self.path)
        self.kind = raw["def_kind"]
        self.file = raw["file"]
        self.line = raw["line"]
        self.end_line = raw["end_line"]
        self.mir = raw.get("mir")
        self.hir = raw.get("hir")
        self.is_closure = self.kind == "Closure"
        self.root = short(raw["root"]) if self.is_closure else None
        self.parent = short(raw["parent"]) if self.is_closure else None
        self.captures = raw.get("captures", [])
        self._cfg = None

    @property
    def name(self):
        return self.short.rsplit("::", 1)[-1]

    def loc(self, ln=None):
        return "%s:%s" % (self.file, ln if ln else self.line)

    @property
    def blocks(self):
        return self.mir["blocks"]

    @property
    def cfg(self):
        if self._cfg is None:
            self._cfg = Cfg(self)
        return self._cfg

    def local_name(self, l):
        return self.mir["locals"][l].get("name")

    def local_ty(self, l):
        return self.mir["locals"][l]["ty"]

    def __repr__(self):
        return "<Fn %s>" % self.short


def term_succs(term, with_unwind=False):
    k = term["k"]
    out = []
    if k == "goto":
        out = [term["target"]]
    elif k == "switch":
        out = [t for _, t in term["targets"]] + [term["otherwise"]]
    elif k in ("drop", "assert"):
        out = [term["target"]]
    elif k == "call":
        if term["target"] is not None:
            out = [term["target"]]
    if with_unwind and term.get("unwind") is not None:
        out.append(term["unwind"])
    return out


class Cfg:
    """Control-flow graph of one MIR body, ignoring unwind edges (panics are not paths of interest)."""

    def __init__(self, fn):
        self.fn = fn
        bl = fn.blocks
        self.n = len(bl)
        self.succ = [term_succs(b["term"]) for b in bl]
        self.pred = [[] for _ in range(self.n)]
        for a, ss in enumerate(self.succ):
            for s_ in ss:
                self.pred[s_].append(a)
        self.reach = self._reach_from(0)
        self._dom = None
        self._pdom = None

    def _reach_from(self, start, avoid=()):
        seen = set()
        if start in avoid:
            return seen
        dq = deque([start])
        seen.add(start)
        while dq:
            a = dq.popleft()
            for s_ in self.succ[a]:
                if s_ not in seen and s_ not in avoid:
                    seen.add(s_)
                    dq.append(s_)
        return seen

    def reachable_from(self, start, avoid=()):
        return self._reach_from(start, set(avoid))

    def can_reach(self, targets, avoid=()):
        """set of blocks from which some block in `targets` is reachable without entering `avoid`
        (targets themselves included)."""
        avoid = set(avoid)
        seen = set(t for t in targets if t not in avoid)
        dq = deque(seen)
        while dq:
            a = dq.popleft()
            for p in self.pred[a]:
                if p not in seen and p not in avoid:
                    seen.add(p)
                    dq.append(p)
        return seen

    @property
    def dom(self):
        """immediate-dominator-free representation: dom[b] = set of dominators of b (incl. b)."""
        if self._dom is None:
            order = self._rpo()
            allb = set(order)
            dom = {b: set(allb) for b in order}
            dom[0] = {0}
            changed = True
            while changed:
                changed = False
                for b in order:
                    if b == 0:
                        continue
                    ps = [p for p in self.pred[b] if p in dom]
                    new = set.intersection(*[dom[p] for p in ps]) if ps else set()
                    new = new | {b}
                    if new != dom[b]:
                        dom[b] = new
                        changed = True
            self._dom = dom
        return self._dom

    def _rpo(self):
        seen = set()
        order = []

        def dfs(b):
            stack = [(b, iter(self.succ[b]))]
            seen.add(b)
            while stack:
                node, it = stack[-1]
                adv = False
                for s_ in it:
                    if s_ not in seen:
                        seen.add(s_)
                        stack.append((s_, iter(self.succ[s_])))
                        adv = True
                        break
                if not adv:
                    order.append(node)
                    stack.pop()

        dfs(0)
        order.reverse()
        return order

    def dominates(self, a, b):
        return b in self.dom and a in self.dom[b]

    def return_blocks(self):
        return [i for i in self.reach if self.fn.blocks[i]["term"]["k"] == "return"]

    def back_edges(self):
        out = []
        for a in self.reach:
            for s_ in self.succ[a]:
                if self.dominates(s_, a):
                    out.append((a, s_))
        return out

    def every_path_passes(self, src, dst_set, through, avoid=()):
        """True iff every path from block `src` to any block in dst_set (not entering `avoid`) visits a
        block in `through` (src itself counts if in `through`)."""
        through = set(through)
        if src in through:
            return True
        r = self._reach_from(src, set(avoid) | through)
        return not (r & set(dst_set))


class Facts:
    def __init__(self, path):
        with open(path) as fh:
            self.raw = json.load(fh)
        self.path = path
        self.fns = [Fn(r) for r in self.raw["fns"]]
        self.by_short = defaultdict(list)
        for f in self.fns:
            self.by_short[f.short].append(f)
        self.adts = {short(a["path"]): a for a in self.raw["adts"]}
        self.sizes = {e["ty"]: e["size"] for e in self.raw["sizes"]}
        self.statics = self.raw["statics"]
        self.closures_of = defaultdict(list)
        for f in self.fns:
            if f.is_closure:
                self.closures_of[f.root].append(f)
        self._callgraph = None

    # ---- lookup -------------------------------------------------------------------------------
    def fn(self, short_path, required=True):
        c = [f for f in self.by_short.get(short_path, []) if f.mir is not None or f.hir is not None]
        if not c:
            if required:
                raise AnchorMissing("function %s" % short_path)
            return None
        return c[0]

    def fns_matching(self, pred):
        return [f for f in self.fns if pred(f)]

    def trait_impl_fns(self, trait_path, method, self_ty_pred=lambda t: True):
        out = []
        for f in self.fns:
            r = f.raw
            if r.get("impl_trait") and short(r["impl_trait"]) == trait_path and f.name == method and self_ty_pred(r.get("impl_self", "")):
                out.append(f)
        return out

    def adt(self, short_path, required=True):
        a = self.adts.get(short_path)
        if a is None and required:
            raise AnchorMissing("type %s" % short_path)
        return a

    def size_of(self, ty):
        prim = {"u8": 1, "i8": 1, "bool": 1, "u16": 2, "i16": 2, "u32": 4, "i32": 4, "f32": 4, "char": 4,
                "u64": 8, "i64": 8, "f64": 8, "usize": 8, "isize": 8, "u128": 16, "i128": 16}
        if ty in prim:
            return prim[ty]
        return self.sizes.get(ty)

    def enum_variants(self, short_path):
        a = self.adt(short_path)
        return [v["name"] for v in a["variants"]]

    # ---- call graph ---------------------------------------------------------------------------
    @property
    def callgraph(self):
        if self._callgraph is None:
            self._callgraph = CallGraph(self)
        return self._callgraph


def callee_names(func):
    """All names a call terminator's callee is known under (declared + resolved), shortened."""
    out = []
    if "path" in func:
        out.append(short(func["path"]))
    if "resolved" in func:
        r = short(func["resolved"])
        if r not in out:
            out.append(r)
    return out


def callee_is(func, *names):
    cn = callee_names(func)
    return any(n in cn for n in names)


def callee_endswith(func, *suffixes):
    cn = callee_names(func)
    return any(c == s_ or c.endswith("::" + s_) or c.endswith(s_) for c in cn for s_ in suffixes)


class CallGraph:
    """Edges: caller short path -> set of callee short paths. Closure bodies are attributed an edge from
    the function that constructs them (may-execute). Indirect calls through `dyn VmFunction` are edges to
    every `VmFunction::call` impl; calls of fn-pointer typed locals are recorded as 'indirect'."""

    def __init__(self, facts):
        self.facts = facts
        self.edges = defaultdict(set)
        self.sites = defaultdict(list)  # caller -> [(block, callee names, term)]
        for f in facts.fns:
            if not f.mir:
                continue
            for bi, b in enumerate(f.blocks):
                for st in b["stmts"]:
                    if st["k"] == "assign" and st["rv"]["k"] == "agg" and st["rv"]["agg"]["k"] == "closure":
                        self.edges[f.short].add(short(st["rv"]["agg"]["path"]))
                t = b["term"]
                if t["k"] == "call":
                    func = t["func"]
                    names = callee_names(func)
                    self.sites[f.short].append((bi, names, t))
                    for n in names:
                        self.edges[f.short].add(n)
                    if "indirect" in func:
                        self.edges[f.short].add("<indirect>")
                    # generic closure parameters: F: FnOnce — calls appear as FnOnce::call_once on a param
                    # type; connect to closures constructed by callers is done per-rule when needed.
                elif t["k"] == "drop":
                    self.edges[f.short].add("<drop:%s>" % t["ty"])

    def reach(self, start, stop=lambda n: False):
        seen = set()
        dq = deque([start])
        seen.add(start)
        while dq:
            a = dq.popleft()
            if stop(a):
                continue
            for s_ in self.edges.get(a, ()):
                if s_ not in seen:
                    seen.add(s_)
                    dq.append(s_)
        return seen

    def callers_closure(self, targets):
        """All functions from which some target is reachable."""
        rev = defaultdict(set)
        for a, ss in self.edges.items():
            for s_ in ss:
                rev[s_].add(a)
        seen = set(targets)
        dq = deque(targets)
        while dq:
            a = dq.popleft()
            for p in rev.get(a, ()):
                if p not in seen:
                    seen.add(p)
                    dq.append(p)
        return seen


# ---- MIR helpers -----------------------------------------------------------------------------------

def place_fields(place):
    return [e["name"] for e in place["p"] if e["k"] == "field"]


def place_str(fn, place):
    s_ = fn.local_name(place["l"]) or "_%d" % place["l"]
    for e in place["p"]:
        k = e["k"]
        if k == "deref":
            s_ = "(*%s)" % s_
        elif k == "field":
            s_ += "." + e["name"]
        elif k == "index":
            s_ += "[_%d]" % e["local"]
        elif k == "downcast":
            s_ = "(%s as %s)" % (s_, e["variant"])
        else:
            s_ += "<%s>" % k
    return s_


def op_place(op):
    if op and op.get("k") in ("copy", "move"):
        return op["place"]
    return None


def op_local(op):
    p = op_place(op)
    if p is not None and not p["p"]:
        return p["l"]
    return None


def op_const(op):
    if op and op.get("k") == "const":
        return op.get("val")
    return None


def iter_stmts(fn, kinds=("assign",)):
    for bi, b in enumerate(fn.blocks):
        for si, st in enumerate(b["stmts"]):
            if st["k"] in kinds:
                yield bi, si, st


def iter_calls(fn):
    for bi, b in enumerate(fn.blocks):
        t = b["term"]
        if t["k"] == "call":
            yield bi, t


def rvalue_operands(rv):
    k = rv["k"]
    if k in ("use", "cast", "repeat", "wrap_binder"):
        return [rv["op"]]
    if k == "bin":
        return [rv["l"], rv["r"]]
    if k == "un":
        return [rv["x"]]
    if k == "agg":
        return list(rv["ops"])
    return []


def rvalue_places(rv):
    """places read by an rvalue (operands + borrowed/discriminant places)"""
    out = [op_place(o) for o in rvalue_operands(rv)]
    if rv["k"] in ("ref", "rawptr", "discr"):
        out.append(rv["place"])
    return [p for p in out if p is not None]


class DefUse:
    """Flow-insensitive def-use index of one MIR body: for each local, the statements/terminators that
    assign it (whole local) — MIR temporaries are single-assignment in practice, user variables may not be."""

    def __init__(self, fn):
        self.fn = fn
        self.defs = defaultdict(list)  # local -> [(bi, si or 'term', kind, payload)]
        for bi, b in enumerate(fn.blocks):
            for si, st in enumerate(b["stmts"]):
                if st["k"] == "assign":
                    self.defs[st["place"]["l"]].append((bi, si, "assign", st))
            t = b["term"]
            if t["k"] == "call":
                self.defs[t["dest"]["l"]].append((bi, "term", "call", t))

    def sole_def(self, local):
        d = [x for x in self.defs.get(local, []) if not x[3].get("place", x[3].get("dest"))["p"]]
        if len(d) == 1:
            return d[0]
        return None

    def trace_back(self, local, through_casts=True, limit=50):
        """Follow copies/moves/casts/refs/derefs back to an origin. Returns (kind, payload):
        ('call', term) | ('place', place) | ('const', val) | ('rv', rvalue) | ('arg', local) | ('multi', local)"""
        seen = set()
        while limit > 0:
            limit -= 1
            if local in seen:
                return ("multi", local)
            seen.add(local)
            if 1 <= local <= self.fn.mir["arg_count"] and not self.defs.get(local):
                return ("arg", local)
            d = self.sole_def(local)
            if d is None:
                return ("multi", local) if self.defs.get(local) else ("arg", local)
            _, _, kind, payload = d
            if kind == "call":
                return ("call", payload)
            rv = payload["rv"]
            k = rv["k"]
            if k == "use" or (k == "cast" and through_casts):
                op = rv["op"]
                if op["k"] == "const":
                    return ("const", op)
                pl = op["place"]
                if not pl["p"]:
                    local = pl["l"]
                    continue
                return ("place", pl)
            if k in ("ref", "rawptr"):
                pl = rv["place"]
                if not pl["p"]:
                    local = pl["l"]
                    continue
                if len(pl["p"]) == 1 and pl["p"][0]["k"] == "deref":
                    local = pl["l"]
                    continue
                return ("place", pl)
            return ("rv", rv)
        return ("multi", local)


# ---- HIR helpers -----------------------------------------------------------------------------------

def hir_children(e):
    """Yield direct sub-expressions of a HIR expression node (in source order)."""
    if e is None:
        return
    k = e.get("k")
    if k in ("array", "tup"):
        for x in e["elems"]:
            yield x
    elif k == "call":
        yield e["f"]
        for x in e["args"]:
            yield x
    elif k == "mcall":
        yield e["recv"]
        for x in e["args"]:
            yield x
    elif k in ("use", "un", "cast", "type", "drop_temps", "field", "addr_of", "repeat", "become", "yield", "binder_cast"):
        yield e["e"]
    elif k in ("bin", "assign", "assign_op"):
        yield e["l"]
        yield e["r"]
    elif k == "let":
        yield e["init"]
    elif k == "if":
        yield e["cond"]
        yield e["then"]
        if e.get("else"):
            yield e["else"]
    elif k == "loop":
        for x in block_exprs(e["body"]):
            yield x
    elif k == "match":
        yield e["scrut"]
        for a in e["arms"]:
            if a.get("guard"):
                yield a["guard"]
            yield a["body"]
    elif k == "closure":
        yield e["body"]
    elif k == "block":
        for x in block_exprs(e["block"]):
            yield x
    elif k == "index":
        yield e["e"]
        yield e["idx"]
    elif k in ("break", "ret"):
        if e.get("e"):
            yield e["e"]
    elif k == "struct":
        for f in e["fields"]:
            yield f["e"]
        if isinstance(e.get("base"), dict):
            yield e["base"]


def block_exprs(bl):
    for st in bl["stmts"]:
        if st["k"] == "let":
            if st.get("init"):
                yield st["init"]
            if st.get("els"):
                for x in block_exprs(st["els"]):
                    yield x
        elif st["k"] in ("expr", "semi"):
            yield st["e"]
    if bl.get("expr"):
        yield bl["expr"]


def hir_walk(e):
    """Pre-order walk over all expression nodes."""
    stack = [e]
    while stack:
        x = stack.pop()
        if x is None:
            continue
        yield x
        ch = list(hir_children(x))
        ch.reverse()
        stack.extend(ch)


def hir_callee(e):
    """short names of the function a call/method-call expression invokes ([] if unknown)."""
    if e.get("k") == "mcall" and "callee" in e:
        return callee_names(e["callee"])
    if e.get("k") == "call":
        f = e["f"]
        if f.get("k") == "path":
            p = f["path"]
            if "callee" in p:
                return callee_names(p["callee"])
            r = p["res"]
            if r["k"] == "def":
                return [short(r["path"])]
    if e.get("k") in ("bin", "un", "assign_op") and "callee" in e:
        return callee_names(e["callee"])
    return []


def hir_strip(e):
    """Peel wrappers that do not change the value: drop_temps, use, type ascription, parens-blocks with
    only a tail expression, reference/dereference adjustments."""
    while e is not None:
        k = e.get("k")
        if k in ("drop_temps", "use", "type"):
            e = e["e"]
        elif k == "block" and not e["block"]["stmts"] and e["block"].get("expr"):
            e = e["block"]["expr"]
        else:
            break
    return e


def hir_path_res(e):
    e = hir_strip(e)
    if e is not None and e.get("k") == "path":
        return e["path"]["res"]
    return None


def hir_local_id(e):
    r = hir_path_res(e)
    if r and r["k"] == "local":
        return r["id"]
    return None


def hir_def_path(e):
    r = hir_path_res(e)
    if r and r["k"] == "def":
        return short(r["path"])
    return None


def pat_bindings(p, out=None):
    """All bindings in a pattern: list of (id, name)."""
    if out is None:
        out = []
    if p is None:
        return out
    k = p.get("k")
    if k == "bind":
        out.append((p["id"], p["name"]))
        if "sub" in p:
            pat_bindings(p["sub"], out)
    elif k == "struct":
        for f in p["fields"]:
            pat_bindings(f["pat"], out)
    elif k in ("tuple_struct", "or", "tuple"):
        for x in p["pats"]:
            pat_bindings(x, out)
    elif k in ("box", "deref", "ref", "guard"):
        pat_bindings(p["pat"], out)
    elif k == "slice":
        for x in p["before"] + ([p["mid"]] if p.get("mid") else []) + p["after"]:
            pat_bindings(x, out)
    return out


def pat_variants(p):
    """For a (possibly or-) pattern over an enum: list of (variant short path, sub-pattern list / field pats)."""
    k = p.get("k")
    if k == "or":
        out = []
        for x in p["pats"]:
            out.extend(pat_variants(x))
        return out
    if k in ("ref", "box", "deref"):
        return pat_variants(p["pat"])
    if k == "tuple_struct":
        r = p["path"]["res"]
        name = short(r.get("ctor_of") or r.get("path", ""))
        return [(name, p["pats"], p)]
    if k == "struct":
        r = p["path"]["res"]
        return [(short(r.get("path", "")), [f["pat"] for f in p["fields"]], p)]
    if k == "expr" and "path" in p:
        r = p["path"]["res"]
        name = short(r.get("ctor_of") or r.get("path", ""))
        return [(name, [], p)]
    if k == "path":
        return []
    if k == "bind" and "sub" in p:
        return pat_variants(p["sub"])
    if k == "wild" or k == "bind":
        return [("_", [], p)]
    return []
