"""HIR helpers: field chains, a tiny integer evaluator, let-binding index, control ancestors."""
from cao.facts import hir_strip, hir_callee, hir_walk, hir_children, hir_local_id, block_exprs, short


def strip_all(e):
    """strip value-preserving wrappers including casts, references and dereferences"""
    while e is not None:
        e = hir_strip(e)
        k = e.get("k")
        if k == "cast" or k == "addr_of":
            e = e["e"]
        elif k == "un" and e["op"] == "Deref":
            e = e["e"]
        else:
            return e
    return e


def field_chain(e):
    """`self.program.bytecode` -> (local id of root | None, ['program','bytecode']); derefs/borrows are transparent.
    Index expressions and method calls end the chain (None)."""
    names = []
    while e is not None:
        e = hir_strip(e)
        k = e.get("k")
        if k == "field":
            names.append(e["name"])
            e = e["e"]
        elif k == "addr_of":
            e = e["e"]
        elif k == "un" and e["op"] == "Deref":
            e = e["e"]
        elif k == "path":
            r = e["path"]["res"]
            names.reverse()
            if r["k"] == "local":
                return (r["id"], names, r["name"])
            return (None, names, short(r.get("path", "")))
        else:
            return None
    return None


def is_int_lit(e):
    e = strip_casts(e)
    return e is not None and e.get("k") == "lit" and e["lit"]["k"] == "int"


def int_lit(e):
    e = strip_casts(e)
    return e["lit"]["v"]


def strip_casts(e):
    while e is not None:
        e = hir_strip(e)
        if e.get("k") == "cast":
            e = e["e"]
        else:
            return e
    return e


def is_len_of(e, chain):
    e = strip_casts(e)
    if e is None or e.get("k") != "mcall":
        return False
    if not any(n.endswith("Vec::len") or n.endswith("::len") for n in hir_callee(e)):
        return False
    fc = field_chain(e["recv"])
    return fc is not None and fc[1][-len(chain):] == chain


def is_bytecode_len(e):
    return is_len_of(e, ["program", "bytecode"])


def local_name(e):
    e = strip_casts(e)
    if e is not None and e.get("k") == "path" and e["path"]["res"]["k"] == "local":
        return e["path"]["res"]["name"]
    return None


def derives_from_len(val, len_locals):
    if is_bytecode_len(val):
        return True
    lid = hir_local_id(strip_casts(val))
    return lid is not None and len_locals.get(lid) is not None


def eval_int(F, e, env, hook=None):
    """Evaluate the small integer expression language of the sibling tables. None if not evaluable."""
    e = strip_casts(e)
    if e is None:
        return None
    if hook is not None:
        r = hook(e)
        if r is not None:
            return r
    k = e.get("k")
    if k == "lit":
        if e["lit"]["k"] == "int":
            return e["lit"]["v"]
        return None
    if k == "path":
        r = e["path"]["res"]
        if r["k"] == "local":
            return env.get(r["id"])
        return None
    if k == "bin":
        l = eval_int(F, e["l"], env, hook)
        r = eval_int(F, e["r"], env, hook)
        if l is None or r is None:
            return None
        op = e["op"]
        if op == "Add":
            return l + r
        if op == "Sub":
            return l - r
        if op == "Mul":
            return l * r
        return None
    if k == "call":
        names = hir_callee(e)
        if any(n.endswith("mem::size_of") for n in names):
            t = (e["f"]["path"].get("args") or [None])[0]
            return F.size_of(t) if t else None
        return None
    if k == "block":
        # let x = ..; tail
        env = dict(env)
        for st in e["block"]["stmts"]:
            if st["k"] == "let" and st["pat"].get("k") == "bind" and st.get("init") is not None:
                env[st["pat"]["id"]] = eval_int(F, st["init"], env, hook)
            elif st["k"] in ("semi", "expr"):
                return None
        if e["block"].get("expr") is not None:
            return eval_int(F, e["block"]["expr"], env, hook)
        return None
    return None


def let_inits(f):
    """local hir id -> list of initialiser expressions (let and plain assignments), whole function incl. closures."""
    cache = getattr(f, "_let_inits", None)
    if cache is not None:
        return cache
    out = {}
    for x in hir_walk(f.hir["body"]):
        if x.get("k") == "block":
            for st in x["block"]["stmts"]:
                if st["k"] == "let" and st["pat"].get("k") == "bind" and st.get("init") is not None:
                    out.setdefault(st["pat"]["id"], []).append(st["init"])
        elif x.get("k") == "loop":
            for st in x["body"]["stmts"]:
                if st["k"] == "let" and st["pat"].get("k") == "bind" and st.get("init") is not None:
                    out.setdefault(st["pat"]["id"], []).append(st["init"])
        elif x.get("k") == "assign":
            lid = hir_local_id(x["l"])
            if lid is not None:
                out.setdefault(lid, []).append(x["r"])
    f._let_inits = out
    return out


def patch_index_local(f, ptr_expr, depth=0):
    """ptr expression of a raw write -> the hir id of the index local in `<..>.program.bytecode.as_mut_ptr().add(idx)`"""
    e = strip_casts(ptr_expr)
    if e is None or depth > 4:
        return None
    if e.get("k") == "mcall" and e["name"] in ("add", "offset", "wrapping_add"):
        base = strip_casts(e["recv"])
        if base.get("k") == "mcall" and base["name"] in ("as_mut_ptr",):
            fc = field_chain(base["recv"])
            if fc and fc[1][-2:] == ["program", "bytecode"]:
                return hir_local_id(strip_casts(e["args"][0]))
        return None
    lid = hir_local_id(e)
    if lid is not None:
        inits = let_inits(f).get(lid, [])
        if len(inits) == 1:
            return patch_index_local(f, inits[0], depth + 1)
    return None


def control_ancestors(root):
    """id(node) -> tuple of ids of enclosing control constructs (if-branches, match arms, loops, closures)."""
    out = {}

    def rec(e, anc):
        if e is None:
            return
        out[id(e)] = anc
        k = e.get("k")
        if k == "if":
            rec(e["cond"], anc)
            rec(e["then"], anc + (("then", id(e)),))
            if e.get("else") is not None:
                rec(e["else"], anc + (("else", id(e)),))
        elif k == "match":
            rec(e["scrut"], anc)
            for n, a in enumerate(e["arms"]):
                if a.get("guard"):
                    rec(a["guard"], anc + (("arm%d" % n, id(e)),))
                rec(a["body"], anc + (("arm%d" % n, id(e)),))
        elif k == "loop":
            for x in block_exprs(e["body"]):
                rec(x, anc + (("loop", id(e)),))
        elif k == "closure":
            rec(e["body"], anc + (("closure", id(e)),))
        else:
            for c in hir_children(e):
                rec(c, anc)

    rec(root, ())
    return out


def is_error_ret(e):
    """`return <x>` where x is from_residual(..) (the `?` desugaring) or Err(..)"""
    v = e.get("e")
    if v is None:
        return False
    v = hir_strip(v)
    if v.get("k") == "call":
        names = hir_callee(v)
        if any(n.endswith("FromResidual::from_residual") or n.endswith("::from_residual") for n in names):
            return True
        f = hir_strip(v["f"])
        if f.get("k") == "path":
            r = f["path"]["res"]
            if r["k"] == "def" and (short(r.get("path", "")).endswith("::Err") or short(r.get("ctor_of", "")).endswith("Result::Err")):
                return True
    return False


def _if_signatures(f):
    """id(if node) -> (local id, negated) when the condition is a plain (possibly negated) local that is assigned once:
    two `if`s on the same such local take the same branch, their branches are the same control context."""
    out = {}
    inits = let_inits(f)
    for x in hir_walk(f.hir["body"]):
        if x.get("k") == "if":
            c = strip_casts(x["cond"])
            neg = False
            while c is not None and c.get("k") == "un" and c["op"] == "Not":
                neg = not neg
                c = strip_casts(c["e"])
            lid = hir_local_id(c) if c is not None else None
            if lid is not None and len(inits.get(lid, [])) == 1:
                out[id(x)] = (lid, neg)
    return out


def canonical_ancestors(f, anc):
    """replace ('then'|'else', id(if)) by ('cond', local, truth) for conditions on single-assignment locals"""
    sig = getattr(f, "_if_sigs", None)
    if sig is None:
        sig = _if_signatures(f)
        f._if_sigs = sig
    out = []
    for k, nid in anc:
        if k in ("then", "else") and nid in sig:
            lid, neg = sig[nid]
            out.append(("cond", (lid, (k == "then") != neg)))
        else:
            out.append((k, nid))
    return tuple(out)


def placeholder_on_every_path_to_patch(f, placeholder_call, patch_call):
    """The converse of patch_unconditional_after: every control construct that encloses the placeholder write but not the
    patch must be a closure (the callbacks handed to encode_if_then are invoked unconditionally, checked separately).
    A placeholder written under an `if`/match arm/loop that the patch is not under means the patch also runs when the
    placeholder was NOT written - with a stale or initial index."""
    anc = control_ancestors(f.hir["body"])
    pa = anc.get(id(patch_call))
    oa = anc.get(id(placeholder_call))
    if pa is None or oa is None:
        return None
    pa = canonical_ancestors(f, pa)
    oa = canonical_ancestors(f, oa)
    # conditions on single-assignment locals hold wherever they were established: order does not matter
    pconds = set(e for e in pa if e[0] == "cond")
    oa = tuple(e for e in oa if not (e[0] == "cond" and e in pconds))
    pa = tuple(e for e in pa if e[0] != "cond")
    common = 0
    while common < len(pa) and common < len(oa) and pa[common] == oa[common]:
        common += 1
    extra = [k for k, _i in oa[common:] if k != "closure"]
    return extra


def patch_unconditional_after(f, placeholder_call, patch_call):
    anc = control_ancestors(f.hir["body"])
    pa = anc.get(id(patch_call))
    oa = anc.get(id(placeholder_call))
    if pa is None or oa is None:
        return False
    # every control construct enclosing the patch must enclose the placeholder too
    cpa = canonical_ancestors(f, pa)
    coa = canonical_ancestors(f, oa)
    oconds = set(e for e in coa if e[0] == "cond")
    cpa2 = tuple(e for e in cpa if not (e[0] == "cond" and e in oconds))
    coa2 = tuple(e for e in coa if e[0] != "cond")
    if cpa2 != coa2[:len(cpa2)]:
        return False
    if any(e[0] == "cond" for e in cpa):
        # the early-return scan below works on raw ancestors; with condition contexts we only accept the simple case
        pa = tuple(e for e, c in zip(pa, cpa) if c[0] != "cond")
    # no successful early return between them (in source order) inside the patch's enclosing construct
    lo, hi = placeholder_call["ln"], patch_call["ln"]
    for x in hir_walk(f.hir["body"]):
        if x.get("k") == "ret" and lo < x["ln"] < hi and not is_error_ret(x):
            xa = anc.get(id(x), ())
            if xa[:len(pa)] == pa:
                return False
    return True
