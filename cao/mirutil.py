"""MIR helpers: error exits, call iteration, origin tracing."""
from cao.facts import callee_names, op_local, op_place, DefUse, short


def calls(fn):
    for bi, b in enumerate(fn.blocks):
        t = b["term"]
        if t["k"] == "call":
            yield bi, t


def is_err_aggregate(rv):
    return (rv["k"] == "agg" and rv["agg"]["k"] == "adt" and rv["agg"]["variant"] == "Err"
            and short(rv["agg"]["path"]).endswith("Result"))


def is_none_aggregate(rv):
    return (rv["k"] == "agg" and rv["agg"]["k"] == "adt" and rv["agg"]["variant"] == "None"
            and short(rv["agg"]["path"]).endswith("Option"))


def error_exit_blocks(fn, none_is_error=False):
    """Blocks through which only failing executions pass: `?` residual conversion into the return place,
    construction of Err(..) into the return place, and diverging panics."""
    cached = getattr(fn, "_err_blocks_%s" % none_is_error, None)
    if cached is not None:
        return cached
    out = set()
    for bi, b in enumerate(fn.blocks):
        for st in b["stmts"]:
            if st["k"] == "assign" and st["place"]["l"] == 0 and not st["place"]["p"]:
                if is_err_aggregate(st["rv"]) or (none_is_error and is_none_aggregate(st["rv"])):
                    out.add(bi)
        t = b["term"]
        if t["k"] == "call":
            names = callee_names(t["func"])
            if any(n.endswith("from_residual") for n in names) and t["dest"]["l"] == 0:
                out.add(bi)
            if t["target"] is None:
                out.add(bi)   # diverging call (panic)
        elif t["k"] == "unreachable":
            out.add(bi)
    setattr(fn, "_err_blocks_%s" % none_is_error, out)
    return out


def derives_from_call(fn, du, local, pred, limit=12):
    """Is `local` (through copies/casts) the result of a call whose callee names satisfy pred?"""
    kind, payload = du.trace_back(local)
    if kind == "call":
        return pred(callee_names(payload["func"]))
    return False


def ref_of_field_chain(fn, du, local, chain):
    kind, payload = du.trace_back(local)
    if kind == "place":
        names = [e["name"] for e in payload["p"] if e["k"] == "field"]
        return names[-len(chain):] == chain
    return False


def operand_variant(fn, du, operand):
    """Name of the enum variant an operand holds, if it is a freshly built field-less aggregate or a const."""
    loc = op_local(operand)
    if loc is None:
        if operand.get("k") == "const":
            return operand.get("text")
        return None
    seen = 0
    while seen < 10:
        seen += 1
        d = du.sole_def(loc)
        if d is None:
            return None
        _bi, _si, kind, payload = d
        if kind != "assign":
            return None
        rv = payload["rv"]
        if rv["k"] == "agg" and rv["agg"]["k"] == "adt":
            return rv["agg"]["variant"]
        if rv["k"] == "use":
            nl = op_local(rv["op"])
            if nl is None:
                return None
            loc = nl
            continue
        return None
    return None


def field_path(place):
    return [e["name"] for e in place["p"] if e["k"] == "field"]


def writes_to_field(fn, field_names_suffix):
    """Statements assigning to a place whose field path ends with the suffix."""
    out = []
    n = len(field_names_suffix)
    for bi, b in enumerate(fn.blocks):
        for si, st in enumerate(b["stmts"]):
            if st["k"] == "assign":
                fp = field_path(st["place"])
                if fp[-n:] == field_names_suffix:
                    out.append((bi, si, st))
    return out


def blocks_only_when(fn, switch_block, value):
    """Blocks that execute only when the SwitchInt of `switch_block` sees `value` (before control re-joins the other
    edges). A `matches!`-style materialisation (`flag = true` on that edge, `flag = false` on the others, then a switch
    on `flag`) is followed one level."""
    cfg = fn.cfg
    t = fn.blocks[switch_block]["term"]
    tmap = dict((v, b) for v, b in t["targets"])
    if value in tmap:
        tgt = tmap[value]
        others = set(b for v, b in t["targets"] if v != value) | {t["otherwise"]}
    else:
        return set()
    others.discard(tgt)
    joined = set()
    for o in others:
        joined |= cfg.reachable_from(o, avoid={switch_block})
    only = cfg.reachable_from(tgt, avoid=others | {switch_block}) - joined
    out = set(only)
    # bool materialisation
    flags = set()
    for b in only:
        for st in fn.blocks[b]["stmts"]:
            if st["k"] == "assign" and not st["place"]["p"] and st["rv"]["k"] == "use" and st["rv"]["op"].get("k") == "const" \
                    and st["rv"]["op"].get("val") == 1 and st["rv"]["op"].get("ty") == "bool":
                flags.add(st["place"]["l"])
    for fl in flags:
        # the flag must be false on every other edge
        set_true_elsewhere = False
        for b, blk in enumerate(fn.blocks):
            if b in only:
                continue
            for st in blk["stmts"]:
                if st["k"] == "assign" and st["place"]["l"] == fl and not st["place"]["p"]:
                    op = st["rv"].get("op", {})
                    if not (st["rv"]["k"] == "use" and op.get("k") == "const" and op.get("val") == 0):
                        set_true_elsewhere = True
        if set_true_elsewhere:
            continue
        for b, blk in enumerate(fn.blocks):
            tt = blk["term"]
            if tt["k"] == "switch":
                l = op_local(tt["discr"])
                src = l
                # `switch move _tmp` where `_tmp = copy flag`
                for st in blk["stmts"]:
                    if st["k"] == "assign" and st["place"]["l"] == l and st["rv"]["k"] == "use":
                        src = op_local(st["rv"]["op"])
                if src == fl or l == fl:
                    zero = dict((v, bb) for v, bb in tt["targets"]).get(0)
                    true_t = tt["otherwise"]
                    if zero is not None:
                        j = cfg.reachable_from(zero, avoid={b, switch_block})
                        out |= cfg.reachable_from(true_t, avoid={zero, b, switch_block}) - j
    return out


def upvalue_closer(F):
    """The function that closes open upvalues down to a stack address: the one function of vm::instr_execution that stores
    into an upvalue's `location` field inside a loop. Looked up by what it does, so a rename does not break the rules."""
    from .facts import AnchorMissing
    out = []
    for f in F.fns:
        if not f.mir or f.is_closure or not f.path.startswith("vm::instr_execution::"):
            continue
        if not f.cfg.back_edges():
            continue
        for b in f.blocks:
            if any(st["k"] == "assign" and field_path(st["place"])[-1:] == ["location"] for st in b["stmts"]):
                out.append(f)
                break
    if len(out) != 1:
        raise AnchorMissing("the upvalue-closing loop in vm::instr_execution (found %d candidates)" % len(out))
    return out[0]
