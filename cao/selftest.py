"""Checker self-test (thorough tier): every stored mutant breaks exactly one rule instance of /repo's *current* tree
while still compiling; the property's rules, run on a scratch copy with the mutant applied, must report the expected
key(s). Every stored 'equivalent' changes text but not behaviour; the rules must report nothing new on it.

Scratch copies live under a fresh `mktemp -d` outside /repo and /verif and are removed as soon as the verdict is read."""
import json
import os
import shutil
import subprocess
import sys
import tempfile
import time

VERIF = os.path.dirname(os.path.dirname(os.path.abspath(__file__)))
MUT_DIR = os.path.join(VERIF, "selftest")


def load_index():
    p = os.path.join(MUT_DIR, "index.json")
    if not os.path.exists(p):
        return []
    with open(p) as fh:
        return json.load(fh)["mutants"]


def make_scratch():
    d = tempfile.mkdtemp(prefix="cao-selftest-")
    subprocess.check_call(["rsync", "-a", "--exclude", "target", "--exclude", ".git", "/repo/", d + "/"])
    return d


def apply_patch(scratch, patch_path):
    r = subprocess.run(["patch", "-p1", "--no-backup-if-mismatch", "-s", "-i", patch_path], cwd=scratch,
                       stdout=subprocess.PIPE, stderr=subprocess.STDOUT, text=True)
    return r.returncode == 0, r.stdout


def run_check_json(prop, repo, worker=None):
    env = dict(os.environ)
    if worker is not None:
        env["CAO_WORKER"] = str(worker)
    r = subprocess.run([sys.executable, os.path.join(VERIF, "check"), prop, "--repo", repo, "--json", "--no-evidence"],
                       stdout=subprocess.PIPE, stderr=subprocess.PIPE, text=True, cwd=VERIF, env=env)
    if r.returncode != 0:
        return None, (r.stdout + r.stderr)[-1500:]
    try:
        return json.loads(r.stdout), ""
    except ValueError:
        return None, r.stdout[-1500:]


def violation_keys(results):
    return set(x["key"] for x in results if x["status"] == "violation")


def run_one(m, baseline_cache, worker=None):
    prop = m["property"]
    t0 = time.time()
    out = {"name": m["name"], "property": prop, "kind": m.get("kind", "mutant"), "expect": m.get("expect", []), "pass": False, "detail": ""}
    if prop not in baseline_cache:
        base, err = run_check_json(prop, "/repo")
        if base is None:
            out["detail"] = "baseline check failed: " + err
            return out
        baseline_cache[prop] = violation_keys(base)
    base_keys = baseline_cache[prop]
    scratch = make_scratch()
    try:
        okp, msg = apply_patch(scratch, os.path.join(MUT_DIR, m["patch"]))
        if not okp:
            out["detail"] = "patch does not apply to the current tree: " + msg[-300:]
            return out
        res, err = run_check_json(prop, scratch, worker)
        if res is None:
            out["detail"] = "check failed on the mutated tree (does it compile?): " + err[-600:]
            return out
        keys = violation_keys(res)
        new = keys - base_keys
        out["reported"] = sorted(new)
        if out["kind"] == "equivalent":
            below = sorted(x["key"] + " " + x["msg"] for x in res if x["status"] == "below-floor")
            out["pass"] = not new and not below
            out["detail"] = "silent" if out["pass"] else ("false alarm on a behaviour-preserving edit: %s" % sorted(new) if new
                                                          else "fails closed on a behaviour-preserving edit: %s" % below)
        else:
            missing = [k for k in m.get("expect", []) if not any(k == x or (k.endswith("*") and x.startswith(k[:-1])) for x in new)]
            out["pass"] = not missing and bool(new)
            out["detail"] = "reported %s" % sorted(new) if out["pass"] else "expected %s, reported %s" % (m.get("expect"), sorted(new))
    finally:
        shutil.rmtree(scratch, ignore_errors=True)
    out["secs"] = round(time.time() - t0, 1)
    return out


WORKERS = max(1, min(8, (os.cpu_count() or 2) // 2))


def run_many(ms, cache):
    """run the mutants with a small pool; each worker owns a cargo target directory (extract.py: CAO_WORKER)"""
    import queue
    import threading
    from concurrent.futures import ThreadPoolExecutor
    # baselines first (sequential, cached facts of /repo)
    for p in sorted(set(m["property"] for m in ms)):
        if p not in cache:
            base, err = run_check_json(p, "/repo")
            cache[p] = violation_keys(base) if base is not None else None
            if base is None:
                cache[p + ":err"] = err
    ids = queue.Queue()
    for i in range(WORKERS):
        ids.put(i)

    def job(m):
        if cache.get(m["property"]) is None:
            return {"name": m["name"], "property": m["property"], "kind": m.get("kind", "mutant"), "expect": m.get("expect", []), "pass": False,
                    "detail": "baseline check failed: " + cache.get(m["property"] + ":err", "")}
        w = ids.get()
        try:
            return run_one(m, cache, worker=w)
        finally:
            ids.put(w)
    with ThreadPoolExecutor(max_workers=WORKERS) as ex:
        return list(ex.map(job, ms))


def run_for_property(prop, only=None):
    ms = [m for m in load_index() if m["property"] == prop and (only is None or m["name"] in only)]
    cache = {}
    results = run_many(ms, cache)
    return {"mutants": sum(1 for r in results if r["kind"] != "equivalent"), "equivalents": sum(1 for r in results if r["kind"] == "equivalent"),
            "passed": sum(1 for r in results if r["pass"]), "results": results}


if __name__ == "__main__":
    props = sys.argv[1:] or sorted(set(m["property"] for m in load_index()))
    bad = 0
    ms = [m for m in load_index() if m["property"] in props]
    t0 = time.time()
    for x in run_many(ms, {}):
        print("%-4s %-44s %-10s %s  %s" % (x["property"], x["name"], x["kind"], "PASS" if x["pass"] else "FAIL", x["detail"][:200]))
        bad += 0 if x["pass"] else 1
    print("%d mutants/equivalents, %d failed, %.0fs, %d workers" % (len(ms), bad, time.time() - t0, WORKERS))
    sys.exit(1 if bad else 0)
