"""Card programs that the library builds in Rust code (stdlib.rs), read back from the HIR as trees.

The standard library's filter / any / map are not Rust algorithms but *card programs* assembled by constructor calls;
their shape is therefore in the source, and clauses of their contracts (which variable is stored under which key, what is
returned) are decidable by matching the tree - without compiling or running the card program.

tree(e) -> nested dicts:
   {"op": "<constructor or variant name>", "args": [...], "named": {param name: tree}}   Card::xxx(..) / CardBody::Xxx(..)
   {"op": "struct:<Name>", "named": {field: tree}}
   {"op": "function", "params": [names], "cards": [trees]}
   python str / int / list

A call of one of the library's own constructor helpers (`fn by_key(native: &str) -> Function`, `minmax("std.min_by_key")`)
is read inline: the helper's body is the tree, its parameters stand for the argument trees of the call; `let` bindings of
a block stand for their initialisers.
"""
from .facts import hir_callee, hir_walk

WRAPPERS = ("std::boxed::Box::new", "std::prelude::v1::Some", "std::convert::From::from", "std::string::String::from")


def _vec_elems(e):
    for y in hir_walk(e):
        if y.get("k") == "array":
            return y["elems"]
    return None


def _inline(F, g, arg_trees, depth):
    """a call of a crate function that *builds* part of the card program (a private helper such as
    `fn by_key(native: &str) -> Function`): its body is read as a tree with the parameters standing for the argument
    trees of this call. None when the helper has no HIR body / does not take plain parameters."""
    if g is None or not g.hir or g.is_closure or depth > 4:
        return None
    params = g.hir.get("params", [])
    if len(params) != len(arg_trees) or not all(p.get("k") == "bind" and "sub" not in p for p in params):
        return None
    return tree(F, g.hir["body"], {p["id"]: a for p, a in zip(params, arg_trees)}, depth + 1)


def tree(F, e, env=None, depth=0):
    """env: HIR local id -> tree (parameters of an inlined helper, `let` bindings of a block)"""
    if e is None:
        return None
    k = e.get("k")
    if k in ("cast", "addr_of", "drop_temps", "use", "paren"):
        return tree(F, e.get("e"), env, depth)
    if k == "block":
        bl = e["block"]
        if bl.get("expr") is not None and all(st["k"] == "let" and st["pat"].get("k") == "bind" and "sub" not in st["pat"]
                                              and st.get("init") is not None and not st.get("els") for st in bl["stmts"]):
            # `let name = <tree>; ...; <tail>`: the names stand for their initialisers
            env = dict(env or {})
            for st in bl["stmts"]:
                env[st["pat"]["id"]] = tree(F, st["init"], env, depth)
            return tree(F, bl["expr"], env, depth)
        return {"op": "?block"}
    if k == "lit":
        return e["lit"].get("v")
    if k == "array":
        return [tree(F, x, env, depth) for x in e["elems"]]
    if k == "struct":
        name = e["path"]["res"].get("path", "?").rsplit("::", 1)[-1]
        return {"op": "struct:" + name, "named": {f["name"]: tree(F, f["e"] if "e" in f else f.get("expr"), env, depth) for f in e["fields"]}}
    if k == "path":
        r = e["path"]["res"]
        if r.get("k") == "def" and "CardBody::" in r.get("path", ""):
            return {"op": r["path"].rsplit("::", 1)[-1], "args": [], "named": {}}
        if r.get("k") == "local":
            if env and r.get("id") in env:
                return env[r["id"]]
            return {"op": "?local", "name": r.get("name")}
        return {"op": "?path", "path": r.get("path")}
    if k == "mcall":
        names = hir_callee(e)
        nm = e["name"]
        if nm in ("into", "to_string", "to_owned", "clone", "as_str") and not e["args"]:
            return tree(F, e["recv"], env, depth)
        if any(n.endswith("Function::with_arg") for n in names):
            f = tree(F, e["recv"], env, depth)
            if isinstance(f, dict) and f.get("op") == "function":
                f["params"].append(tree(F, e["args"][0], env, depth))
                return f
        if any(n.endswith("Function::with_cards") for n in names):
            f = tree(F, e["recv"], env, depth)
            if isinstance(f, dict) and f.get("op") == "function":
                cs = tree(F, e["args"][0], env, depth)
                f["cards"] += cs if isinstance(cs, list) else [cs]
                return f
        if any(n.endswith("Function::with_card") for n in names):
            f = tree(F, e["recv"], env, depth)
            if isinstance(f, dict) and f.get("op") == "function":
                f["cards"].append(tree(F, e["args"][0], env, depth))
                return f
        return {"op": "?mcall:" + nm}
    if k == "call":
        names = hir_callee(e)
        if any(n in WRAPPERS or n.endswith("Box::new") for n in names):
            return tree(F, e["args"][0], env, depth)
        if any("into_vec" in n or "box_assume_init" in n or n.endswith("vec::from_elem") for n in names):
            el = _vec_elems(e)
            return [tree(F, x, env, depth) for x in el] if el is not None else {"op": "?vec"}
        if any(n.endswith("Default::default") for n in names) and "Function" in (e.get("ty") or ""):
            return {"op": "function", "params": [], "cards": []}
        for n in names:
            if n.startswith("compiler::card::CardBody::"):
                return {"op": n.rsplit("::", 1)[-1], "args": [tree(F, a, env, depth) for a in e["args"]], "named": {}}
            if n.startswith("compiler::card::Card::"):
                g = F.fn(n, required=False)
                args = [tree(F, a, env, depth) for a in e["args"]]
                named = {}
                if g is not None and g.hir and len(g.hir.get("params", [])) == len(args):
                    for p, a in zip(g.hir["params"], args):
                        if p.get("k") == "bind":
                            named[p["name"]] = a
                return {"op": n.rsplit("::", 1)[-1], "args": args, "named": named}
            if n.startswith("stdlib::"):
                t = _inline(F, F.fn(n, required=False), [tree(F, a, env, depth) for a in e["args"]], depth)
                return t if t is not None else {"op": "?helper", "path": n}
        return {"op": "?call:" + (names[0] if names else "?")}
    return {"op": "?" + str(k)}


def walk(t):
    if isinstance(t, dict):
        yield t
        # the named view (constructor parameters) holds the same objects as the positional one
        for v in (list((t.get("named") or {}).values()) or t.get("args", []) or []):
            yield from walk(v)
        for v in t.get("cards", []) or []:
            yield from walk(v)
    elif isinstance(t, list):
        for v in t:
            yield from walk(v)


def is_read(t, name=None):
    return isinstance(t, dict) and t.get("op") == "read_var" and t["args"] and (name is None or t["args"][0] == name)


def unwrap_composite(t):
    """a composite card with a single child stands for that child (value of the last card)"""
    while isinstance(t, dict) and t.get("op") == "composite_card" and isinstance(t["args"][-1], list) and len(t["args"][-1]) == 1:
        t = t["args"][-1][0]
    return t
