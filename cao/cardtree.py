"""Card programs that the library builds in Rust code (stdlib.rs), read back from the HIR as trees.

The standard library's filter / any / map are not Rust algorithms but *card programs* assembled by constructor calls;
their shape is therefore in the source, and clauses of their contracts (which variable is stored under which key, what is
returned) are decidable by matching the tree - without compiling or running the card program.

tree(e) -> nested dicts:
   {"op": "<constructor or variant name>", "args": [...], "named": {param name: tree}}   Card::xxx(..) / CardBody::Xxx(..)
   {"op": "struct:<Name>", "named": {field: tree}}
   {"op": "function", "params": [names], "cards": [trees]}
   python str / int / list
"""
from .facts import hir_callee, hir_walk

WRAPPERS = ("std::boxed::Box::new", "std::prelude::v1::Some", "std::convert::From::from", "std::string::String::from")


def _vec_elems(e):
    for y in hir_walk(e):
        if y.get("k") == "array":
            return y["elems"]
    return None


def tree(F, e):
    if e is None:
        return None
    k = e.get("k")
    if k in ("cast", "addr_of", "drop_temps", "use", "paren"):
        return tree(F, e.get("e"))
    if k == "block":
        bl = e["block"]
        if not bl["stmts"] and bl.get("expr") is not None:
            return tree(F, bl["expr"])
        return {"op": "?block"}
    if k == "lit":
        return e["lit"].get("v")
    if k == "array":
        return [tree(F, x) for x in e["elems"]]
    if k == "struct":
        name = e["path"]["res"].get("path", "?").rsplit("::", 1)[-1]
        return {"op": "struct:" + name, "named": {f["name"]: tree(F, f["e"] if "e" in f else f.get("expr")) for f in e["fields"]}}
    if k == "path":
        r = e["path"]["res"]
        if r.get("k") == "def" and "CardBody::" in r.get("path", ""):
            return {"op": r["path"].rsplit("::", 1)[-1], "args": [], "named": {}}
        if r.get("k") == "local":
            return {"op": "?local", "name": r.get("name")}
        return {"op": "?path", "path": r.get("path")}
    if k == "mcall":
        names = hir_callee(e)
        nm = e["name"]
        if nm in ("into", "to_string", "to_owned", "clone", "as_str") and not e["args"]:
            return tree(F, e["recv"])
        if any(n.endswith("Function::with_arg") for n in names):
            f = tree(F, e["recv"])
            if isinstance(f, dict) and f.get("op") == "function":
                f["params"].append(tree(F, e["args"][0]))
                return f
        if any(n.endswith("Function::with_cards") for n in names):
            f = tree(F, e["recv"])
            if isinstance(f, dict) and f.get("op") == "function":
                cs = tree(F, e["args"][0])
                f["cards"] += cs if isinstance(cs, list) else [cs]
                return f
        if any(n.endswith("Function::with_card") for n in names):
            f = tree(F, e["recv"])
            if isinstance(f, dict) and f.get("op") == "function":
                f["cards"].append(tree(F, e["args"][0]))
                return f
        return {"op": "?mcall:" + nm}
    if k == "call":
        names = hir_callee(e)
        if any(n in WRAPPERS or n.endswith("Box::new") for n in names):
            return tree(F, e["args"][0])
        if any("into_vec" in n or "box_assume_init" in n or n.endswith("vec::from_elem") for n in names):
            el = _vec_elems(e)
            return [tree(F, x) for x in el] if el is not None else {"op": "?vec"}
        if any(n.endswith("Default::default") for n in names) and "Function" in (e.get("ty") or ""):
            return {"op": "function", "params": [], "cards": []}
        for n in names:
            if n.startswith("compiler::card::CardBody::"):
                return {"op": n.rsplit("::", 1)[-1], "args": [tree(F, a) for a in e["args"]], "named": {}}
            if n.startswith("compiler::card::Card::"):
                g = F.fn(n, required=False)
                args = [tree(F, a) for a in e["args"]]
                named = {}
                if g is not None and g.hir and len(g.hir.get("params", [])) == len(args):
                    for p, a in zip(g.hir["params"], args):
                        if p.get("k") == "bind":
                            named[p["name"]] = a
                return {"op": n.rsplit("::", 1)[-1], "args": args, "named": named}
            if n.startswith("stdlib::"):
                return {"op": "?helper", "path": n}
        return {"op": "?call:" + (names[0] if names else "?")}
    return {"op": "?" + str(k)}


def walk(t):
    if isinstance(t, dict):
        yield t
        # the named view (constructor parameters) holds the same objects as the positional one
        for v in (list((t.get("named") or {}).values()) or t.get("args", []) or []):
            yield from walk(v)
        for v in t.get("cards", []) or []:
            yield from walk(v)
    elif isinstance(t, list):
        for v in t:
            yield from walk(v)


def is_read(t, name=None):
    return isinstance(t, dict) and t.get("op") == "read_var" and t["args"] and (name is None or t["args"][0] == name)


def unwrap_composite(t):
    """a composite card with a single child stands for that child (value of the last card)"""
    while isinstance(t, dict) and t.get("op") == "composite_card" and isinstance(t["args"][-1], list) and len(t["args"][-1]) == 1:
        t = t["args"][-1][0]
    return t
