"""Backward-shift deletion in the two open-addressing tables, decided by exhaustive case analysis.

The removal loop of a linear-probing table is correct iff
  (a) the cursor advances by one slot cyclically,
  (b) the loop is left only when the cursor reaches an EMPTY slot,
  (c) the entry under the cursor is moved into the hole exactly when its home slot is NOT cyclically in (hole, cursor],
  (d) after a move the hole is the cursor's slot, and the final hole is emptied (C12.B / C13.R check the latter).
(a) and (c) are pure integer expressions over (hole, cursor, home, capacity). They are read from the HIR and evaluated
by a small interpreter over EVERY combination of values for all small capacities - the predicate only compares and
does modular arithmetic, so a disagreement with the specification shows up at small capacities (a wrapped usize
subtraction is off by 2^64 mod capacity, which is non-zero for every capacity that is not a power of two). This is an
evaluation of two expressions of the source under all inputs of a finite domain, not a run of the program.

The expressions are taken for what they compute, not for how they are written: calls of small pure helpers of the crate
(`next_slot(i)`, `is_occupied(i)`, `in_cyclic_range(a, x, b)`) are evaluated by evaluating the helper's body with the
argument values; (b) is decided by evaluating the path condition of every exit for an EMPTY and for several occupied
values of the slot under the cursor (so `h == 0`, `!(h != 0)`, `while is_occupied(j)`, `while k.0 != 0` are the same
test); the loop may advance the cursor at its top (`loop { j = next(j); .. }`, cursor starting at the hole) or at its
bottom (`j = next(hole); while .. { ..; j = next(j) }`) - LoopScope puts the statements of one iteration in execution
order and checks that a local read in a condition still holds the value of its initialiser there.
"""
from cao.facts import hir_walk, hir_strip, hir_callee, hir_local_id, hir_children, block_exprs, short, pat_bindings
from cao import hirutil as hu

M64 = 1 << 64


class Unknown(Exception):
    pass


class Overflow(Exception):
    pass


class NotCursor(Unknown):
    """a slot other than the one under the cursor is read"""


class _SlotMark:
    """the marker stored in the slot under the cursor when only its identity matters (argument of home_slot): any
    arithmetic or comparison on it is refused"""

    def __eq__(self, o):
        raise TypeError("slot marker")

    def __ne__(self, o):
        raise TypeError("slot marker")

    __hash__ = None

    def __bool__(self):
        raise TypeError("slot marker")


SLOT_MARK = _SlotMark()


class Ev:
    def __init__(self, f, env, cap, home):
        self.f = f
        self.env = env      # local id -> int
        self.cap = cap
        self.home = home
        self.inits = hu.let_inits(f)
        self.depth = 0
        # optional context (all off by default: plain integer expressions of one function)
        self.crate = None       # Facts: calls of small pure crate functions are evaluated through their bodies
        self.slot_tys = ()      # type strings of a slot marker: reads of the marker array are looked up in `slots`
        self.slots = None       # slot index -> value of the marker stored there (int, or SLOT_MARK)
        self.scope = None       # LoopScope + position: locals are resolved to the initialiser that is live there
        self.pos = None
        self.inline_depth = 0

    def ev(self, e):
        self.depth += 1
        if self.depth > 400:
            raise Unknown("too deep")
        try:
            return self._ev(e)
        except TypeError:
            raise Unknown("arithmetic on a value that is not a number (the marker stored in a slot)")
        finally:
            self.depth -= 1

    def _is_slot_ty(self, ty):
        t = (ty or "").replace("&mut ", "").replace("&", "").strip()
        return t in self.slot_tys

    def _slot_index(self, e):
        """e reads the marker array (`hashes[i]`, `*handles.add(i)`): the index expression, else None"""
        k = e.get("k")
        if k == "index" and self._is_slot_ty(e.get("ty")):
            return e["idx"]
        if k == "un" and e["op"] == "Deref" and self._is_slot_ty(e.get("ty")):
            p = hu.strip_casts(e["e"])
            if p is not None and p.get("k") == "mcall" and p["name"] in ("add", "offset", "wrapping_add") and len(p["args"]) == 1:
                rt = (hir_strip(p["recv"]).get("ty") or "").strip()
                if any(rt in ("*mut " + t, "*const " + t) for t in self.slot_tys):
                    return p["args"][0]
        return None

    def _inline(self, e, g):
        """value of a call of the crate function g: its body evaluated with the values of the arguments. Only bodies that
        are pure expressions (lets + a value; no assignment, loop or early return) are understood."""
        if self.inline_depth >= 6:
            raise Unknown("helper calls nested too deep")
        args = ([e["recv"]] if e["k"] == "mcall" else []) + list(e["args"])
        pats = g.hir["params"]
        if len(pats) != len(args) or not all(p_.get("k") == "bind" for p_ in pats):
            raise Unknown("call %s" % g.name)
        for y in hir_walk(g.hir["body"]):
            if y.get("k") in ("ret", "assign", "assign_op", "loop", "break", "continue", "closure"):
                raise Unknown("helper %s is not a pure expression (%s)" % (g.name, y["k"]))
        env = {}
        for p_, a in zip(pats, args):
            if p_.get("name") == "self":
                continue
            try:
                env[p_["id"]] = self.ev(a)
            except Unknown as u:
                env[p_["id"]] = u        # raised when (if) the helper uses the parameter
        c = Ev(g, env, self.cap, self.home)
        c.crate, c.slot_tys, c.slots = self.crate, self.slot_tys, self.slots
        c.inline_depth = self.inline_depth + 1
        c.depth = self.depth
        return c.ev(g.hir["body"])

    def _ev(self, e):
        e = hu.strip_casts(e)
        if e is None:
            raise Unknown("none")
        k = e.get("k")
        if k == "lit":
            l = e["lit"]
            if l["k"] == "int":
                return l["v"]
            if l["k"] == "bool":
                return bool(l["v"])
            raise Unknown("literal")
        if k == "path":
            r = e["path"]["res"]
            if r["k"] == "local":
                if r["id"] in self.env:
                    v = self.env[r["id"]]
                    if isinstance(v, Unknown):
                        raise v
                    return v
                if self.scope is not None:
                    return self.ev(self.scope.resolve(r["id"], self.pos, r.get("name")))
                ins = self.inits.get(r["id"], [])
                if len(ins) == 1:
                    return self.ev(ins[0])
                raise Unknown("local %s" % r["name"])
            raise Unknown("path")
        if k == "field":
            if e["name"] == "capacity":
                return self.cap
            if e["name"] == "0" and self._is_slot_ty(hir_strip(e["e"]).get("ty")):
                return self.ev(e["e"])       # Handle(x).0
            raise Unknown("field %s" % e["name"])
        if self.slots is not None and k in ("index", "un"):
            ix = self._slot_index(e)
            if ix is not None:
                i = self.ev(ix)
                if i not in self.slots:
                    raise NotCursor("slot %s is read, the cursor is at %s" % (i, sorted(self.slots)))
                return self.slots[i]
        if k in ("mcall", "call"):
            names = hir_callee(e)
            nm = e.get("name") or ""
            if any(n.endswith("::home_slot") for n in names):
                if self.slots is not None and e["args"]:
                    # the home slot must be the one of the entry under the cursor
                    try:
                        a = self.ev(e["args"][-1])
                    except NotCursor as u:
                        raise Unknown("the home slot is computed for an entry that is not under the cursor (%s)" % u)
                    except Stale:
                        raise
                    except Unknown:
                        a = SLOT_MARK
                    if a is not SLOT_MARK and any(v is SLOT_MARK for v in self.slots.values()):
                        raise Unknown("the home slot is not computed from the marker stored under the cursor")
                return self.home
            if any(n.endswith("::capacity") for n in names):
                return self.cap
            if k == "call" and self.slot_tys and len(e["args"]) == 1 and self._is_slot_ty(e.get("ty")):
                r_ = (hir_strip(e["f"]).get("path") or {}).get("res") or {}
                if r_.get("ctor_of"):
                    return self.ev(e["args"][0])     # Handle(x)
            if k == "mcall" and nm in ("wrapping_sub", "wrapping_add", "wrapping_mul"):
                a = self.ev(e["recv"])
                b = self.ev(e["args"][0])
                return {"wrapping_sub": a - b, "wrapping_add": a + b, "wrapping_mul": a * b}[nm] % M64
            if k == "mcall" and nm in ("min", "max") and e["args"]:
                a = self.ev(e["recv"])
                b = self.ev(e["args"][0])
                return min(a, b) if nm == "min" else max(a, b)
            if self.crate is not None:
                for n in names:
                    g = self.crate.fn(n, required=False) if n.count("::") >= 1 else None
                    if g is not None and g.hir is not None and not g.is_closure:
                        return self._inline(e, g)
            raise Unknown("call %s" % (names or nm))
        if k == "bin":
            op = e["op"]
            if op == "And":
                return bool(self.ev(e["l"])) and bool(self.ev(e["r"]))
            if op == "Or":
                return bool(self.ev(e["l"])) or bool(self.ev(e["r"]))
            a = self.ev(e["l"])
            b = self.ev(e["r"])
            if op == "Add":
                if a + b >= M64:
                    raise Overflow("add")
                return a + b
            if op == "Sub":
                if a - b < 0:
                    raise Overflow("usize subtraction underflows")
                return a - b
            if op == "Mul":
                return a * b
            if op == "Rem":
                if b == 0:
                    raise Overflow("remainder by zero")
                return a % b
            if op == "Div":
                if b == 0:
                    raise Overflow("division by zero")
                return a // b
            if op == "BitAnd":
                return a & b
            if op == "BitOr":
                return a | b
            if op == "BitXor":
                return a ^ b
            if op in ("Lt", "Le", "Gt", "Ge", "Eq", "Ne"):
                return {"Lt": a < b, "Le": a <= b, "Gt": a > b, "Ge": a >= b, "Eq": a == b, "Ne": a != b}[op]
            raise Unknown("op " + op)
        if k == "un":
            if e["op"] == "Not":
                v = self.ev(e["e"])
                if isinstance(v, bool):
                    return not v
                return (~v) % M64
            raise Unknown("unary " + e["op"])
        if k == "if":
            c = self.ev(e["cond"])
            br = e["then"] if c else e.get("else")
            if br is None:
                raise Unknown("if without else as a value")
            return self.ev(br)
        if k == "block":
            bl = e["block"]
            if bl.get("expr") is None:
                raise Unknown("block without value")
            return self.ev(bl["expr"])
        if k == "tup":
            return tuple(self.ev(x) for x in e["elems"])
        if k == "match":
            v = self.ev(e["scrut"])
            for a in e["arms"]:
                binds = {}
                if not self._pat(a["pat"], v, binds):
                    continue
                saved = {b: self.env[b] for b in binds if b in self.env}
                self.env.update(binds)
                try:
                    if a.get("guard") is not None and not bool(self.ev(a["guard"])):
                        continue
                    return self.ev(a["body"])
                finally:
                    for b in binds:
                        self.env.pop(b, None)
                    self.env.update(saved)
            raise Unknown("no match arm applies")
        raise Unknown(str(k))

    def _pat(self, p, v, binds):
        """does value v match pattern p (literals, tuples, bindings, wildcards, or-patterns)?"""
        k = p.get("k")
        if k == "wild":
            return True
        if k == "bind":
            if "sub" in p and not self._pat(p["sub"], v, binds):
                return False
            binds[p["id"]] = v
            return True
        if k == "expr" and "lit" in p and p["lit"].get("k") in ("bool", "int"):
            lv = p["lit"]["v"]
            if p["lit"]["k"] == "bool":
                return isinstance(v, bool) and v == bool(lv)
            if isinstance(v, bool) or not isinstance(v, int):
                raise Unknown("literal pattern on a value that is not a number")
            return v == (-lv if p.get("neg") else lv)
        if k == "tuple":
            if not isinstance(v, tuple) or len(v) != len(p["pats"]):
                raise Unknown("tuple pattern")
            return all(self._pat(x, y, binds) for x, y in zip(p["pats"], v))
        if k == "or":
            return any(self._pat(x, v, binds) for x in p["pats"])
        raise Unknown("pattern %s" % k)


class Stale(Unknown):
    """a local is read after something its initialiser depends on was assigned again"""


# ---------------------------------------------------------------------------------------------------
# one iteration of the loop in execution order
# ---------------------------------------------------------------------------------------------------

class Event:
    __slots__ = ("kind", "node", "ctx", "lid", "init")

    def __init__(self, kind, node, ctx, lid=None, init=None):
        self.kind = kind      # 'def' (a local gets a value), 'if' (a condition is evaluated), 'exit' (break/return/continue), 'loop'
        self.node = node
        self.ctx = ctx        # enclosing conditional constructs: an event is executed whenever its ctx is entered
        self.lid = lid
        self.init = init      # the expression assigned (None: compound assignment / pattern binding - opaque)


def _diverges(e):
    """does the expression always leave the iteration (its last action is break / return / continue)?"""
    e = hir_strip(e)
    if e is None:
        return False
    k = e.get("k")
    if k in ("break", "ret", "continue"):
        return True
    if k == "block":
        bl = e["block"]
        for st in bl["stmts"]:
            if st["k"] in ("semi", "expr") and _diverges(st["e"]):
                return True
        return bl.get("expr") is not None and _diverges(bl["expr"])
    if k == "if":
        return e.get("else") is not None and _diverges(e["then"]) and _diverges(e["else"])
    return False


def _emit(e, out, ctx):
    """events of an expression in execution order. A branch whose sibling always leaves the iteration is executed by every
    iteration that goes on (`if h == 0 { break }` ; rest    ==    `if h != 0 { rest } else { break }`    ==    `while h != 0 { rest }`),
    so it keeps the context of the `if`."""
    if e is None:
        return
    k = e.get("k")
    if k == "block":
        _emit_block(e["block"], out, ctx)
    elif k == "if":
        out.append(Event("if", e, ctx))
        _emit(e["cond"], out, ctx)
        th, el = e["then"], e.get("else")
        dt, de = _diverges(th), (el is not None and _diverges(el))
        if de and not dt:
            _emit(el, out, ctx + (("else", id(e)),))
            _emit(th, out, ctx)
        elif dt and not de:
            _emit(th, out, ctx + (("then", id(e)),))
            _emit(el, out, ctx)
        else:
            _emit(th, out, ctx + (("then", id(e)),))
            _emit(el, out, ctx + (("else", id(e)),))
    elif k == "loop":
        out.append(Event("loop", e, ctx))
        _emit_block(e["body"], out, ctx + (("loop", id(e)),))
    elif k == "match":
        _emit(e["scrut"], out, ctx)
        for n, a in enumerate(e["arms"]):
            actx = ctx + (("arm%d" % n, id(e)),)
            for bid, _nm in pat_bindings(a.get("pat")):
                out.append(Event("def", a, actx, bid, None))
            _emit(a.get("guard"), out, actx)
            _emit(a["body"], out, actx)
    elif k == "closure":
        return
    elif k in ("assign", "assign_op"):
        _emit(e["r"], out, ctx)
        lid = hir_local_id(e["l"])
        if lid is not None:
            out.append(Event("def", e, ctx, lid, e["r"] if k == "assign" else None))
        else:
            _emit(e["l"], out, ctx)
    elif k == "let":
        _emit(e.get("init"), out, ctx)
        for bid, _nm in pat_bindings(e.get("pat")):
            out.append(Event("def", e, ctx, bid, None))
    elif k in ("break", "ret", "continue"):
        _emit(e.get("e"), out, ctx)
        out.append(Event("exit", e, ctx))
    else:
        for c in hir_children(e):
            _emit(c, out, ctx)
        if k in ("call", "mcall"):
            out.append(Event("call", e, ctx))


def _emit_block(bl, out, ctx):
    for st in bl["stmts"]:
        if st["k"] == "let":
            _emit(st.get("init"), out, ctx)
            if st.get("els"):
                _emit_block(st["els"], out, ctx + (("els", id(st)),))
            pat = st.get("pat") or {}
            if pat.get("k") == "bind" and "sub" not in pat and st.get("init") is not None:
                out.append(Event("def", st, ctx, pat["id"], st["init"]))
            else:
                for bid, _nm in pat_bindings(pat):
                    out.append(Event("def", st, ctx, bid, None))
        elif st["k"] in ("expr", "semi"):
            _emit(st["e"], out, ctx)
    _emit(bl.get("expr"), out, ctx)


def _nf(e):
    """structure of an expression without line numbers: two initialisers with the same form compute the same thing"""
    e = hir_strip(e)
    if e is None:
        return None
    k = e.get("k")
    if k == "path":
        r = e["path"]["res"]
        return ("local", r["id"]) if r["k"] == "local" else ("def", r.get("path"))
    if k == "lit":
        return ("lit", e["lit"].get("k"), e["lit"].get("v"))
    head = (k, e.get("op"), e.get("name"), tuple(hir_callee(e)) if k in ("call", "mcall") else None, e.get("ty") if k == "cast" else None)
    return head + tuple(_nf(c) for c in hir_children(e))


def _locals_of(e):
    return set(hir_local_id(y) for y in hir_walk(e) if y.get("k") == "path" and hir_local_id(y) is not None)


class LoopScope:
    """The statements before the loop and of one iteration as a sequence of events. resolve(local, position) gives the
    expression whose value the local holds at that position: its last assignment on the way there - from the loop entry
    and from the previous iteration, which must agree - provided that assignment is executed unconditionally and nothing
    the expression reads was assigned since (otherwise the local is stale: it describes an earlier cursor position)."""
    ENTRY = "entry"

    def __init__(self, f, lp):
        self.f = f
        evs = []
        _emit(f.hir["body"], evs, ())
        li = next((n for n, ev in enumerate(evs) if ev.kind == "loop" and ev.node is lp), None)
        if li is None:
            raise Unknown("the loop is not in the function body proper")
        self.lp_ctx = evs[li].ctx
        self.inner = self.lp_ctx + (("loop", id(lp)),)
        j = li + 1
        while j < len(evs) and evs[j].ctx[:len(self.inner)] == self.inner:
            j += 1
        self.pre = evs[:li]
        self.it = evs[li + 1:j]
        # a `continue` ends the iteration early: whatever comes later in the body is executed by some iterations only
        n_inner = len(self.inner)
        marks = ()
        for ev in self.it:
            if marks:
                ev.ctx = ev.ctx[:n_inner] + marks + ev.ctx[n_inner:]
            if ev.kind == "exit" and ev.node.get("k") == "continue" and not any(c[0] == "loop" for c in ev.ctx[n_inner:]):
                marks = marks + (("after-continue", id(ev.node)),)
        self.cache = {}

    def position(self, kind, node):
        for n, ev in enumerate(self.it):
            if ev.kind == kind and ev.node is node:
                return n
        return None

    def always(self, ev, in_loop):
        """is the event executed on every way to / round of the loop?"""
        if in_loop:
            return ev.ctx == self.inner
        return ev.ctx == self.lp_ctx[:len(ev.ctx)]

    def defs(self, lid):
        return [(n, ev) for n, ev in enumerate(self.it) if ev.kind == "def" and ev.lid == lid]

    def has_continue(self):
        return any(ev.kind == "exit" and ev.node.get("k") == "continue" for ev in self.it)

    def resolve(self, lid, pos, name=None):
        key = (lid, pos)
        if key in self.cache:
            r = self.cache[key]
            if isinstance(r, Unknown):
                raise r
            return r
        try:
            r = self._resolve(lid, pos, name or lid)
        except Unknown as u:
            self.cache[key] = u
            raise
        self.cache[key] = r
        return r

    def _resolve(self, lid, pos, name):
        if pos == self.ENTRY or pos is None:
            head, tail = [], []
        else:
            head, tail = self.it[:pos], self.it[pos + 1:]
        paths = [[(ev, False) for ev in self.pre] + [(ev, True) for ev in head]]
        if pos != self.ENTRY and pos is not None:
            if any(ev.kind == "def" and ev.lid == lid for ev in tail + head):
                paths.append([(ev, True) for ev in tail + head])        # assigned by the previous iteration
            else:
                # not assigned in the loop: the value from before the loop, with whole iterations in between
                paths.append([(ev, False) for ev in self.pre] + [(ev, True) for ev in self.it] + [(ev, True) for ev in head])
        found = []
        for P in paths:
            hit = None
            for n in range(len(P) - 1, -1, -1):
                ev, inl = P[n]
                if ev.kind == "def" and ev.lid == lid:
                    if not self.always(ev, inl):
                        raise Unknown("local `%s` is assigned on some paths only" % name)
                    if ev.init is None:
                        raise Unknown("local `%s` is not assigned a plain expression" % name)
                    hit = n
                    break
            if hit is None:
                raise Unknown("local `%s`" % name)
            init = P[hit][0].init
            free = _locals_of(init)
            for ev, _inl in P[hit + 1:]:
                if ev.kind == "def" and ev.lid in free:
                    raise Stale("`%s` was read before `%s` was assigned again: it no longer describes the current position"
                                % (name, _name_of(init, ev.lid)))
            found.append(init)
        if any(_nf(x) != _nf(found[0]) for x in found[1:]):
            raise Unknown("local `%s` holds different expressions on entry and after an iteration" % name)
        return found[0]


def _name_of(e, lid):
    for y in hir_walk(e):
        if y.get("k") == "path" and hir_local_id(y) == lid:
            return y["path"]["res"].get("name", lid)
    return lid


def _exits_with_tests(lp):
    """exits of the loop (break / return; not those of nested loops' breaks) with the chain of (if node, truth) guarding them"""
    out = []

    def rec(e, conds, inner_loop):
        if e is None:
            return
        k = e.get("k")
        if k == "ret" or (k == "break" and not inner_loop):
            out.append((e, list(conds)))
            return
        if k == "if":
            rec(e["cond"], conds, inner_loop)
            rec(e["then"], conds + [(e, True)], inner_loop)
            if e.get("else") is not None:
                rec(e["else"], conds + [(e, False)], inner_loop)
            return
        if k == "closure":
            return
        if k == "loop":
            for c in hir_children(e):
                rec(c, conds, True)
            return
        for c in hir_children(e):
            rec(c, conds, inner_loop)

    for x in block_exprs(lp["body"]):
        rec(x, [], False)
    return out


def _only_continues(e):
    """does the (diverging) expression end the iteration by `continue` somewhere?"""
    return any(y.get("k") == "continue" for y in hir_walk(e))


def _leaves_loop(e):
    return any(y.get("k") in ("break", "ret") for y in hir_walk(e))


def _move_guards(lp, target):
    """the tests under which `target` (a statement of the loop body) is executed and the iteration is not left otherwise:
    enclosing `if`s (with the branch taken) and earlier `if c { continue }` guards of the enclosing statement lists (with the
    opposite value). Tests whose other outcome leaves the loop (`if h == 0 { break }`, the condition of a `while`) are the
    loop's exits, not part of the move decision. -> [(if node, truth)] outermost first, or None if target is not found"""
    acc = []

    def rec(e):
        if e is None:
            return False
        if e is target:
            return True
        k = e.get("k")
        if k == "closure":
            return False
        if k == "if":
            if rec(e["cond"]):
                return True
            for key, pol, other in (("then", True, "else"), ("else", False, "then")):
                if e.get(key) is None:
                    continue
                exit_test = e.get(other) is not None and _diverges(e[other]) and _leaves_loop(e[other]) and not _only_continues(e[other])
                if not exit_test:
                    acc.append((e, pol))
                if rec(e[key]):
                    return True
                if not exit_test:
                    acc.pop()
            return False
        if k in ("block", "loop"):
            bl = e["block"] if k == "block" else e["body"]
            pushed = 0
            items = [(st.get("init") if st["k"] == "let" else st.get("e")) for st in bl["stmts"]] + [bl.get("expr")]
            for x in items:
                if x is None:
                    continue
                if rec(x):
                    return True
                y = hir_strip(x)
                if y is not None and y.get("k") == "if":
                    dt = _diverges(y["then"]) and _only_continues(y["then"])
                    de = y.get("else") is not None and _diverges(y["else"]) and _only_continues(y["else"])
                    if dt and not de:
                        acc.append((y, False))
                        pushed += 1
                    elif de and not dt:
                        acc.append((y, True))
                        pushed += 1
            for _ in range(pushed):
                acc.pop()
            return False
        for c in hir_children(e):
            if rec(c):
                return True
        return False

    return list(acc) if rec(lp) else None


def _pick_loop(f):
    """the back-shift loop: contains `hole = cursor` (both plain locals) executed under a test - inside an `if`, or after an
    `if .. { continue }` guard; the tests guarding it decide the move. -> (loop, [(if node, truth)], hole, cursor)"""
    loops = [x for x in hir_walk(f.hir["body"]) if x.get("k") == "loop" and "ForLoop" not in str(x.get("source"))]
    for lp in loops:
        best = None
        for y in hir_walk(lp):
            if y.get("k") == "assign" and hir_local_id(y["l"]) is not None and hir_local_id(hu.strip_casts(y["r"])) is not None:
                g = _move_guards(lp, y)
                if g:
                    best = (g, hir_local_id(y["l"]), hir_local_id(hu.strip_casts(y["r"])))
        if best:
            return lp, best[0], best[1], best[2]
    return None


def reexamined_after(h, call, lid):
    """h calls, in a loop, a function that closes the hole in slot `lid` (a local of h) by shifting the following entries
    back: the entry that was shifted into the slot must be looked at by the next iteration, so on the way from the call to
    the end of the iteration the local must not be assigned. -> ('ok'|'bad'|'undecided', message)"""
    loops = [x for x in hir_walk(h.hir["body"]) if x.get("k") == "loop" and any(y is call for y in hir_walk(x))]
    if not loops:
        return None
    lp = loops[-1]          # innermost (pre-order: the last one that contains the call)
    try:
        scope = LoopScope(h, lp)
    except Unknown as u:
        return "undecided", "loop not understood: %s" % u
    p = scope.position("call", call)
    if p is None:
        return "undecided", "the call is not in the loop body proper"
    cctx = scope.it[p].ctx
    later = [ev for ev in scope.it[p + 1:] if ev.kind == "def" and ev.lid == lid]
    sure = [ev for ev in later if ev.ctx == cctx[:len(ev.ctx)]]
    if sure:
        return "bad", ("after the hole in the current slot was closed (the next entry of the probe chain may have been shifted into "
                       "it) the walk moves on (line %s): that entry is never offered to the predicate - it is kept although it "
                       "should have been removed" % sure[0].node.get("ln"))
    if later:
        return "undecided", "the slot variable is assigned on some paths after the hole was closed"
    return "ok", "after a removal the walk stays on the slot, so the entry shifted into it is examined next"


def pick_loop(f):
    """(loop, move `if`, hole local, cursor local) of the back-shift loop of f, or None"""
    return _pick_loop(f)


def returns_local(g, lid):
    """does every value g returns (return statements, `break <value>` of a loop in tail position, the tail expression) read
    the local `lid`, directly or through casts?  True / False; None when g has no value return at all"""
    vals = []

    def tail(e):
        e = hir_strip(e)
        if e is None:
            return
        k = e.get("k")
        if k == "block":
            if e["block"].get("expr") is not None:
                tail(e["block"]["expr"])
            return
        if k == "loop":
            for y in hir_walk(e):
                if y.get("k") == "break" and y.get("e") is not None:
                    vals.append(y["e"])
            return
        if k == "if" and e.get("else") is not None:
            tail(e["then"])
            tail(e["else"])
            return
        if k == "match":
            for a in e["arms"]:
                tail(a["body"])
            return
        if k in ("ret", "break", "continue"):
            return
        vals.append(e)

    tail(g.hir["body"])
    stack = [g.hir["body"]]
    while stack:
        y = stack.pop()
        if y is None or y.get("k") == "closure":
            continue
        if y.get("k") == "ret" and y.get("e") is not None:
            vals.append(y["e"])
        stack.extend(hir_children(y))
    if not vals:
        return None
    return all(hir_local_id(hu.strip_casts(v)) == lid for v in vals)


def analyse(f, power_of_two, F=None, slot_tys=()):
    """-> list of findings: (key suffix, 'ok'|'bad'|'undecided', message, ln); None when the function has no back-shift loop.
    F (the crate's facts) lets the evaluator follow calls of helper functions; slot_tys are the type strings of the marker
    array (u64 hashes / Handle), by which reads of `slot[cursor]` are recognised."""
    out = []
    pick = _pick_loop(f)
    if pick is None:
        return None
    lp, move_tests, hole, cursor = pick
    move_if = move_tests[-1][0]
    try:
        scope = LoopScope(f, lp)
    except Unknown as u:
        return [(sfx, "undecided", "back-shift loop not understood: %s" % u, lp.get("ln"))
                for sfx in ("loop-exits-only-at-empty-slot", "cursor-advance", "move-decision")]

    def evaluator(env, c, h, pos, slots=None):
        ev = Ev(f, env, c, h)
        ev.crate, ev.slot_tys, ev.slots, ev.scope, ev.pos = F, tuple(slot_tys), slots, scope, pos
        return ev

    caps = [1, 2, 4, 8, 16] if power_of_two else list(range(1, 14))
    small = [c for c in caps if c <= 8]

    # (b) exits: the path condition of every exit, evaluated for an EMPTY and for occupied slots under the cursor, is
    # `slot[cursor] == EMPTY` - whatever the other inputs are
    exits = _exits_with_tests(lp)
    if not exits:
        out.append(("loop-exits-only-at-empty-slot", "undecided", "no exit found in the back-shift loop", lp.get("ln")))
    exit_pos = []
    for ex, tests in exits:
        ln = ex.get("ln")
        p_ex = scope.position("exit", ex)
        if p_ex is not None:
            exit_pos.append(p_ex)
            if any(c[0] == "after-continue" for c in scope.it[p_ex].ctx):
                out.append(("loop-exits-only-at-empty-slot", "undecided", "the exit lies behind a `continue`: the iterations that reach it are "
                            "not established", ln))
                continue
        if not tests:
            out.append(("loop-exits-only-at-empty-slot", "bad",
                        "the back-shift loop can stop before the end of the cluster (unconditional exit): displaced entries behind the "
                        "stop are cut off by the emptied slot and are no longer found", ln))
            continue
        verdict = None      # None = equivalent to the EMPTY test
        try:
            for c in small:
                for i in range(c):
                    for j in range(c):
                        if i == j:
                            continue
                        for h in range(c):
                            for sv in (0, 1, 2, 5, 1 << 31):
                                taken = True
                                for node, truth in tests:
                                    pos = scope.position("if", node)
                                    if pos is None:
                                        raise Unknown("a test guarding the exit is not part of the loop body proper")
                                    try:
                                        v = bool(evaluator({cursor: j, hole: i}, c, h, pos, {j: sv}).ev(node["cond"]))
                                    except Overflow:
                                        v = None
                                    if v is None:
                                        taken = None
                                        break
                                    if v != truth:
                                        taken = False
                                        break
                                if taken is None:
                                    continue
                                if taken != (sv == 0):
                                    verdict = (c, i, j, h, sv, taken)
                                    break
                            if verdict:
                                break
                        if verdict:
                            break
                    if verdict:
                        break
                if verdict:
                    break
        except NotCursor as u:
            out.append(("loop-exits-only-at-empty-slot", "bad",
                        "the back-shift loop can stop before the end of the cluster (the tested slot is not the one under the cursor: %s): "
                        "displaced entries behind the stop are cut off by the emptied slot and are no longer found" % u, ln))
            continue
        except Unknown as u:
            out.append(("loop-exits-only-at-empty-slot", "undecided", "exit condition not understood: %s" % u, ln))
            continue
        if verdict is None:
            out.append(("loop-exits-only-at-empty-slot", "ok", "the loop is left exactly when the slot under the cursor is EMPTY "
                        "(path condition evaluated for empty and occupied slots, capacities %s)" % small, ln))
        else:
            c, i, j, h, sv, taken = verdict
            if taken:
                why = "with capacity %d, hole %d, cursor %d and an OCCUPIED slot under the cursor (marker %d, home slot %d) the loop is left" % (c, i, j, sv, h)
                out.append(("loop-exits-only-at-empty-slot", "bad",
                            "the back-shift loop can stop before the end of the cluster (exit not guarded by a single `slot == EMPTY` test: %s): "
                            "displaced entries behind the stop are cut off by the emptied slot and are no longer found" % why, ln))
            else:
                why = "with capacity %d, hole %d, cursor %d the exit is not taken although the slot under the cursor is EMPTY" % (c, i, j)
                out.append(("loop-exits-only-at-empty-slot", "bad",
                            "the back-shift loop does not stop at the end of the cluster (exit not guarded by a single `slot == EMPTY` test: %s): "
                            "it walks on into the next cluster and moves entries across an empty slot, where lookups never find them" % why, ln))

    # (a) the cursor: assigned once per iteration, to its cyclic successor; either before the EMPTY test (then it starts at
    # the hole) or after the move decision (then it starts at the successor of the hole)
    p_move = scope.position("if", move_tests[0][0])
    cdefs = scope.defs(cursor)
    adv = None
    if len(cdefs) == 1 and scope.always(cdefs[0][1], True) and cdefs[0][1].init is not None:
        p_adv, adv_ev = cdefs[0]
        adv = adv_ev.node
    if adv is None:
        why = "no `cursor = ..` statement that every iteration executes" if not [d for d in cdefs if scope.always(d[1], True)] else \
            "the cursor is assigned %d times in the loop, not once per iteration" % len(cdefs)
        out.append(("cursor-advance", "undecided", why, (cdefs[0][1].node.get("ln") if cdefs else lp.get("ln"))))
    else:
        bad_at = None
        adv_rhs = adv_ev.init
        try:
            for c in caps:
                for j in range(c):
                    v = evaluator({cursor: j, hole: 0}, c, 0, p_adv).ev(adv_rhs)
                    if v != (j + 1) % c:
                        bad_at = (c, j, v)
                        break
                if bad_at:
                    break
        except Unknown as u:
            out.append(("cursor-advance", "undecided", "cursor expression not understood: %s" % u, adv.get("ln")))
            bad_at = "skip"
        except Overflow as u:
            bad_at = (c, j, "overflow: %s" % u)
        first_exit = min(exit_pos) if exit_pos else None
        order_ok = first_exit is not None and p_move is not None and \
            (p_adv < first_exit < p_move or first_exit < p_move < p_adv)
        if bad_at is None and not order_ok:
            out.append(("cursor-advance", "undecided", "the cursor is not advanced before the EMPTY test or after the move decision: the "
                        "slot that is tested and the slot that is moved are not established to be the same", adv.get("ln")))
        elif bad_at is None:
            # the first slot looked at is the successor of the hole
            first = ""
            wrong = None
            try:
                e0 = scope.resolve(cursor, LoopScope.ENTRY, "cursor")
                for c in caps:
                    for i in range(c):
                        v = evaluator({hole: i}, c, 0, LoopScope.ENTRY).ev(e0)
                        if p_adv < first_exit:
                            v = evaluator({cursor: v, hole: i}, c, 0, p_adv).ev(adv_rhs)
                        if v != (i + 1) % c:
                            wrong = (c, i, v)
                            break
                    if wrong:
                        break
                first = "; the first slot examined is the successor of the hole"
            except (Unknown, Overflow):
                first = ""
            if wrong:
                out.append(("cursor-advance", "bad", "at capacity %s with the hole in slot %s the first slot the loop examines is %s, not the "
                            "successor of the hole: the entry directly behind the removed one is skipped (or the cluster is left early)" % wrong,
                            adv.get("ln")))
            else:
                out.append(("cursor-advance", "ok", "cursor = (cursor + 1) mod capacity for all capacities in %s%s" % (caps, first), adv.get("ln")))
        elif bad_at != "skip":
            out.append(("cursor-advance", "bad", "at capacity %s the cursor goes from %s to %s, not to the next slot" % bad_at, adv.get("ln")))
    # (c) the move predicate - evaluated as written, helper functions included - against the cyclic-interval specification
    bad_at = None
    n = 0
    try:
        if p_move is None:
            raise Unknown("the move decision is not part of the loop body proper")
        for c in caps:
            for i in range(c):
                for j in range(c):
                    if i == j:
                        continue
                    for h in range(c):
                        in_range = (i < h <= j) if i <= j else (h > i or h <= j)
                        want_move = not in_range
                        try:
                            got = True
                            for node, truth in move_tests:
                                pos = scope.position("if", node)
                                if pos is None:
                                    raise Unknown("a test guarding the move is not part of the loop body proper")
                                if bool(evaluator({cursor: j, hole: i}, c, h, pos, {j: SLOT_MARK}).ev(node["cond"])) != truth:
                                    got = False
                                    break
                        except Overflow as u:
                            got = "arithmetic overflow (%s)" % u
                        n += 1
                        if got != want_move:
                            bad_at = (c, i, j, h, got, want_move)
                            break
                    if bad_at:
                        break
                if bad_at:
                    break
            if bad_at:
                break
    except Unknown as u:
        out.append(("move-decision", "undecided", "move condition not understood: %s" % u, move_if.get("ln")))
        bad_at = "skip"
    if bad_at is None:
        out.append(("move-decision", "ok", "the entry is moved exactly when its home slot is not cyclically in (hole, cursor]: %d cases, "
                    "capacities %s" % (n, caps), move_if.get("ln")))
    elif bad_at != "skip":
        c, i, j, h, got, want = bad_at
        out.append(("move-decision", "bad",
                    "with capacity %d, hole %d, cursor %d and an entry whose home slot is %d the loop decides move=%s, but the entry %s: "
                    "%s" % (c, i, j, h, got, "must be moved into the hole" if want else "must stay",
                            "it stays behind an emptied slot and lookups stop before reaching it" if want else
                            "it is moved in front of its home slot where lookups never look"), move_if.get("ln")))
    return out
