"""Backward-shift deletion in the two open-addressing tables, decided by exhaustive case analysis.

The removal loop of a linear-probing table is correct iff
  (a) the cursor advances by one slot cyclically,
  (b) the loop is left only when the cursor reaches an EMPTY slot,
  (c) the entry under the cursor is moved into the hole exactly when its home slot is NOT cyclically in (hole, cursor],
  (d) after a move the hole is the cursor's slot, and the final hole is emptied (C12.B / C13.R check the latter).
(a) and (c) are pure integer expressions over (hole, cursor, home, capacity). They are read from the HIR and evaluated
by a small interpreter over EVERY combination of values for all small capacities - the predicate only compares and
does modular arithmetic, so a disagreement with the specification shows up at small capacities (a wrapped usize
subtraction is off by 2^64 mod capacity, which is non-zero for every capacity that is not a power of two). This is an
evaluation of two expressions of the source under all inputs of a finite domain, not a run of the program.
"""
from cao.facts import hir_walk, hir_strip, hir_callee, hir_local_id, hir_children, block_exprs, short
from cao import hirutil as hu

M64 = 1 << 64


class Unknown(Exception):
    pass


class Overflow(Exception):
    pass


class Ev:
    def __init__(self, f, env, cap, home):
        self.f = f
        self.env = env      # local id -> int
        self.cap = cap
        self.home = home
        self.inits = hu.let_inits(f)
        self.depth = 0

    def ev(self, e):
        self.depth += 1
        if self.depth > 400:
            raise Unknown("too deep")
        try:
            return self._ev(e)
        finally:
            self.depth -= 1

    def _ev(self, e):
        e = hu.strip_casts(e)
        if e is None:
            raise Unknown("none")
        k = e.get("k")
        if k == "lit":
            l = e["lit"]
            if l["k"] == "int":
                return l["v"]
            if l["k"] == "bool":
                return bool(l["v"])
            raise Unknown("literal")
        if k == "path":
            r = e["path"]["res"]
            if r["k"] == "local":
                if r["id"] in self.env:
                    return self.env[r["id"]]
                ins = self.inits.get(r["id"], [])
                if len(ins) == 1:
                    return self.ev(ins[0])
                raise Unknown("local %s" % r["name"])
            raise Unknown("path")
        if k == "field":
            if e["name"] == "capacity":
                return self.cap
            raise Unknown("field %s" % e["name"])
        if k in ("mcall", "call"):
            names = hir_callee(e)
            nm = e.get("name") or ""
            if any(n.endswith("::home_slot") for n in names):
                return self.home
            if any(n.endswith("::capacity") for n in names):
                return self.cap
            if k == "mcall" and nm in ("wrapping_sub", "wrapping_add", "wrapping_mul"):
                a = self.ev(e["recv"])
                b = self.ev(e["args"][0])
                return {"wrapping_sub": a - b, "wrapping_add": a + b, "wrapping_mul": a * b}[nm] % M64
            if k == "mcall" and nm in ("min", "max") and e["args"]:
                a = self.ev(e["recv"])
                b = self.ev(e["args"][0])
                return min(a, b) if nm == "min" else max(a, b)
            raise Unknown("call %s" % (names or nm))
        if k == "bin":
            op = e["op"]
            if op == "And":
                return bool(self.ev(e["l"])) and bool(self.ev(e["r"]))
            if op == "Or":
                return bool(self.ev(e["l"])) or bool(self.ev(e["r"]))
            a = self.ev(e["l"])
            b = self.ev(e["r"])
            if op == "Add":
                if a + b >= M64:
                    raise Overflow("add")
                return a + b
            if op == "Sub":
                if a - b < 0:
                    raise Overflow("usize subtraction underflows")
                return a - b
            if op == "Mul":
                return a * b
            if op == "Rem":
                if b == 0:
                    raise Overflow("remainder by zero")
                return a % b
            if op == "Div":
                if b == 0:
                    raise Overflow("division by zero")
                return a // b
            if op == "BitAnd":
                return a & b
            if op == "BitOr":
                return a | b
            if op == "BitXor":
                return a ^ b
            if op in ("Lt", "Le", "Gt", "Ge", "Eq", "Ne"):
                return {"Lt": a < b, "Le": a <= b, "Gt": a > b, "Ge": a >= b, "Eq": a == b, "Ne": a != b}[op]
            raise Unknown("op " + op)
        if k == "un":
            if e["op"] == "Not":
                v = self.ev(e["e"])
                if isinstance(v, bool):
                    return not v
                return (~v) % M64
            raise Unknown("unary " + e["op"])
        if k == "if":
            c = self.ev(e["cond"])
            br = e["then"] if c else e.get("else")
            if br is None:
                raise Unknown("if without else as a value")
            return self.ev(br)
        if k == "block":
            bl = e["block"]
            if bl.get("expr") is None:
                raise Unknown("block without value")
            return self.ev(bl["expr"])
        raise Unknown(str(k))


def _top_exprs(loop):
    return list(block_exprs(loop["body"]))


def _loop_exits(loop):
    from cao.scoping import _exits
    out = []
    for x in _top_exprs(loop):
        out += _exits(x)
    return out


def analyse(f, power_of_two):
    """-> dict(status=..., ...) list of findings: (key suffix, 'ok'|'bad'|'undecided', message, ln)"""
    out = []
    loops = [x for x in hir_walk(f.hir["body"]) if x.get("k") == "loop" and "ForLoop" not in str(x.get("source"))]
    # the back-shift loop: contains `hole = cursor` (both plain locals) under an `if`
    pick = None
    for lp in loops:
        for x in hir_walk(lp):
            if x.get("k") == "if":
                for y in hir_walk(x["then"]):
                    if y.get("k") == "assign" and hir_local_id(y["l"]) is not None and hir_local_id(hu.strip_casts(y["r"])) is not None:
                        pick = (lp, x, hir_local_id(y["l"]), hir_local_id(hu.strip_casts(y["r"])))
        if pick:
            break
    if pick is None:
        return None
    lp, move_if, hole, cursor = pick
    # (a) cursor advance
    adv = None
    for x in _top_exprs(lp):
        if x.get("k") == "assign" and hir_local_id(x["l"]) == cursor:
            adv = x
            break
    # (b) exits
    exits = _loop_exits(lp)
    if not exits:
        out.append(("loop-exits-only-at-empty-slot", "undecided", "no exit found in the back-shift loop", lp.get("ln")))
    inits = hu.let_inits(f)
    for ex, conds in exits:
        good = False
        why = "exit not guarded by a single `slot == EMPTY` test"
        if len(conds) == 1 and not isinstance(conds[0], tuple):
            c = hu.strip_casts(conds[0])
            if c.get("k") == "bin" and c["op"] == "Eq":
                sides = [hu.strip_casts(c["l"]), hu.strip_casts(c["r"])]
                lit = [s for s in sides if s.get("k") == "lit" and s["lit"].get("v") == 0]
                other = [s for s in sides if not (s.get("k") == "lit")]
                if lit and other:
                    # the other side must be read at the cursor
                    seen = set()
                    work = [other[0]]
                    reads_cursor = False
                    while work:
                        z = work.pop()
                        for y in hir_walk(z):
                            lid = hir_local_id(y) if y.get("k") == "path" else None
                            if lid == cursor:
                                reads_cursor = True
                            elif lid is not None and lid not in seen:
                                seen.add(lid)
                                work.extend(inits.get(lid, []))
                    if reads_cursor:
                        good = True
                    else:
                        why = "the tested slot is not the one under the cursor"
            elif c.get("k") == "bin":
                why = "exit condition is `%s`, not an EMPTY test" % c["op"]
        if good:
            out.append(("loop-exits-only-at-empty-slot", "ok", "the loop is left when the slot under the cursor is EMPTY", ex.get("ln")))
        else:
            out.append(("loop-exits-only-at-empty-slot", "bad",
                        "the back-shift loop can stop before the end of the cluster (%s): displaced entries behind the stop are cut off by "
                        "the emptied slot and are no longer found" % why, ex.get("ln")))
    caps = [1, 2, 4, 8, 16] if power_of_two else list(range(1, 14))
    # (a)
    if adv is None:
        out.append(("cursor-advance", "undecided", "no `cursor = ..` statement at the top of the loop", lp.get("ln")))
    else:
        bad_at = None
        try:
            for c in caps:
                for j in range(c):
                    v = Ev(f, {cursor: j, hole: 0}, c, 0).ev(adv["r"])
                    if v != (j + 1) % c:
                        bad_at = (c, j, v)
                        break
                if bad_at:
                    break
        except Unknown as u:
            out.append(("cursor-advance", "undecided", "cursor expression not understood: %s" % u, adv.get("ln")))
            bad_at = "skip"
        except Overflow as u:
            bad_at = (c, j, "overflow: %s" % u)
        if bad_at is None:
            out.append(("cursor-advance", "ok", "cursor = (cursor + 1) mod capacity for all capacities in %s" % caps, adv.get("ln")))
        elif bad_at != "skip":
            out.append(("cursor-advance", "bad", "at capacity %s the cursor goes from %s to %s, not to the next slot" % bad_at, adv.get("ln")))
    # (c)
    bad_at = None
    n = 0
    try:
        for c in caps:
            for i in range(c):
                for j in range(c):
                    if i == j:
                        continue
                    for h in range(c):
                        in_range = (i < h <= j) if i <= j else (h > i or h <= j)
                        want_move = not in_range
                        try:
                            got = bool(Ev(f, {cursor: j, hole: i}, c, h).ev(move_if["cond"]))
                        except Overflow as u:
                            got = "arithmetic overflow (%s)" % u
                        n += 1
                        if got != want_move:
                            bad_at = (c, i, j, h, got, want_move)
                            break
                    if bad_at:
                        break
                if bad_at:
                    break
            if bad_at:
                break
    except Unknown as u:
        out.append(("move-decision", "undecided", "move condition not understood: %s" % u, move_if.get("ln")))
        bad_at = "skip"
    if bad_at is None:
        out.append(("move-decision", "ok", "the entry is moved exactly when its home slot is not cyclically in (hole, cursor]: %d cases, "
                    "capacities %s" % (n, caps), move_if.get("ln")))
    elif bad_at != "skip":
        c, i, j, h, got, want = bad_at
        out.append(("move-decision", "bad",
                    "with capacity %d, hole %d, cursor %d and an entry whose home slot is %d the loop decides move=%s, but the entry %s: "
                    "%s" % (c, i, j, h, got, "must be moved into the hole" if want else "must stay",
                            "it stays behind an emptied slot and lookups stop before reaching it" if want else
                            "it is moved in front of its home slot where lookups never look"), move_if.get("ln")))
    return out
