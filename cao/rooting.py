"""Rooting-hazard analysis (C02.R): forward taint dataflow over MIR.

origin   a value that left the GC root set: result of the pop family, a native function's reference-capable
         parameter, the result of a function that returns such a value, a pointer released from an ObjectGcGuard.
taint    (origin id, direct?, crossed?) attached to MIR locals; `direct` = the local holds the very Value that was
         popped (so pushing it back re-roots the origin); `crossed` = a call that may collect has executed since.
hazard   (a) a may-collect call receives a tainted operand; (b) a tainted local is read after a may-collect call.
"""
from collections import defaultdict, deque
from cao.facts import callee_names, short, op_place, term_succs

REF_MARKERS = ("value::Value", "CaoLangObject", "CaoLangClosure", "CaoLangTable", "CaoLangUpvalue", "CaoLangString")

POP = {
    "collections::value_stack::ValueStack::pop",
    "collections::value_stack::ValueStack::pop_n",
    "collections::value_stack::ValueStack::pop_w_offset",
    "collections::value_stack::ValueStack::clear_until",
    "vm::Vm::stack_pop",
}
RELEASE = {
    "vm::runtime::cao_lang_object::ObjectGcGuard::into_inner",
}
PUSH = {
    "collections::value_stack::ValueStack::push",
    "collections::value_stack::ValueStack::set",
    "vm::Vm::stack_push",
    "vm::instr_execution::write_local_var",
}
GC_ROOTS = {
    "alloc::caolang_alloc::CaoLangAllocator::alloc",
    "alloc::Allocator::alloc",
    "vm::runtime::RuntimeData::gc",
    "traits::VmFunction::call",
}


import re
_GENERIC = re.compile(r"(?<![A-Za-z0-9_:])T[0-9]*(?![A-Za-z0-9_])")


def ref_capable(ty):
    """May a value of this type hold (a pointer into) a GC object? Generic parameters T/T1.. of the native wrappers
    are instantiated with Value-convertible types, closures may capture references."""
    return any(m in ty for m in REF_MARKERS) or "{closure@" in ty or bool(_GENERIC.search(ty))


class MayGc:
    def __init__(self, F):
        self.F = F
        cg = F.callgraph
        self.set = cg.callers_closure(set(GC_ROOTS))

    def call_may_gc(self, t):
        func = t["func"]
        names = callee_names(func)
        if any(n in self.set for n in names):
            # a trait-dispatched `Allocator::alloc` resolved to the system allocator does not collect
            if "resolved" in func and short(func["resolved"]).startswith("<alloc::SysAllocator"):
                return None
            # generic collections instantiated with the system allocator never reach the VM allocator
            if any("alloc::SysAllocator" in a for a in func.get("args", []) + func.get("resolved_args", [])):
                return None
            return names[-1]
        if "indirect" in func:
            if any("vm::Vm<" in a for a in t.get("arg_tys", [])):
                return "<fn pointer taking &mut Vm>"
        # calling through a fn pointer (`self(vm, v1, ..)` in the VmFunctionN wrappers): unknown host function
        if any(n in ("std::ops::Fn::call", "std::ops::FnMut::call_mut", "std::ops::FnOnce::call_once") for n in names):
            tys = t.get("arg_tys", [])
            if tys and ("fn(" in tys[0] and "{closure@" not in tys[0]) and any("vm::Vm<" in a for a in tys):
                return "<fn pointer taking &mut Vm>"
        return None


GUARD_TY = "vm::runtime::cao_lang_object::ObjectGcGuard"


def guard_instantiations(F):
    """callee short path -> {parameter local: [(caller, line)]}: call sites that move an ObjectGcGuard into a parameter
    the callee declares generically (`impl Into<Value>`): the guard - and with it the protection of the object - ends
    where the callee converts it, the callee's remaining body runs with an unrooted value."""
    out = {}
    for f in F.fns:
        if not f.mir:
            continue
        for b in f.blocks:
            t = b["term"]
            if t["k"] != "call":
                continue
            func = t["func"]
            tgt = func.get("resolved") or func.get("path")
            if not tgt or not (func.get("resolved_local") or func.get("local")):
                continue
            g = F.fn(short(tgt), required=False)
            if g is None or not g.raw.get("sig"):
                continue
            ins = g.raw["sig"]["inputs"]
            for i, aty in enumerate(t.get("arg_tys", [])):
                if aty == GUARD_TY and i < len(ins) and "ObjectGcGuard" not in ins[i]:
                    out.setdefault(g.short, {}).setdefault(i + 1, []).append((f.root or f.short, t.get("ln")))
    return out


class Analysis:
    def __init__(self, F, maygc, returns_unrooted):
        self.F = F
        self.maygc = maygc
        # function -> name of the primitive source its unrooted result comes from (None: the function's own name).
        # A set is accepted as well (every function named after itself).
        self.returns_unrooted = returns_unrooted if isinstance(returns_unrooted, dict) else {n: None for n in returns_unrooted}
        self.guard_inst = guard_instantiations(F)

    def _defs(self, fn):
        from cao.facts import DefUse
        c = getattr(fn, "_rooting_du", None)
        if c is None:
            c = DefUse(fn).defs
            fn._rooting_du = c
        return c

    def run(self, fn, param_sources=(), capture_sources=None):
        """Returns (hazards, returns_unrooted: bool, closure_seeds: {closure short: {capture name: origin label}});
        afterwards self.last_return_source names the primitive source (callee) of the unrooted value fn returns, if any"""
        self.fn = fn
        blocks = fn.blocks
        nloc = len(fn.mir["locals"])
        origins = []           # id -> dict(kind, label, ln)
        origin_of_site = {}

        def new_origin(site, kind, label, ln, active=True):
            if site in origin_of_site:
                return origin_of_site[site]
            origins.append({"kind": kind, "label": label, "ln": ln, "active": active, "source": None})
            origin_of_site[site] = len(origins) - 1
            return origin_of_site[site]

        entry = {}
        for l in param_sources:
            oid = new_origin(("param", l), "param", fn.local_name(l) or "arg%d" % l, fn.line)
            entry[l] = frozenset([(oid, True, None)])
        if capture_sources:
            # closure: local 1 is the closure env; captured fields are seeded lazily when projected
            pass
        self.capture_sources = capture_sources or {}
        IN = {0: entry}
        work = deque([0])
        hazards = {}
        guard_locals = set(l for l in range(nloc) if "ObjectGcGuard" in fn.local_ty(l) and not fn.local_ty(l).startswith("&"))
        ret_unrooted = [False]
        ret_sources = set()
        seeds = defaultdict(dict)

        def taint_of_place(state, p):
            base = state.get(p["l"], frozenset())
            if not p["p"]:
                return base
            out = set()
            # closure captured variable: (*_1).name
            if self.capture_sources and p["l"] == 1:
                names = [e["name"] for e in p["p"] if e["k"] == "field"]
                if names and names[0] in self.capture_sources:
                    lab = self.capture_sources[names[0]]
                    oid = new_origin(("capture", names[0]), "captured", lab, fn.line)
                    out.add((oid, len(names) == 1, None))
            for (oid, direct, crossed) in base:
                keep_direct = False
                if direct and all(e["k"] in ("cindex", "deref") for e in p["p"]):
                    keep_direct = True   # element of a pop_n array / deref of a ref to the value
                out.add((oid, keep_direct, crossed))
            # guard payload: guard.0
            if p["l"] in guard_locals:
                oid = new_origin(("guard", p["l"]), "guard", fn.local_name(p["l"]) or "guard", fn.line, active=False)
                out.add((oid, False, None))
            return frozenset(out)

        def taint_of_operand(state, op):
            p = op_place(op)
            if p is None:
                return frozenset()
            return taint_of_place(state, p)

        def note_hazard(kind, call_label, oid, ln, detail):
            o = origins[oid]
            if not o["active"]:
                return
            key = (call_label, o["label"], kind)
            if key not in hazards:
                hazards[key] = {"kind": kind, "callee": call_label, "origin": o["label"], "origin_kind": o["kind"],
                                "origin_ln": o["ln"], "ln": ln, "detail": detail}

        def reads_of_stmt(st):
            out = []
            if st["k"] == "assign":
                rv = st["rv"]
                k = rv["k"]
                ops = []
                if k in ("use", "cast", "repeat"):
                    ops = [rv["op"]]
                elif k == "bin":
                    ops = [rv["l"], rv["r"]]
                elif k == "un":
                    ops = [rv["x"]]
                elif k == "agg":
                    ops = rv["ops"]
                for o in ops:
                    p = op_place(o)
                    if p is not None:
                        out.append(p)
                if k in ("discr",):
                    out.append(rv["place"])
                # taking a reference is not a read of the object; the later use of the reference is
                dst = st["place"]
                if dst["p"]:
                    out.append({"l": dst["l"], "p": []})
            return out

        # temp = &mut local  (sole definition)
        mutref_of = {}
        ndefs = defaultdict(int)
        for blk in blocks:
            for st in blk["stmts"]:
                if st["k"] == "assign" and not st["place"]["p"]:
                    ndefs[st["place"]["l"]] += 1
                    if st["rv"]["k"] == "ref" and st["rv"]["mut"] == "mut" and not st["rv"]["place"]["p"]:
                        mutref_of[st["place"]["l"]] = st["rv"]["place"]["l"]
            if blk["term"]["k"] == "call":
                ndefs[blk["term"]["dest"]["l"]] += 1
        mutref_of = {k: v for k, v in mutref_of.items() if ndefs[k] == 1}

        while work:
            b = work.popleft()
            state = dict(IN.get(b, {}))
            blk = blocks[b]
            for st in blk["stmts"]:
                if st["k"] != "assign":
                    continue
                if not st.get("exp"):
                    for p in reads_of_stmt(st):
                        for (oid, direct, crossed) in taint_of_place(state, p):
                            if crossed is not None:
                                note_hazard("live-across", crossed[0], oid, crossed[1],
                                            "`%s` is used at line %s after the call" % (origins[oid]["label"], st.get("ln")))
                # transfer
                rv = st["rv"]
                dst = st["place"]
                k = rv["k"]
                t = frozenset()
                if k in ("use", "cast"):
                    t = taint_of_operand(state, rv["op"])
                    sp = op_place(rv["op"])
                    # element of a pop_n result: its own origin, named after the variable it is bound to
                    if sp is not None and len(sp["p"]) == 1 and sp["p"][0]["k"] == "cindex" and not dst["p"]:
                        nt = set()
                        for (oid, direct, crossed) in t:
                            if direct and origins[oid]["kind"] == "popped":
                                lab = fn.local_name(dst["l"]) or "%s[%d]" % (origins[oid]["label"], sp["p"][0]["offset"])
                                noid = new_origin(("elem", oid, sp["p"][0]["offset"]), "popped", lab, origins[oid]["ln"])
                                nt.add((noid, True, crossed))
                            else:
                                nt.add((oid, direct, crossed))
                        t = frozenset(nt)
                elif k in ("ref", "rawptr"):
                    t = taint_of_place(state, rv["place"])
                elif k == "agg":
                    acc = set()
                    for o in rv["ops"]:
                        for (oid, direct, crossed) in taint_of_operand(state, o):
                            one = len(rv["ops"]) == 1 and rv["agg"].get("k") == "adt"
                            acc.add((oid, direct and one, crossed))
                    t = frozenset(acc)
                    if rv["agg"]["k"] == "closure":
                        # remember which captures are tainted, to seed the closure body's analysis
                        cpath = short(rv["agg"]["path"])
                        cfn = self.F.fn(cpath, required=False)
                        if cfn is not None:
                            for cap, o in zip(cfn.captures, rv["ops"]):
                                tt = taint_of_operand(state, o)
                                act = [x for x in tt if origins[x[0]]["active"]]
                                if act:
                                    seeds[cpath][cap["name"]] = origins[act[0][0]]["label"]
                elif k in ("bin", "un", "discr", "repeat"):
                    t = frozenset()
                dty = fn.local_ty(dst["l"])
                if dst["p"]:
                    # write into part of a local: weak update
                    if t and ref_capable(dty):
                        state[dst["l"]] = state.get(dst["l"], frozenset()) | frozenset((o, False, c) for (o, d, c) in t)
                else:
                    if t and ref_capable(dty):
                        state[dst["l"]] = t
                    else:
                        state.pop(dst["l"], None)
            term = blk["term"]
            if term["k"] == "call":
                names = callee_names(term["func"])
                args = term["args"]
                if not term.get("exp"):
                    for a in args:
                        for (oid, direct, crossed) in taint_of_operand(state, a):
                            if crossed is not None:
                                note_hazard("live-across", crossed[0], oid, crossed[1],
                                            "`%s` is used at line %s after the call" % (origins[oid]["label"], term.get("ln")))
                gc_label = self.maygc.call_may_gc(term)
                if gc_label is not None:
                    label = gc_label.rsplit("::", 2)
                    label = "::".join(label[-2:]) if len(label) > 1 else gc_label
                    for a in args:
                        for (oid, direct, crossed) in taint_of_operand(state, a):
                            note_hazard("passed", label, oid, term.get("ln"),
                                        "`%s` is handed to %s, which may collect while using it" % (origins[oid]["label"], label))
                    for l in list(state.keys()):
                        state[l] = frozenset((o, d, c if c is not None else (label, term.get("ln"))) for (o, d, c) in state[l])
                # re-rooting
                if any(n in PUSH for n in names):
                    killed = set()
                    for a, aty in zip(args, term.get("arg_tys", [])):
                        if aty.replace(" ", "") in ("value::Value",):
                            for (oid, direct, crossed) in taint_of_operand(state, a):
                                if direct:
                                    killed.add(oid)
                    if killed:
                        for l in list(state.keys()):
                            ns = frozenset(x for x in state[l] if x[0] not in killed)
                            if ns:
                                state[l] = ns
                            else:
                                del state[l]
                # a tainted value handed to a call together with `&mut container` may be stored into the container
                # (Vec::push and friends): weak update of the referent
                targs = set()
                for a in args:
                    for x in taint_of_operand(state, a):
                        targs.add((x[0], False, x[2]))
                if targs:
                    for a, aty in zip(args, term.get("arg_tys", [])):
                        if aty.startswith("&mut ") and ref_capable(aty):
                            p = op_place(a)
                            if p is not None and not p["p"] and p["l"] in mutref_of:
                                tgt = mutref_of[p["l"]]
                                if ref_capable(fn.local_ty(tgt)):
                                    state[tgt] = state.get(tgt, frozenset()) | frozenset(targs)
                # destination
                dst = term["dest"]
                dty = fn.local_ty(dst["l"])
                t = set()
                released_param = None
                if fn.short in self.guard_inst and any(n.endswith("convert::Into::into") or n.endswith("convert::From::from") for n in names) and args:
                    p0 = op_place(args[0])
                    if p0 is not None and not p0["p"]:
                        src = p0["l"]
                        # follow `_6 = move key`
                        for _ in range(4):
                            if src in self.guard_inst[fn.short]:
                                released_param = src
                                break
                            ds = [d for d in self._defs(fn).get(src, []) if d[2] == "assign" and not d[3]["place"]["p"]]
                            if len(ds) != 1 or ds[0][3]["rv"]["k"] != "use":
                                break
                            q = op_place(ds[0][3]["rv"]["op"])
                            if q is None or q["p"]:
                                break
                            src = q["l"]
                if released_param is not None:
                    callers = sorted(set(c.rsplit("::", 1)[-1] for c, _l in self.guard_inst[fn.short][released_param]))
                    lab = "%s.into() [guard moved in by %s]" % (fn.local_name(released_param) or "arg", ", ".join(callers))
                    oid = new_origin(("call", b), "unrooted-result", lab, term.get("ln"))
                    t.add((oid, True, None))
                elif any(n in POP for n in names) or any(n in self.returns_unrooted for n in names) or any(n in RELEASE for n in names) \
                        or any("From<vm::runtime::cao_lang_object::ObjectGcGuard>" in n for n in names):
                    nm = fn.local_name(dst["l"])
                    # a wrapper that hands on the unrooted result of X is named X: the origin keeps its name when
                    # "push the arguments, call X" is extracted into a helper
                    source = next((self.returns_unrooted[n] for n in names if self.returns_unrooted.get(n)), None) \
                        or names[-1].rsplit("::", 1)[-1]
                    lab = nm or source
                    oid = new_origin(("call", b), "popped" if any(n in POP for n in names) else "unrooted-result", lab, term.get("ln"))
                    origins[oid]["source"] = source
                    t.add((oid, True, None))
                else:
                    for a in args:
                        for (oid, direct, crossed) in taint_of_operand(state, a):
                            t.add((oid, False, crossed))
                if not dst["p"]:
                    if t and ref_capable(dty):
                        state[dst["l"]] = frozenset(t)
                    else:
                        state.pop(dst["l"], None)
            elif term["k"] == "return":
                for (oid, direct, crossed) in state.get(0, frozenset()):
                    # a value that merely derives from a parameter is not a *new* unrooted result: if the caller's argument is
                    # unrooted the call result inherits that taint from the argument anyway (see `destination` above)
                    if (origins[oid]["active"] and origins[oid]["kind"] != "param") or origins[oid]["kind"] == "guard":
                        if ref_capable(fn.local_ty(0)):
                            ret_unrooted[0] = True
                            if origins[oid].get("source"):
                                ret_sources.add((origins[oid]["ln"] or 0, origins[oid]["source"]))
            # name origins after the user variable they are first copied into
            for s_ in term_succs(term):
                old = IN.get(s_)
                if old is None:
                    IN[s_] = dict(state)
                    work.append(s_)
                else:
                    changed = False
                    for l, ts in state.items():
                        if l not in old:
                            old[l] = ts
                            changed = True
                        elif not ts <= old[l]:
                            old[l] = old[l] | ts
                            changed = True
                    if changed and s_ not in work:
                        work.append(s_)
        # improve labels: an origin whose destination is a temp gets the name of the user variable it flows to
        self.last_return_source = sorted(ret_sources)[0][1] if ret_sources else None
        return list(hazards.values()), ret_unrooted[0], seeds


def label_origins_by_user_var(fn):
    """temp local -> user variable name it is moved into (single `user = move temp`)"""
    out = {}
    for b in fn.blocks:
        for st in b["stmts"]:
            if st["k"] == "assign" and not st["place"]["p"] and st["rv"]["k"] == "use":
                p = op_place(st["rv"]["op"])
                if p is not None and not p["p"] and fn.local_name(st["place"]["l"]) and not fn.local_name(p["l"]):
                    out.setdefault(p["l"], fn.local_name(st["place"]["l"]))
    return out
