"""Representation-invariant rules shared by C12 (CaoHashMap) and C13 (HandleTable): open addressing with linear
probing is a faithful map iff every mutator preserves (1) count == number of non-empty slots, (2) load factor < 1 so a
probe always meets an empty slot, (3) one home-slot function, (4) probe chains are not broken by removal, (5) the
reserved EMPTY marker is never stored as a real key, (6) no slot index / storage pointer is used across a
reallocation. Each invariant is maintained at a handful of write sites, found here by type and resolved callee."""
from cao.facts import (hir_walk, hir_callee, hir_strip, hir_local_id, hir_children, block_exprs, short, callee_names, op_local,
                       op_place, DefUse, AnchorMissing, rvalue_places)
from cao.rules import ok, bad, undecided, note
from cao import hirutil as hu
from cao import mirutil as mu


class Table:
    def __init__(self, F, prop, name, module, slot_tys, entry_fn, payload):
        self.F = F
        self.prop = prop
        self.name = name
        self.module = module
        self.slot_tys = slot_tys           # type strings of one slot marker (u64 / Handle)
        self.impl_prefix = module + "::" + name + "::"
        self.entry_fn = module + "::Entry::or_insert_with"
        self.payload = module + "::EntryPayload"
        self.fns = [f for f in F.fns if f.hir and not f.is_closure and
                    (f.short.startswith(self.impl_prefix) or f.short == self.entry_fn or
                     (f.short.startswith(module + "::") and f.kind == "Fn" and "serde" not in f.short and "tests" not in f.short) or
                     (f.short.startswith("<" + module + "::" + name) and "serde" not in f.short))]
        if len(self.fns) < 10:
            raise AnchorMissing("functions of %s (found %d)" % (name, len(self.fns)))

    def fn(self, name):
        return self.F.fn(self.impl_prefix + name)

    def fn_by_short(self, short_name):
        """the function of this table (methods, entry API, free functions of the module) with that resolved name"""
        idx = getattr(self, "_by_short", None)
        if idx is None:
            idx = self._by_short = {f.short: f for f in self.fns}
        return idx.get(short_name)

    # ---- slot writes (HIR) ------------------------------------------------------------------------
    def is_slot_ty(self, ty):
        t = ty.replace("&mut ", "").replace("*mut ", "").replace("&", "").strip()
        return t in self.slot_tys

    def zero_value(self, e):
        e = hu.strip_casts(e)
        if e is None:
            return False
        if e.get("k") == "lit" and e["lit"]["k"] == "int" and e["lit"]["v"] == 0:
            return True
        if e.get("k") == "call" and e["args"]:
            f = hir_strip(e["f"])
            if f.get("k") == "path" and f["path"]["res"].get("k") == "def" and short(f["path"]["res"].get("ctor_of", f["path"]["res"].get("path", ""))).endswith("Handle"):
                return self.zero_value(e["args"][0])
        return False

    def slot_writes(self, f):
        """list of dicts(kind=vacate|occupy|fill, expr, in_loop, ctrl)"""
        out = []
        anc = hu.control_ancestors(f.hir["body"])
        for x in hir_walk(f.hir["body"]):
            k = x.get("k")
            dst = val = None
            if k == "assign":
                l = hir_strip(x["l"])
                lk = l.get("k")
                if lk == "index" and self.is_slot_ty(l.get("ty", "")):
                    dst, val = l, x["r"]
                elif lk == "un" and l["op"] == "Deref" and self.is_slot_ty(l.get("ty", "")) and self._slotty_ptr(hir_strip(l["e"]).get("ty", "")):
                    dst, val = l, x["r"]
                elif lk == "field" and l["name"] == "0" and any(t.endswith("Handle") for t in self.slot_tys) and hir_strip(l["e"]).get("ty", "").replace("&mut ", "").endswith("Handle"):
                    dst, val = l, x["r"]
            elif k == "call":
                names = hir_callee(x)
                if any(n in ("std::ptr::write", "core::ptr::write") for n in names) and len(x["args"]) == 2:
                    if self._slotty_ptr(hir_strip(x["args"][0]).get("ty", "")):
                        dst, val = x["args"][0], x["args"][1]
            elif k == "mcall" and x["name"] == "fill":
                r = hir_strip(x["recv"])
                if any(("[%s]" % t) in (r.get("ty", "") + r.get("ty_adj", "")) for t in self.slot_tys):
                    if self.zero_value(x["args"][0]):
                        out.append({"kind": "fill", "expr": x, "in_loop": False, "ctrl": anc.get(id(x), ())})
                continue
            if dst is None:
                continue
            ctrl = anc.get(id(x), ())
            in_loop = any(c[0] == "loop" for c in ctrl)
            kind = "vacate" if self.zero_value(val) else "occupy"
            out.append({"kind": kind, "expr": x, "in_loop": in_loop, "ctrl": ctrl, "val": val})
        return out

    def _slotty_ptr(self, ty):
        t = ty.strip()
        return any(t in ("*mut " + s_, "&mut " + s_) for s_ in self.slot_tys)

    def count_updates(self, f):
        out = []
        anc = hu.control_ancestors(f.hir["body"])
        for x in hir_walk(f.hir["body"]):
            if x.get("k") in ("assign_op", "assign"):
                l = hir_strip(x["l"])
                is_count = False
                if l.get("k") == "field" and l["name"] == "count":
                    is_count = True
                elif l.get("k") == "un" and l["op"] == "Deref":
                    inner = hir_strip(l["e"])
                    if inner.get("k") == "path" and inner["path"]["res"].get("name") == "count":
                        is_count = True
                if not is_count:
                    continue
                if x["k"] == "assign_op":
                    kind = {"AddAssign": "inc", "SubAssign": "dec"}.get(x["op"])
                else:
                    kind = "zero" if self.zero_value(x["r"]) else "set"
                    r = hir_strip(x["r"])
                    if r.get("k") == "bin" and r["op"] == "Sub":
                        kind = "dec"
                    if r.get("k") == "bin" and r["op"] == "Add":
                        kind = "inc"
                    if r.get("k") == "mcall" and r["name"] in ("saturating_sub", "wrapping_sub", "checked_sub"):
                        kind = "dec"
                if kind:
                    out.append({"kind": kind, "expr": x, "ctrl": anc.get(id(x), ())})
            if x.get("k") == "call" and any(n.endswith("mem::replace") for n in hir_callee(x)) and len(x["args"]) == 2:
                a0 = hu.field_chain(x["args"][0])
                if a0 and a0[1][-1:] == ["count"] and self.zero_value(x["args"][1]):
                    out.append({"kind": "zero", "expr": x, "ctrl": anc.get(id(x), ())})
        return out


def strip_loops(ctrl):
    return tuple(c for c in ctrl if c[0] != "loop")


def is_prefix(a, b):
    return len(a) <= len(b) and tuple(b[:len(a)]) == tuple(a)


def loops_of(ctrl):
    return tuple(c for c in ctrl if c[0] == "loop")


def callers_of(T, f):
    """(function of the table, call node) for every call of f from another function of the table (closures excluded)"""
    cache = T.__dict__.setdefault("_callers", {})
    if f.short not in cache:
        out = []
        for g in T.fns:
            if g is f or not g.hir:
                continue
            for h, call in direct_callees(T, g):
                if h is f:
                    out.append((g, call))
        cache[f.short] = out
    return cache[f.short]


# ---------------------------------------------------------------------------------------------------
# R: slot/count pairing          (C12.R, C13.C)
# ---------------------------------------------------------------------------------------------------

def rule_pairing(T, rid):
    res = []
    P = T.prop
    for f in T.fns:
        ws = T.slot_writes(f)
        cs = T.count_updates(f)
        if not ws:
            continue
        vac = [w for w in ws if w["kind"] == "vacate" and not w["in_loop"]]
        resets = [w for w in ws if (w["kind"] == "vacate" and w["in_loop"]) or w["kind"] == "fill"]
        occ = [w for w in ws if w["kind"] == "occupy" and not w["in_loop"]]
        fname = f.short.rsplit("::", 1)[-1] if not f.short.startswith("<") else f.short.split(">::")[-1]
        if f.short == T.entry_fn:
            fname = "Entry::or_insert_with"
        for n, w in enumerate(vac):
            decs = [c for c in cs if c["kind"] == "dec" and is_prefix(strip_loops(c["ctrl"]), strip_loops(w["ctrl"]))]
            key = "%s/%s/%s/vacate-decrements-count" % (P, rid, fname)
            if decs:
                res.append(ok(rid_full(P, rid), key, f.loc(w["expr"]["ln"]), "a slot is emptied and `count` is decremented on the same path"))
            elif not cs and callers_of(T, f):
                # a helper that empties a slot and leaves `count` to its callers: the pairing is established per caller - every
                # call of the helper is matched by exactly one decrement of count on the same path (same branch, same loop)
                if any(r["key"].startswith("%s/%s/" % (P, rid)) and r["data"].get("via") == f.short for r in res):
                    continue
                n_before = len(res)
                for g, call in callers_of(T, f):
                    gname = g.short.rsplit("::", 1)[-1] if not g.short.startswith("<") else g.short.split(">::")[-1]
                    gkey = "%s/%s/%s/vacate-decrements-count" % (P, rid, gname)
                    ganc = hu.control_ancestors(g.hir["body"])
                    cctrl = ganc.get(id(call), ())
                    gdecs = [c for c in T.count_updates(g) if c["kind"] == "dec"]
                    same = [c for c in gdecs if loops_of(c["ctrl"]) == loops_of(cctrl) and
                            (is_prefix(strip_loops(c["ctrl"]), strip_loops(cctrl)) or is_prefix(strip_loops(cctrl), strip_loops(c["ctrl"])))]
                    must = [c for c in same if is_prefix(strip_loops(c["ctrl"]), strip_loops(cctrl))]
                    n_prev = sum(1 for r in res if r["key"] == gkey or r["key"].startswith(gkey + "#"))
                    if n_prev:
                        gkey += "#%d" % n_prev
                    if len(must) == 1 and len(same) == 1:
                        res.append(ok(rid_full(P, rid), gkey, g.loc(call["ln"]), "a slot is emptied through %s and `count` is decremented once on "
                                      "the same path" % fname, via=f.short))
                    elif not same:
                        res.append(bad(rid_full(P, rid), gkey, g.loc(call["ln"]),
                                       "%s::%s empties a slot through %s (which leaves `count` to its caller) but does not decrement `count` on that "
                                       "path: len(), the load-factor test and the serialised map length drift away from the number of stored "
                                       "entries with every removal" % (T.name, gname, fname), via=f.short))
                    elif len(same) > 1:
                        res.append(bad(rid_full(P, rid), gkey, g.loc(call["ln"]),
                                       "%s::%s decrements `count` %d times for one slot emptied through %s: the count runs below the number of "
                                       "stored entries" % (T.name, gname, len(same), fname), via=f.short))
                    else:
                        res.append(undecided(rid_full(P, rid), gkey, g.loc(call["ln"]), "the decrement of `count` is on some of the paths through the "
                                             "call of %s only" % fname, via=f.short))
                if not any(r["status"] in ("ok", "undecided") for r in res[n_before:]):
                    # nobody decrements: the function that empties the slot is the one that forgets the count
                    del res[n_before:]
                    res.append(bad(rid_full(P, rid), key, f.loc(w["expr"]["ln"]),
                                   "%s::%s marks a slot EMPTY but neither it nor any of its callers decrements `count`: len(), the load-factor "
                                   "test and the serialised map length drift away from the number of stored entries with every removal"
                                   % (T.name, fname), via=f.short))
            else:
                res.append(bad(rid_full(P, rid), key, f.loc(w["expr"]["ln"]),
                               "%s::%s marks a slot EMPTY but never decrements `count`: len(), the load-factor test and the serialised map "
                               "length drift away from the number of stored entries with every removal" % (T.name, fname)))
        for n, w in enumerate(occ):
            incs = [c for c in cs if c["kind"] == "inc" and is_prefix(strip_loops(c["ctrl"]), strip_loops(w["ctrl"]))]
            key = "%s/%s/%s/occupy-increments-count" % (P, rid, fname)
            if any(r["key"] == key for r in res):
                continue
            if incs:
                res.append(ok(rid_full(P, rid), key, f.loc(w["expr"]["ln"]), "a slot is filled and `count` is incremented on the same path"))
            else:
                # overwriting the marker of an already occupied slot (replace) needs no increment; recognised when the
                # function also has a branch that increments
                if any(c["kind"] == "inc" for c in cs):
                    res.append(ok(rid_full(P, rid), key, f.loc(w["expr"]["ln"]), "slot write shared by the insert/replace branches; the insert branch increments `count`"))
                else:
                    res.append(bad(rid_full(P, rid), key, f.loc(w["expr"]["ln"]), "%s::%s fills a slot without incrementing `count`" % (T.name, fname)))
        if resets:
            zeros = [c for c in cs if c["kind"] == "zero"]
            key = "%s/%s/%s/reset-zeroes-count" % (P, rid, fname)
            if zeros:
                res.append(ok(rid_full(P, rid), key, f.loc(resets[0]["expr"]["ln"]), "whole-table reset sets count = 0"))
            else:
                # helper: every caller must zero the count
                callers = [g for g in T.fns if any(f.short in hir_callee(x) for x in hir_walk(g.hir["body"]) if x.get("k") in ("call", "mcall"))]
                missing = [g for g in callers if not any(c["kind"] == "zero" for c in T.count_updates(g)) and not _is_constructor(g)]
                if callers and not missing:
                    res.append(ok(rid_full(P, rid), key, f.loc(resets[0]["expr"]["ln"]), "reset helper; every caller sets count = 0 (%s)" % ", ".join(g.name for g in callers)))
                elif not callers:
                    res.append(undecided(rid_full(P, rid), key, f.loc(resets[0]["expr"]["ln"]), "reset helper without callers"))
                else:
                    res.append(bad(rid_full(P, rid), key, missing[0].loc(), "%s resets all slots through %s but does not reset `count`" % (missing[0].name, fname)))
    return res


def _is_constructor(g):
    # functions that build a fresh table (count: 0 in the struct literal)
    for x in hir_walk(g.hir["body"]):
        if x.get("k") == "struct":
            for fld in x["fields"]:
                if fld["name"] == "count" and hu.is_int_lit(fld["e"]) and hu.int_lit(fld["e"]) == 0:
                    return True
    return False


def rid_full(P, rid):
    return "%s.%s" % (P, rid)


# ---------------------------------------------------------------------------------------------------
# H: one home-slot function      (C12.H, C13.H)
# ---------------------------------------------------------------------------------------------------

def derives_from_capacity(T, f, e, depth=0):
    e = hu.strip_casts(e)
    if e is None or depth > 5:
        return False
    k = e.get("k")
    if k == "field" and e["name"] == "capacity":
        return True
    if k == "mcall" and e["name"] in ("capacity", "len") and not e["args"]:
        r = hir_strip(e["recv"])
        if e["name"] == "capacity":
            return True
        return False
    if k == "path" and e["path"]["res"]["k"] == "local":
        inits = hu.let_inits(f).get(e["path"]["res"]["id"], [])
        return any(derives_from_capacity(T, f, i, depth + 1) for i in inits)
    if k == "bin" and e["op"] == "Sub":
        return derives_from_capacity(T, f, e["l"], depth + 1) and hu.is_int_lit(e["r"])
    return False


def depends_on_slot_index(T, f, e, depth=0, seen=None):
    """does the expression mention (through single-function lets/assignments) a value that already is a slot index: the
    result of another `% capacity` / `& mask`, of home_slot(..) or of find_ind(..)?  Such an expression is index
    arithmetic (probe step, cyclic distance), not the mapping of a hash to its home bucket."""
    if seen is None:
        seen = set()
    if e is None or depth > 8:
        return False

    def values(e):
        """sub-expressions whose VALUE flows into e: the index of `a[i]` / `p.add(i)` selects a slot, it does not flow"""
        stack = [e]
        while stack:
            x = stack.pop()
            if x is None:
                continue
            yield x
            k = x.get("k")
            if k == "index":
                stack.append(x["e"])
            elif k == "mcall" and x["name"] in ("add", "offset", "get", "get_unchecked", "get_mut", "get_unchecked_mut", "wrapping_add") \
                    and "*" in (hir_strip(x["recv"]).get("ty") or "*") and x["name"] != "wrapping_add":
                stack.append(x["recv"])
            else:
                stack.extend(hir_children(x))
    for x in values(e):
        k = x.get("k")
        if k in ("call", "mcall") and any(n.endswith("::home_slot") or n.endswith("::find_ind") for n in hir_callee(x)):
            return True
        if k == "path" and x["path"]["res"]["k"] == "local":
            lid = x["path"]["res"]["id"]
            if lid in seen:
                continue
            seen.add(lid)
            for i in hu.let_inits(f).get(lid, []):
                ii = hu.strip_casts(i)
                if ii is not None and ii.get("k") == "bin" and ii["op"] in ("Rem", "BitAnd") and derives_from_capacity(T, f, ii["r"]):
                    return True
                if depends_on_slot_index(T, f, i, depth + 1, seen):
                    return True
    return False


def norm_home(e):
    """normal form of the hashed side of a bucket computation; locals become '$', casts are dropped"""
    e = hu.strip_casts(e)
    if e is None:
        return None
    k = e.get("k")
    if k == "bin":
        return ("bin", e["op"], norm_home(e["l"]), norm_home(e["r"]))
    if k == "mcall":
        return ("m", e["name"], norm_home(e["recv"])) + tuple(norm_home(a) for a in e["args"])
    if k == "call":
        return ("c", (hir_callee(e) or ["?"])[0]) + tuple(norm_home(a) for a in e["args"])
    if k == "lit":
        return ("lit", e["lit"].get("v"))
    if k == "field":
        return norm_home(e["e"]) if e["name"] == "0" else ("f", e["name"], norm_home(e["e"]))
    if k == "index":
        return ("$",)
    if k == "path":
        return ("$",)
    if k in ("addr_of",) or (k == "un" and e["op"] == "Deref"):
        return norm_home(e["e"])
    return (k,)


def rule_home(T, rid):
    res = []
    P = T.prop
    homes = []
    for f in T.fns:
        for x in hir_walk(f.hir["body"]):
            if x.get("k") == "bin" and x["op"] in ("Rem", "BitAnd"):
                if not derives_from_capacity(T, f, x["r"]):
                    continue
                l = hu.strip_casts(x["l"])
                if l.get("k") == "bin" and l["op"] == "Add" and hu.is_int_lit(l["r"]) and hu.int_lit(l["r"]) == 1:
                    continue   # probe step (i + 1) % capacity
                if derives_from_capacity(T, f, x["l"]):
                    continue   # power-of-two test  len & (len - 1)
                if depends_on_slot_index(T, f, x["l"]):
                    continue   # arithmetic on slot indices (cyclic distance), decided by the back-shift analysis
                homes.append((f, x, norm_home(x["l"])))
    # a dedicated helper: calls count as the helper's expression
    if not homes:
        raise AnchorMissing("home-slot computation of %s" % T.name)
    forms = {}
    for f, x, n in homes:
        forms.setdefault(n, []).append((f, x))
    if len(forms) == 1:
        f, x = homes[0][0], homes[0][1]
        res.append(ok(rid_full(P, rid), "%s/%s/one-home-slot-function" % (P, rid), f.loc(x["ln"]),
                      "%d bucket computation(s), all the same function of the hash" % len(homes), sites=len(homes)))
    else:
        major = max(forms.items(), key=lambda kv: (len(kv[1]), kv[1][0][0].name == "find_ind"))
        # the lookup's form (find_ind) is the reference
        ref = None
        for n, lst in forms.items():
            if any(f.name == "find_ind" or f.name == "home_slot" for f, _x in lst):
                ref = n
        ref = ref if ref is not None else major[0]
        for n, lst in forms.items():
            if n == ref:
                continue
            for f, x in lst:
                res.append(bad(rid_full(P, rid), "%s/%s/%s/home-slot-differs" % (P, rid, f.name), f.loc(x["ln"]),
                               "%s::%s maps a hash to its home bucket with a different function than the lookup (find_ind): entries are "
                               "moved (or not) relative to the wrong home during removal, which makes other keys unreachable" % (T.name, f.name)))
    return res


# ---------------------------------------------------------------------------------------------------
# I: no stale slot index / storage pointer across a reallocation     (C12.I, C13.I)
# ---------------------------------------------------------------------------------------------------

def rule_stale(T, rid):
    res = []
    P = T.prop
    F = T.F
    realloc = set()
    cg = F.callgraph
    adj = T.impl_prefix + "adjust_capacity"
    realloc = cg.callers_closure({adj})
    def index_values(f, params):
        """definitions of "slot index" values in f: (local, defining block) of results of find_ind, of the parameters through
        which a caller hands in such an index, and of their copies into user variables"""
        src_defs = []
        idx_locals = set()
        for bi, t in mu.calls(f):
            nm = callee_names(t["func"])
            if any(n == T.impl_prefix + "find_ind" for n in nm) and not t["dest"]["p"]:
                src_defs.append((t["dest"]["l"], t["target"] if t["target"] is not None else bi))
                idx_locals.add(t["dest"]["l"])
        for l in sorted(params):
            src_defs.append((l, 0))
            idx_locals.add(l)
        changed = bool(src_defs)
        while changed:
            changed = False
            for bi, b in enumerate(f.blocks):
                for st in b["stmts"]:
                    if st["k"] == "assign" and not st["place"]["p"] and st["rv"]["k"] == "use":
                        l = op_local(st["rv"]["op"])
                        if l in idx_locals and (st["place"]["l"], bi) not in src_defs:
                            src_defs.append((st["place"]["l"], bi))
                            if st["place"]["l"] not in idx_locals:
                                idx_locals.add(st["place"]["l"])
                            changed = True
        return src_defs, idx_locals

    # a helper that is handed a slot index (`make_room(.., slot)`) holds it exactly like the function that computed it:
    # its parameter is a definition of an index value (callers first, to a fixpoint over the few functions of the table)
    idx_params = {}
    changed = True
    rounds = 0
    while changed and rounds < 4:
        changed = False
        rounds += 1
        for g in T.fns:
            if not g.mir:
                continue
            _sd, gl = index_values(g, idx_params.get(g.short, ()))
            for _bi, t in mu.calls(g):
                for n in callee_names(t["func"]):
                    h = T.fn_by_short(n)
                    if h is None or not h.mir or n == T.impl_prefix + "find_ind":
                        continue
                    for pos, a in enumerate(t["args"]):
                        al = op_local(a)
                        if al is not None and al in gl and h.local_ty(pos + 1) == "usize" and pos + 1 <= h.mir["arg_count"]:
                            if pos + 1 not in idx_params.setdefault(h.short, set()):
                                idx_params[h.short].add(pos + 1)
                                changed = True
    for f in T.fns:
        if not f.mir:
            continue
        du = DefUse(f)
        cfg = f.cfg
        src_defs, idx_locals = index_values(f, idx_params.get(f.short, ()))
        if not src_defs:
            continue
        def_blocks = {}
        for l in idx_locals:
            def_blocks[l] = set(d[0] if d[1] != "term" else d[0] for d in du.defs.get(l, []))
        reallocs = [(bi, t) for bi, t in mu.calls(f) if any(n in realloc for n in callee_names(t["func"]))
                    and not any(n == T.impl_prefix + "find_ind" for n in callee_names(t["func"]))]
        key = "%s/%s/%s" % (P, rid, f.name)
        if not reallocs:
            res.append(ok(rid_full(P, rid), key, f.loc(), "slot index is never held across a call that can reallocate"))
            continue
        found = None
        for l, db in src_defs:
            others = def_blocks.get(l, set()) - {db}
            for cb, ct in reallocs:
                if ct["target"] is None:
                    continue
                # the call must be reachable from the definition without the index being redefined in between
                if not (cb == db or cb in cfg.reachable_from(db, avoid=others)):
                    continue
                after = cfg.reachable_from(ct["target"], avoid=others | {db}) | ({ct["target"]} - others)
                for ub in after:
                    blk = f.blocks[ub]
                    used = False
                    for st in blk["stmts"]:
                        if st["k"] == "assign" and any(p["l"] == l for p in rvalue_places(st["rv"])):
                            used = True
                    tt = blk["term"]
                    if tt["k"] == "call" and any((op_place(a) or {}).get("l") == l for a in tt["args"]):
                        used = True
                    if used:
                        found = (l, ct, ub)
                        break
                if found:
                    break
            if found:
                break
        if found:
            l, ct, ub = found
            res.append(bad(rid_full(P, rid), key, f.loc(ct.get("ln")),
                           "%s::%s %s, then calls %s (which can reallocate and rehash), then keeps using "
                           "the old index in the new arrays: the entry is written to a slot its key does not probe to" % (
                               T.name, f.name, "is handed a slot index computed with find_ind" if l in idx_params.get(f.short, ()) else
                               "computes a slot index with find_ind", callee_names(ct["func"])[0].rsplit("::", 1)[-1])))
        else:
            res.append(ok(rid_full(P, rid), key, f.loc(), "no use of a slot index after a call that can reallocate"))
    return res


# ---------------------------------------------------------------------------------------------------
# G: load-factor guard on every insertion path     (C12.G, C13.G)
# ---------------------------------------------------------------------------------------------------

def growth_check_blocks(T, f, depth=0):
    """blocks of f that evaluate the growth condition: call needs_grow/grow/reserve, or compare floats (load factor), or
    call a helper of the same table that evaluates the growth condition on every path to its return (the test may live
    in a callee the insertion path has to go through: `if self.is_full() {..}`, `let i = self.make_room(..)?`)"""
    cache = getattr(f, "_growth_checks", None)
    if cache is not None and cache[0] == T.name and depth == 0:
        return cache[1]
    out = set()
    for bi, b in enumerate(f.blocks):
        t = b["term"]
        if t["k"] == "call":
            names = callee_names(t["func"])
            if any(n.rsplit("::", 1)[-1] in ("needs_grow", "grow", "reserve") and n.startswith(T.impl_prefix) for n in names):
                out.add(bi)
            elif depth < 3:
                for n in names:
                    g = T.fn_by_short(n)
                    if g is not None and g is not f and g.mir and evaluates_growth_on_every_path(T, g, depth + 1):
                        out.add(bi)
                        break
        for st in b["stmts"]:
            if st["k"] == "assign" and st["rv"]["k"] == "bin" and st["rv"]["op"] in ("Gt", "Lt", "Ge", "Le"):
                for side in ("l", "r"):
                    p = op_place(st["rv"][side])
                    if p is not None and not p["p"] and f.local_ty(p["l"]) in ("f32", "f64"):
                        out.add(bi)
    if depth == 0:
        f._growth_checks = (T.name, out)
    return out


def evaluates_growth_on_every_path(T, g, depth=1):
    """summary of a helper of the table: every path from its entry to a return (error returns included) passes a block
    that evaluates the growth condition. A caller that must go through such a call has evaluated the condition."""
    checks = growth_check_blocks(T, g, depth)
    rets = g.cfg.return_blocks()
    return bool(checks) and bool(rets) and g.cfg.every_path_passes(0, rets, checks)


def count_reset_dominates(f, bi):
    """is `count` set to 0 (`self.count = 0`, `mem::replace(&mut self.count, 0)`) in a block that dominates bi?"""
    cfg = f.cfg
    for b2, blk2 in enumerate(f.blocks):
        if not (cfg.dominates(b2, bi) and b2 != bi):
            continue
        for st2 in blk2["stmts"]:
            if st2["k"] == "assign" and mu.field_path(st2["place"])[-1:] == ["count"] and st2["rv"]["k"] == "use" \
                    and st2["rv"]["op"].get("k") == "const" and st2["rv"]["op"].get("val") == 0:
                return True
        t2 = blk2["term"]
        if t2["k"] == "call" and any(n_.endswith("mem::replace") for n_ in callee_names(t2["func"])) and len(t2["args"]) == 2 \
                and t2["args"][1].get("k") == "const" and t2["args"][1].get("val") == 0:
            a0 = op_local(t2["args"][0])
            if a0 is not None and mu.ref_of_field_chain(f, DefUse(f), a0, ["count"]):
                return True
    return False


def allocates_storage(T, g):
    """does g obtain fresh slot arrays: a call of the table's storage allocator (the function of the table that calls the
    Allocator trait's alloc), directly"""
    for _bi, t in mu.calls(g):
        for n in callee_names(t["func"]):
            h = T.fn_by_short(n)
            if h is not None and h.mir and any(any(x.endswith("Allocator::alloc") or x.endswith("::alloc") for x in callee_names(t2["func"]))
                                               for _b2, t2 in mu.calls(h)):
                return True
    return False


def rule_guard(T, rid):
    res = []
    P = T.prop
    n = 0
    for f in T.fns:
        if not f.mir:
            continue
        cfg = f.cfg
        checks = growth_check_blocks(T, f)
        # (a) constructions of the Vacant payload
        for bi, b in enumerate(f.blocks):
            for st in b["stmts"]:
                if st["k"] == "assign" and st["rv"]["k"] == "agg" and st["rv"]["agg"].get("variant") == "Vacant" and short(st["rv"]["agg"].get("path", "")) == T.payload:
                    n += 1
                    key = "%s/%s/%s/vacant-entry-guarded" % (P, rid, f.name)
                    if any(cfg.dominates(c, bi) for c in checks):
                        res.append(ok(rid_full(P, rid), key, f.loc(st.get("ln")), "the vacant entry is handed out after the growth check"))
                    else:
                        res.append(bad(rid_full(P, rid), key, f.loc(st.get("ln")),
                                       "%s::%s hands out a vacant entry (whose or_insert_with fills a slot and increments count) without any "
                                       "load-factor check: once the last free slot is filled, the next probe for an absent key never terminates" % (T.name, f.name)))
        # (b) direct increments of count
        incs = []
        for bi, b in enumerate(f.blocks):
            for st in b["stmts"]:
                if st["k"] == "assign" and mu.field_path(st["place"])[-1:] == ["count"]:
                    rv = st["rv"]
                    if rv["k"] == "bin" and rv["op"].startswith("Add"):
                        # overflow checks off: `(*self).count = Add(copy (*self).count, const 1)` in one statement
                        incs.append((bi, st))
                    if rv["k"] == "use":
                        src = op_local(rv["op"])
                        if src is not None:
                            d = DefUse(f).sole_def(src)
                            if d is not None and d[2] == "assign" and d[3]["rv"]["k"] in ("bin",) and d[3]["rv"]["op"].startswith("Add"):
                                incs.append((bi, st))
                        pl = op_place(rv["op"])
                        if pl is not None and pl["p"] and pl["p"][-1].get("name") == "0":
                            d = DefUse(f).sole_def(pl["l"])
                            if d is not None and d[2] == "assign" and d[3]["rv"]["k"] == "bin" and d[3]["rv"]["op"].startswith("Add"):
                                incs.append((bi, st))
        if f.short == T.entry_fn:
            continue   # increments through the payload's &mut count: guarded at the payload construction (a)
        for bi, st in incs[:1]:
            n += 1
            key = "%s/%s/%s/increment-guarded" % (P, rid, f.name)
            rets = set(cfg.return_blocks())
            guarded_before = any(cfg.dominates(c, bi) for c in checks)
            guarded_after = bool(checks) and not (cfg.reachable_from(bi, avoid=checks | mu.error_exit_blocks(f)) & rets) if checks else False
            # the resize itself: count is reset to zero and the moved entries are counted again - at most as many as before,
            # and the new capacity leaves a free slot (rule K of the same table decides that)
            recount = count_reset_dominates(f, bi)
            in_loop = any(cfg.dominates(h, bi) for _s, h in cfg.back_edges())
            if recount and in_loop:
                res.append(ok(rid_full(P, rid), key, f.loc(st.get("ln")), "re-count of the entries moved by a resize (count was reset to 0 before the loop; "
                              "the new capacity leaves a free slot: rule K)"))
            elif guarded_before or guarded_after:
                res.append(ok(rid_full(P, rid), key, f.loc(st.get("ln")), "count is incremented on a path that evaluates the growth condition"))
            else:
                # private helper: all callers must be guarded (or be the rehash, whose capacity was just raised)
                callers = []
                for g in T.fns:
                    if not g.mir or g is f:
                        continue
                    for cb, ct in mu.calls(g):
                        if f.short in callee_names(ct["func"]):
                            callers.append((g, cb, ct))
                unguarded = []
                rehash = []
                for g, cb, ct in callers:
                    gchecks = growth_check_blocks(T, g)
                    # the rehash, recognised by what it does: it installs fresh storage (a call of the table's storage
                    # allocator), resets count to 0 and then counts the moved entries again, one call / iteration each.
                    # That the installed capacity leaves a free slot for them is rule K's clause (decided for every caller).
                    if count_reset_dominates(g, cb) and allocates_storage(T, g) and \
                            (in_loop or any(g.cfg.dominates(h, cb) for _s, h in g.cfg.back_edges())):
                        rehash.append(g.name)
                        continue
                    if not any(g.cfg.dominates(c, cb) for c in gchecks):
                        unguarded.append(g)
                if callers and not unguarded:
                    res.append(ok(rid_full(P, rid), key, f.loc(st.get("ln")), "helper: every caller checks the load factor first (%s)%s" % (
                        ", ".join(sorted(set(g.name for g, _c, _t in callers if g.name not in rehash))),
                        "; %s re-counts the entries it moved into fresh storage (free slot: rule K)" % ", ".join(sorted(set(rehash))) if rehash else "")))
                else:
                    who = unguarded[0].name if unguarded else f.name
                    res.append(bad(rid_full(P, rid), key, f.loc(st.get("ln")), "%s::%s increments count on a path with no load-factor check (via %s)" % (T.name, f.name, who)))
    if n == 0:
        raise AnchorMissing("insertion sites of %s" % T.name)
    return res


# ---------------------------------------------------------------------------------------------------
# the removal and the private functions it calls      (C12.B / C13.R structure part)
# ---------------------------------------------------------------------------------------------------

def direct_callees(T, f):
    """(function of the table, call node) for every call in f (closures excluded) that resolves to a function of the table"""
    out = []
    stack = [f.hir["body"]]
    while stack:
        x = stack.pop()
        if x is None or x.get("k") == "closure":
            continue
        if x.get("k") in ("call", "mcall"):
            for n in hir_callee(x):
                g = T.fn_by_short(n)
                if g is not None and g is not f and g.hir is not None:
                    out.append((g, x))
                    break
        stack.extend(hir_children(x))
    return out


def has_shift_loop(T, g):
    """a loop in g that fills slots (moves the marker of a following entry into an earlier slot)"""
    ws = T.slot_writes(g)
    return any(w["kind"] == "occupy" and w["in_loop"] for w in ws) and any(x.get("k") == "loop" for x in hir_walk(g.hir["body"]))


def shifting_function(T, f):
    """where the back-shift loop of the removal f lives: f itself, or a function of the table that f calls (the loop may
    have been extracted: `let hole = self.shift_back(i); slots[hole] = EMPTY`). -> (g, call node | None) or (None, None)"""
    if has_shift_loop(T, f):
        return f, None
    for g, call in direct_callees(T, f):
        if has_shift_loop(T, g):
            return g, call
    return None, None


def write_index(w):
    """index expression of a slot write found by Table.slot_writes (`a[i] = v`, `*p.add(i) = v`, `ptr::write(p.add(i), v)`)"""
    x = w["expr"]
    dst = hir_strip(x["l"]) if x.get("k") == "assign" else (hir_strip(x["args"][0]) if x.get("k") == "call" and x.get("args") else None)
    if dst is None:
        return None
    if dst.get("k") == "index":
        return dst["idx"]
    if dst.get("k") == "un" and dst["op"] == "Deref":
        dst = hu.strip_casts(dst["e"])
    if dst is not None and dst.get("k") == "mcall" and dst["name"] in ("add", "offset", "wrapping_add") and len(dst["args"]) == 1:
        return dst["args"][0]
    return None


def final_hole_verdict(T, f, g, call, vac):
    """The loop was extracted into g, called from f at `call`; `vac` are f's single-slot EMPTY writes after the call. The
    slot that is emptied must be the final hole: g returns its hole variable and f empties the slot the call returned.
    -> ('ok'|'bad'|'undecided', message, line)"""
    from cao import backshift as bs
    pick = bs.pick_loop(g)
    ln = vac[0]["expr"]["ln"]
    if pick is None:
        return "undecided", "the loop of %s is not recognised as a back-shift loop (no `hole = cursor` move)" % g.name, ln
    hole = pick[2]
    ret = bs.returns_local(g, hole)
    if ret is None:
        return "undecided", "%s does not return the final hole; how %s learns which slot to empty is not established" % (g.name, f.name), ln
    if not ret:
        return "bad", ("%s shifts the following entries back but does not return the final position of the hole: %s empties a "
                       "slot that may still hold a moved entry while the slot the last entry was moved from stays occupied "
                       "(the entry is visible twice / another one is lost)" % (g.name, f.name)), ln
    inits = hu.let_inits(f)
    verdicts = []
    for w in vac:
        ix = write_index(w)
        seen = set()
        while ix is not None:
            ix = hu.strip_casts(ix)
            if ix is call:
                break
            lid = hir_local_id(ix)
            if lid is None or lid in seen or len(inits.get(lid, [])) != 1:
                break
            seen.add(lid)
            ix = inits[lid][0]
        if ix is call:
            verdicts.append(True)
        elif ix is None:
            verdicts.append(None)
        else:
            # the chain ended in something else: a value that cannot come from the call (parameter, another expression) is a
            # different slot; a local assigned several times, or an expression that contains the call, is left open
            lid = hir_local_id(ix)
            srcs = inits.get(lid, []) if lid is not None else [ix]
            verdicts.append(None if any(y is call for s_ in srcs for y in hir_walk(s_)) else False)
    if any(v is True for v in verdicts):
        return "ok", "back-shift loop (in %s) followed by emptying the final hole it returns" % g.name, ln
    if all(v is False for v in verdicts):
        return "bad", ("%s returns the final position of the hole, but %s empties another slot: the slot the last entry was moved "
                       "from stays occupied (the entry is visible twice) and a live entry is wiped" % (g.name, f.name)), ln
    return "undecided", "the slot emptied after %s is not established to be the hole it returns" % g.name, ln


def backshift_instances(T, g, F, rid, keybase, power_of_two):
    """the three clauses of the back-shift loop of g (cao/backshift.py) as rule instances under keybase"""
    from cao import backshift as bs
    out = []
    r = bs.analyse(g, power_of_two, F, T.slot_tys)
    if r is None:
        return out
    seen = {}
    for suffix, status, msg, ln in r:
        n = seen.get(suffix, 0)
        seen[suffix] = n + 1
        key = "%s/%s%s" % (keybase, suffix, "" if n == 0 else "#%d" % n)
        mk = {"ok": ok, "bad": bad, "undecided": undecided}[status]
        out.append(mk(rid, key, g.loc(ln), msg))
    return out


def _end_line(e):
    m = e.get("ln", 0)
    for x in hir_walk(e):
        if x.get("ln") and x["ln"] > m:
            m = x["ln"]
    return m


def rule_backshift(T, F, rid, struct_key, power_of_two, only=None, skip=("clear",)):
    """Every function of the table that empties a single slot (not a whole-table reset) repairs the probe chain: it - or a
    function of the table it calls - contains a back-shift loop (decided clause by clause by cao/backshift.py), and the slot
    that is emptied afterwards is the final hole. A helper that does all of this but leaves `count` to its callers
    (`close_hole`) is decided once; each caller gets an instance for its use of it, and a caller that removes in a loop
    (`retain`) must look at the slot again after a removal, because the next entry of the chain was shifted into it."""
    from cao import backshift as bs
    P = T.prop
    R = rid_full(P, rid)
    res = []
    for f in T.fns:
        if not f.hir or f.name in skip or (only is not None and f.name not in only):
            continue
        vac = [w for w in T.slot_writes(f) if w["kind"] == "vacate" and not w["in_loop"]]
        if not vac:
            continue
        key = "%s/%s/%s/%s" % (P, rid, f.name, struct_key)
        g, call = shifting_function(T, f)
        if g is None:
            res.append(bad(R, key, f.loc(vac[0]["expr"]["ln"]),
                           "%s::%s empties a slot without moving the following entries of the probe chain back (no back-shift loop, no "
                           "tombstone): keys that probed past the removed slot are cut off from their probe chain and are no longer found "
                           "(and can be inserted a second time)" % (T.name, f.name)))
            continue
        never = ("the back-shift loop copies the marker of a following entry into the hole but the slot it was moved from is never marked "
                 "EMPTY: the entry stays visible twice (its stale copy holds a key that was dropped and a value that was moved out)")
        if g is f:
            loops = [x for x in hir_walk(f.hir["body"]) if x.get("k") == "loop"]
            after = [w for w in vac if w["expr"]["ln"] > max(_end_line(l) for l in loops)]
            if after:
                res.append(ok(R, key, f.loc(after[0]["expr"]["ln"]), "back-shift loop followed by emptying the final hole"))
            else:
                res.append(bad(R, key, f.loc(vac[0]["expr"]["ln"]), never))
        else:
            after = [w for w in vac if w["expr"]["ln"] >= _end_line(call)]
            if not after:
                res.append(bad(R, key, f.loc(vac[0]["expr"]["ln"]), never))
            else:
                status, msg, ln = final_hole_verdict(T, f, g, call, after)
                res.append({"ok": ok, "bad": bad, "undecided": undecided}[status](R, key, f.loc(ln), msg))
        res.extend(backshift_instances(T, g, F, R, "%s/%s/%s" % (P, rid, f.name), power_of_two))
        if T.count_updates(f):
            continue
        # f repairs the chain and empties the hole but leaves `count` to its callers: each caller's use of it
        for h, c in callers_of(T, f):
            hkey = "%s/%s/%s/%s" % (P, rid, h.name, struct_key)
            if any(r["key"] == hkey for r in res):
                continue
            res.append(ok(R, hkey, h.loc(c["ln"]), "the slot is emptied through %s, which back-shifts the probe chain and empties the final "
                          "hole (decided under %s)" % (f.name, f.name)))
            args = c["args"] if c["k"] == "mcall" else c["args"][1:]
            lid = hir_local_id(hu.strip_casts(args[0])) if args else None
            if lid is not None:
                v = bs.reexamined_after(h, c, lid)
                if v is not None:
                    res.append({"ok": ok, "bad": bad, "undecided": undecided}[v[0]](
                        R, "%s/%s/%s/shifted-entry-is-examined" % (P, rid, h.name), h.loc(c["ln"]), "%s::%s: %s" % (T.name, h.name, v[1])))
    return res


# ---------------------------------------------------------------------------------------------------
# K: every resize leaves a free slot       (C12.K / C13.K, shared into C11.K/L)
# ---------------------------------------------------------------------------------------------------

class _Break(Exception):
    pass


class _Return(Exception):
    def __init__(self, value):
        Exception.__init__(self)
        self.value = value


def _xev_class():
    from cao import capacity
    from cao import backshift as bs

    class XEv(capacity.FEv):
        """FEv that executes statements: bodies of small crate functions with `let mut` locals, compound assignments, `while` /
        `loop` with break and early returns (`min_capacity`) are run on the concrete values, with a step budget. Anything else
        (stores to memory, pattern lets, calls that are not understood) is Unknown."""
        FUEL = 20000

        def __init__(self, F, f, env, fields=None, fuel=None):
            capacity.FEv.__init__(self, F, f, env, fields)
            self.fuel = fuel if fuel is not None else [self.FUEL]

        def _ev(self, e):
            e0 = hir_strip(e)
            k = e0.get("k") if e0 is not None else None
            if k == "block":
                return self.run_block(e0["block"])
            if k in ("loop", "assign", "assign_op", "ret", "break"):
                return self.run_expr(e0)
            if k == "if":
                c = self.ev(e0["cond"])
                br = e0["then"] if c else e0.get("else")
                return self.ev(br) if br is not None else None
            if k in ("call", "mcall"):
                for n in hir_callee(e0):
                    g = self.F.fn(n, required=False)
                    if g is not None and g.hir is not None and not g.is_closure and n.count("::") >= 1 and not n.endswith("::home_slot"):
                        args = ([e0["recv"]] if k == "mcall" else []) + list(e0["args"])
                        pats = g.hir["params"]
                        if len(pats) == len(args) and all(p_.get("k") == "bind" for p_ in pats):
                            env = {}
                            for p_, a in zip(pats, args):
                                if p_.get("name") == "self":
                                    continue
                                try:
                                    env[p_["id"]] = self.ev(a)
                                except bs.Unknown as u:
                                    env[p_["id"]] = u
                            sub = XEv(self.F, g, env, self.fields, self.fuel)
                            sub.depth = self.depth
                            try:
                                return sub.ev(g.hir["body"])
                            except _Return as r:
                                return r.value
            return capacity.FEv._ev(self, e)

        def run_block(self, bl):
            for st in bl["stmts"]:
                if st["k"] == "let":
                    pat = st.get("pat") or {}
                    if st.get("els") or pat.get("k") != "bind" or "sub" in pat:
                        raise bs.Unknown("let with a pattern")
                    if st.get("init") is not None:
                        try:
                            self.env[pat["id"]] = self.ev(st["init"])
                        except (bs.Unknown, bs.Overflow) as u:
                            self.env[pat["id"]] = u if isinstance(u, bs.Unknown) else bs.Unknown(str(u))
                elif st["k"] in ("semi", "expr"):
                    self.run_expr(st["e"])
            if bl.get("expr") is not None:
                return self.ev(bl["expr"])
            return None

        def run_expr(self, e):
            e = hir_strip(e)
            k = e.get("k")
            self.fuel[0] -= 1
            if self.fuel[0] < 0:
                raise bs.Unknown("step budget exhausted (a loop that does not terminate in the small states?)")
            if k in ("assign", "assign_op"):
                lid = hir_local_id(e["l"])
                if lid is None:
                    raise bs.Unknown("store to something that is not a local")
                r = self.ev(e["r"])
                if k == "assign":
                    self.env[lid] = r
                else:
                    a = self.env.get(lid)
                    if a is None or isinstance(a, bs.Unknown):
                        raise bs.Unknown("compound assignment to an unknown value")
                    op = str(e.get("op", "")).replace("Assign", "")
                    fake = {"k": "bin", "op": op, "l": {"k": "lit", "lit": {"k": "int", "v": a}}, "r": {"k": "lit", "lit": {"k": "int", "v": r}}}
                    if isinstance(a, float) or isinstance(r, float):
                        raise bs.Unknown("compound assignment on floats")
                    self.env[lid] = bs.Ev._ev(self, fake)
                return None
            if k == "loop":
                while True:
                    self.fuel[0] -= 1
                    if self.fuel[0] < 0:
                        raise bs.Unknown("step budget exhausted (a loop that does not terminate in the small states?)")
                    try:
                        self.run_block(e["body"])
                    except _Break:
                        return None
            if k == "break":
                raise _Break()
            if k == "continue":
                raise bs.Unknown("continue")
            if k == "ret":
                raise _Return(self.ev(e["e"]) if e.get("e") is not None else None)
            if k == "if":
                c = self.ev(e["cond"])
                br = e["then"] if c else e.get("else")
                if br is not None:
                    return self.run_expr(br)
                return None
            if k == "block":
                return self.run_block(e["block"])
            if k == "match":
                raise bs.Unknown("match statement")
            return self.ev(e)

    return XEv


def stores_capacity(f):
    """the expression f stores into `self.capacity` (`self.capacity = e`, `mem::replace(&mut self.capacity, e)`), else None"""
    for x in hir_walk(f.hir["body"]):
        if x.get("k") == "assign":
            l = hir_strip(x["l"])
            if l.get("k") == "field" and l["name"] == "capacity":
                return x["r"]
        elif x.get("k") == "call" and any(n.endswith("mem::replace") or n.endswith("mem::swap") for n in hir_callee(x)) and len(x["args"]) == 2:
            a0 = hu.strip_all(x["args"][0])
            if a0 is not None and a0.get("k") == "field" and a0["name"] == "capacity":
                return x["args"][1]
    return None


def free_slot_after_resize(T, pot):
    """The function that installs fresh storage (it stores `self.capacity` and calls the table's storage allocator) is found
    by what it does. For every call chain that reaches it from a function whose arguments are not under the table's control
    (a public function, or one without callers in the crate) - through the private wrappers in between, whose parameters
    are bound to the caller's argument values - and for every small state (count < capacity) in which the guards along the
    chain hold, the capacity that is installed exceeds the number of stored items: a free slot remains, probes for absent
    keys terminate. Arguments computed by helper functions with loops (`min_capacity`) are computed by running those
    functions on the state. -> list of (fn, ln, ok|bad|undecided, message), attributed to the outermost function"""
    from cao import capacity
    from cao import backshift as bs
    F = T.F
    XEv = _xev_class()
    resizers = [f for f in T.fns if f.hir and f.mir and stores_capacity(f) is not None and allocates_storage(T, f)]
    if not resizers:
        raise AnchorMissing("the function of %s that installs new storage (stores self.capacity after allocating)" % T.name)
    caps = [1, 2, 4, 8, 16, 32, 64] if pot else list(range(1, 41))
    PVALS = [0, 1, 2, 3, 5, 8, 13, 40]

    def usize_params(f):
        return [p for p in f.hir["params"] if p.get("k") == "bind" and p.get("name") != "self" and p.get("ty") in ("usize", "u32", "u64")]

    def call_sites(target):
        out = []
        for f in F.fns:
            if not f.hir or f.is_closure or f is target:
                continue
            for x in hir_walk(f.hir["body"]):
                if x.get("k") in ("mcall", "call") and any(n == target.short for n in hir_callee(x)):
                    out.append((f, x))
        return out

    def chains(target, depth=0):
        """lists of (function, call node) from the outermost caller down to the call of `target`"""
        out = []
        for f, x in call_sites(target):
            private = str(f.raw.get("vis", "")) != "Public" and T.fn_by_short(f.short) is not None
            ups = chains(f, depth + 1) if (private and usize_params(f) and depth < 3) else []
            if ups:
                out.extend(c + [(f, x)] for c in ups)
            else:
                out.append([(f, x)])
        return out

    out = []
    for S in resizers:
        newcap = stores_capacity(S)
        sp = usize_params(S)
        if len(sp) != 1:
            out.append((S, S.line, "undecided", "%s does not take the new capacity as its one integer argument" % S.name))
            continue
        all_chains = chains(S)
        if not all_chains:
            out.append((S, S.line, "undecided", "%s has no caller" % S.name))
        for chain in all_chains:
            f0, x0 = chain[0]
            params0 = usize_params(f0)
            guards = [capacity.guards_of(f, x) for f, x in chain]
            bad_at = None
            n_states = 0
            via = " -> ".join([f.name for f, _x in chain[1:]] + [S.name])
            try:
                for c in caps:
                    for n in range(0, c):
                        for pv in (PVALS if params0 else [None]):
                            fields = {"count": n, "capacity": c}
                            env = {p["id"]: pv for p in params0}
                            a = None
                            skip = False
                            for li, (f, x) in enumerate(chain):
                                try:
                                    if not all(bool(XEv(F, f, dict(env), fields).ev(g)) == want for g, want, _n in guards[li]):
                                        skip = True
                                        break
                                    args = x["args"] if x.get("k") == "mcall" else x["args"][1:]
                                    a = XEv(F, f, dict(env), fields).ev(args[0])
                                except bs.Overflow:
                                    skip = True
                                    break
                                nxt = chain[li + 1][0] if li + 1 < len(chain) else S
                                np_ = usize_params(nxt)
                                if len(np_) != 1:
                                    raise bs.Unknown("%s does not take one integer argument" % nxt.name)
                                env = {np_[0]["id"]: int(a)}
                            if skip:
                                continue
                            newc = XEv(F, S, {sp[0]["id"]: int(a)}, fields).ev(newcap)
                            n_states += 1
                            if not (n < newc):
                                bad_at = (n, c, pv, int(a), newc)
                                break
                        if bad_at:
                            break
                    if bad_at:
                        break
            except _Return:
                out.append((f0, x0.get("ln"), "undecided", "resize argument not understood: early return in an expression"))
                continue
            except bs.Unknown as u:
                out.append((f0, x0.get("ln"), "undecided", "resize argument not understood: %s" % u))
                continue
            if bad_at:
                n, c, pv, a, newc = bad_at
                out.append((f0, x0.get("ln"), "bad",
                            "%s resizes the table to %d slots (%s(%d)) while it holds %d items (state: count %d, capacity %d%s): "
                            "no slot is left empty, a lookup of a handle that is not in the table probes forever"
                            % (f0.name, newc, via, a, n, n, c, "" if pv is None else ", argument %d" % pv)))
            elif n_states == 0:
                out.append((f0, x0.get("ln"), "undecided", "no small state reaches the resize through %s" % via))
            else:
                out.append((f0, x0.get("ln"), "ok", "a free slot remains after the resize (%s) in all %d small states (count < capacity <= %d)"
                            % (via, n_states, caps[-1])))
    return out
