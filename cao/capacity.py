"""The capacity argument: inserts into a fresh table that cannot allocate.

`CaoLangTable::insert(guard, ..)` converts the guard into a plain Value (the protection ends) and then calls
CaoHashMap::insert, which allocates - and may therefore collect - only when the hash part grows. A native that builds a
small result table from fresh strings is safe exactly because the table returned by init_table is big enough for the
handful of entries it inserts. This module decides that argument from the source, every link read from the code:

  C   initial capacity: the literal passed by RuntimeData::init_table to CaoLangTable::with_capacity, forwarded unchanged
      to CaoHashMap::with_capacity_in, whose `capacity` field initialiser is evaluated for that literal;
  G   growth policy: CaoHashMap::insert_with_hint calls nothing that may collect except `grow`, and `grow` only under
      needs_grow(self.count, self.capacity); the body of needs_grow is evaluated (f32 arithmetic emulated);
  N   the number of insertions the caller performs on the table it obtained from init_table (straight-line code only).
The k-th insertion of a new key sees count = k; if needs_grow(k, C) is false for k = 1..N no insertion allocates.
"""
import struct
from cao.facts import hir_walk, hir_strip, hir_callee, hir_local_id, callee_names, op_place, DefUse, short
from cao import hirutil as hu
from cao import mirutil as mu
from cao import backshift as bs


def f32(x):
    return struct.unpack("f", struct.pack("f", float(x)))[0]


class FEv(bs.Ev):
    """integer/float expressions with crate constants, `self.<field>` values and calls of small crate functions"""

    def __init__(self, F, f, env, fields=None):
        bs.Ev.__init__(self, f, env, None, None)
        self.F = F
        self.fields = fields or {}

    def _ev(self, e):
        raw = e
        # casts to f32 round
        e0 = hir_strip(e)
        if e0 is not None and e0.get("k") == "cast":
            v = self.ev(e0["e"])
            ty = e0.get("ty", "")
            if ty == "f32":
                return f32(v)
            if ty in ("usize", "u64", "u32", "i64", "i32"):
                return int(v)
            return v
        e = hu.strip_casts(e)
        k = e.get("k")
        if k == "field" and e["name"] in self.fields:
            return self.fields[e["name"]]
        if k == "mcall" and e["name"] in ("next_power_of_two", "is_power_of_two", "max", "min") and \
                any(n.startswith("core::num::") or n.startswith("std::cmp::Ord::") for n in hir_callee(e)):
            a = self.ev(e["recv"])
            if e["name"] == "next_power_of_two":
                v = 1
                while v < a:
                    v *= 2
                return v
            if e["name"] == "is_power_of_two":
                return a > 0 and (a & (a - 1)) == 0
            b = self.ev(e["args"][0])
            return max(a, b) if e["name"] == "max" else min(a, b)
        if k in ("call", "mcall"):
            for n in hir_callee(e):
                g = self.F.fn(n, required=False)
                if g is not None and g.hir is not None and not g.is_closure and n.count("::") >= 1 and not n.endswith("::home_slot") \
                        and not n.endswith("::capacity"):
                    args = ([e["recv"]] if k == "mcall" else []) + list(e["args"])
                    pats = g.hir["params"]
                    if len(pats) == len(args) and all(p.get("k") == "bind" for p in pats):
                        env = {}
                        for p_, a in zip(pats, args):
                            if p_.get("name") == "self":
                                continue
                            env[p_["id"]] = self.ev(a)
                        return FEv(self.F, g, env, self.fields).ev(g.hir["body"])
        if k == "lit" and e["lit"]["k"] == "float":
            v = float(e["lit"]["v"])
            return f32(v) if e.get("ty") == "f32" else v
        if k == "path":
            r = e["path"]["res"]
            if r["k"] == "def" and str(r.get("def_kind", "")).split(" ")[0] in ("Const", "AssocConst"):
                c = self.F.fn(short(r["path"]), required=False)
                if c is None or c.hir is None:
                    raise bs.Unknown("const " + r["path"])
                return FEv(self.F, c, {}).ev(c.hir["body"])
        if k == "bin" and e["op"] in ("Mul", "Add", "Sub", "Div"):
            a = self.ev(e["l"])
            b = self.ev(e["r"])
            if isinstance(a, float) or isinstance(b, float):
                v = {"Mul": a * b, "Add": a + b, "Sub": a - b, "Div": a / b if b else float("inf")}[e["op"]]
                return f32(v) if e.get("ty") == "f32" else v
        return bs.Ev._ev(self, raw)


def initial_capacity(F):
    """-> (C, explanation) or raises Unknown"""
    g = F.fn("vm::runtime::RuntimeData::init_table")
    lit = None
    for x in hir_walk(g.hir["body"]):
        if x.get("k") == "call" and any(n.endswith("CaoLangTable::with_capacity") for n in hir_callee(x)):
            a = hu.strip_casts(x["args"][0])
            if a.get("k") == "lit" and a["lit"]["k"] == "int":
                lit = a["lit"]["v"]
            else:
                raise bs.Unknown("init_table: capacity is not a literal")
    if lit is None:
        raise bs.Unknown("init_table does not call CaoLangTable::with_capacity")
    h = F.fn("vm::runtime::cao_lang_table::CaoLangTable::with_capacity")
    pids = [p.get("id") for p in h.hir["params"]]
    fwd = False
    for x in hir_walk(h.hir["body"]):
        if x.get("k") == "call" and any(n.endswith("CaoHashMap::with_capacity_in") for n in hir_callee(x)):
            if hir_local_id(hu.strip_casts(x["args"][0])) == pids[0]:
                fwd = True
    if not fwd:
        raise bs.Unknown("CaoLangTable::with_capacity does not forward its size to CaoHashMap::with_capacity_in")
    m = F.fn("collections::hash_map::CaoHashMap::with_capacity_in")
    mp = [p.get("id") for p in m.hir["params"]]
    cap_expr = None
    for x in hir_walk(m.hir["body"]):
        if x.get("k") == "struct":
            for fl in x["fields"]:
                if fl["name"] == "capacity":
                    cap_expr = fl["e"]
    if cap_expr is None:
        raise bs.Unknown("CaoHashMap::with_capacity_in: no `capacity` field initialiser")
    c = FEv(F, m, {mp[0]: lit}).ev(cap_expr)
    return int(c), "init_table -> with_capacity(%d) -> capacity %d" % (lit, c)


def growth_only_under_needs_grow(F, maygc):
    """insert path of the hash part: CaoLangTable::insert::_insert -> CaoHashMap::insert -> insert_with_hint; the only
    may-collect callee of insert_with_hint is grow, called under `if needs_grow(self.count, self.capacity)`."""
    iw = F.fn("collections::hash_map::CaoHashMap::insert_with_hint")
    others = []
    for bi, t in mu.calls(iw):
        why = maygc.call_may_gc(t)
        if why and not any(n.endswith("CaoHashMap::grow") for n in callee_names(t["func"])):
            others.append(why)
    if others:
        return False, "insert_with_hint may allocate outside grow(): %s" % sorted(set(others))
    anc = hu.control_ancestors(iw.hir["body"])
    ifs = {id(x): x for x in hir_walk(iw.hir["body"]) if x.get("k") == "if"}
    grows = [x for x in hir_walk(iw.hir["body"]) if x.get("k") in ("mcall", "call") and any(n.endswith("CaoHashMap::grow") for n in hir_callee(x))]
    if not grows:
        return False, "insert_with_hint does not call grow()"
    for gcall in grows:
        guards = [ifs[nid] for kind, nid in anc.get(id(gcall), ()) if kind == "then" and nid in ifs]
        # the innermost enclosing `if` is the growth test; it must only look at count and capacity
        if not guards:
            return False, "grow() is called unconditionally"
        g = guards[-1]
        fields = set(y["name"] for y in hir_walk(g["cond"]) if y.get("k") == "field")
        if not fields <= {"count", "capacity"} or not fields:
            return False, "the growth test of insert_with_hint does not depend on count and capacity only (%s)" % sorted(fields)
    # the wrappers in between add no allocation of their own
    for name in ("collections::hash_map::CaoHashMap::insert", "vm::runtime::cao_lang_table::CaoLangTable::insert::_insert"):
        g = F.fn(name)
        for bi, t in mu.calls(g):
            why = maygc.call_may_gc(t)
            nm = callee_names(t["func"])
            if why and not any(n.endswith("CaoHashMap::insert_with_hint") or n.endswith("CaoHashMap::insert") for n in nm):
                return False, "%s may allocate outside the hash part's insert: %s" % (g.name, why)
    return True, "the only allocation of the insert path is grow() under a test of count and capacity"


def needs_grow(F, k, cap):
    """does the k-th insertion of a new key into a map of capacity `cap` (holding k-1 entries) grow it? The growth test of
    insert_with_hint is evaluated as written; whether it sees the count before or after the increment is read from the
    position of `self.count += 1`."""
    iw = F.fn("collections::hash_map::CaoHashMap::insert_with_hint")
    incs = [x.get("ln") for x in hir_walk(iw.hir["body"]) if x.get("k") == "assign_op" and str(x.get("op", "")).startswith("Add")
            and hir_strip(x["l"]).get("k") == "field" and hir_strip(x["l"])["name"] == "count"]
    grow_name = "collections::hash_map::CaoHashMap::grow"
    test = None
    for x in hir_walk(iw.hir["body"]):
        if x.get("k") == "if" and any(y.get("k") in ("mcall", "call") and any(n == grow_name for n in hir_callee(y)) for y in hir_walk(x["then"])):
            test = x
    if test is None:
        raise bs.Unknown("growth test of insert_with_hint")
    after_inc = any(l is not None and l < (test.get("ln") or 0) for l in incs)
    seen = k if after_inc else k - 1
    return bool(FEv(F, iw, {}, {"count": seen, "capacity": cap}).ev(test["cond"]))


def inserts_on_fresh_table(F, f):
    """MIR of the caller: groups of CaoLangTable::insert/append calls by the init_table call their receiver comes from.
    -> list of dict(origin_block, n, in_loop, lines, other_mut)"""
    du = DefUse(f)
    cfg = f.cfg
    loop_blocks = set()
    for a, h in cfg.back_edges():
        # natural loop of the back edge
        body = {h, a}
        work = [a]
        while work:
            x = work.pop()
            if x == h:
                continue
            for p in cfg.pred[x]:
                if p not in body:
                    body.add(p)
                    work.append(p)
        loop_blocks |= body

    def origin(l, depth=0):
        seen = set()
        while l is not None and l not in seen and depth < 40:
            depth += 1
            seen.add(l)
            ds = [d for d in du.defs.get(l, []) if not d[3].get("place", d[3].get("dest"))["p"]]
            if len(ds) != 1:
                return None
            bi, si, kind, d = ds[0]
            if kind == "call":
                nm = callee_names(d["func"])
                if any(n.endswith("Vm::init_table") or n.endswith("RuntimeData::init_table") for n in nm):
                    return bi
                if not d["args"]:
                    return None
                p = op_place(d["args"][0])
                l = p["l"] if p is not None else None
                continue
            rv = d["rv"]
            if rv["k"] in ("use", "cast"):
                p = op_place(rv["op"])
                l = p["l"] if p is not None else None
            elif rv["k"] in ("ref", "rawptr"):
                l = rv["place"]["l"]
            else:
                return None
        return None

    groups = {}
    for bi, t in mu.calls(f):
        nm = callee_names(t["func"])
        if not any("cao_lang_table::CaoLangTable::" in n for n in nm):
            continue
        last = [n.rsplit("::", 1)[-1] for n in nm if "cao_lang_table::CaoLangTable::" in n][0]
        tys = t.get("arg_tys", [])
        if not tys or not tys[0].startswith("&mut "):
            continue
        p = op_place(t["args"][0])
        o = origin(p["l"]) if p is not None else None
        g = groups.setdefault(o, {"origin_block": o, "n": 0, "in_loop": False, "lines": [], "other_mut": []})
        if last in ("insert", "append"):
            g["n"] += 1
            g["lines"].append(t.get("ln"))
            if bi in loop_blocks:
                g["in_loop"] = True
        else:
            g["other_mut"].append(last)
    return groups


def decide_caller(F, maygc, f, lines):
    """Are the insertions at `lines` (which move a guard into insert) free of allocation? -> (True|False, message)"""
    try:
        C, cexp = initial_capacity(F)
    except bs.Unknown as u:
        return False, "initial capacity of a fresh table not established (%s)" % u
    okg, gexp = growth_only_under_needs_grow(F, maygc)
    if not okg:
        return False, gexp
    groups = inserts_on_fresh_table(F, f)
    for ln in lines:
        grp = [g for g in groups.values() if ln in g["lines"]]
        if not grp:
            return False, "insert at line %s not found among the table insertions of %s" % (ln, f.name)
        g = grp[0]
        if g["origin_block"] is None:
            return False, "the table receiving the insert at line %s is not a fresh table from init_table: the insert may grow it" % ln
        if g["in_loop"]:
            return False, "insertions into the fresh table happen in a loop: their number is unbounded, the table grows (and may collect)"
        if g["other_mut"]:
            return False, "the fresh table is also mutated through %s" % g["other_mut"]
        try:
            grow_at = [k for k in range(1, g["n"] + 1) if needs_grow(F, k, C)]
        except bs.Unknown as u:
            return False, "needs_grow not understood (%s)" % u
        if grow_at:
            return False, ("a fresh table has capacity %d (%s) and grows at its %s insertion; %s inserts %d entries into it, so the "
                           "insert allocates and may collect while the converted key is unrooted" %
                           (C, cexp, _ord(grow_at[0]), f.name, g["n"]))
    n = max(g["n"] for g in groups.values() if g["origin_block"] is not None)
    return True, ("fresh table of capacity %d (%s); %s; needs_grow(k, %d) is false for k = 1..%d, the %d insertions of %s cannot "
                  "allocate" % (C, cexp, gexp, C, n, n, f.name))


def _ord(n):
    return "%d%s" % (n, "th" if 10 <= n % 100 <= 20 else {1: "st", 2: "nd", 3: "rd"}.get(n % 10, "th"))


def free_slot_after_resize(F, table_path, pot):
    """For every call of <table>::adjust_capacity: in every state (count < capacity, small values) in which the guards around
    the call hold, the new capacity computed by adjust_capacity exceeds the number of stored items (a free slot remains, so
    probes for absent keys terminate). -> list of (fn, ln, ok|bad|undecided, message)"""
    out = []
    adj = F.fn(table_path + "::adjust_capacity")
    ap = [p for p in adj.hir["params"] if p.get("name") != "self"]
    # the capacity adjust_capacity really installs: the value stored into self.capacity
    newcap_expr = None
    for x in hir_walk(adj.hir["body"]):
        if x.get("k") == "assign":
            l = hir_strip(x["l"])
            if l.get("k") == "field" and l["name"] == "capacity":
                newcap_expr = x["r"]
        elif x.get("k") == "call" and any(n.endswith("mem::replace") for n in hir_callee(x)):
            a0 = hu.strip_all(x["args"][0])
            if a0.get("k") == "field" and a0["name"] == "capacity":
                newcap_expr = x["args"][1]
    if newcap_expr is None:
        raise bs.Unknown("adjust_capacity does not store self.capacity")
    caps = [1, 2, 4, 8, 16, 32, 64] if pot else list(range(1, 41))
    for f in F.fns:
        if not f.hir or f.is_closure or f.short == adj.short:
            continue
        anc = None
        for x in hir_walk(f.hir["body"]):
            if not (x.get("k") in ("mcall", "call") and any(n == adj.short for n in hir_callee(x))):
                continue
            if anc is None:
                anc = hu.control_ancestors(f.hir["body"])
                ifs = {id(y): y for y in hir_walk(f.hir["body"]) if y.get("k") == "if"}
            arg = x["args"][0] if x.get("k") == "mcall" else x["args"][1]
            guards = []
            for kind, nid in anc.get(id(x), ()):
                if kind in ("then", "else") and nid in ifs:
                    guards.append((ifs[nid]["cond"], kind == "then"))
            params = [p for p in f.hir["params"] if p.get("k") == "bind" and p.get("name") != "self" and p.get("ty") in ("usize", "u32", "u64")]
            bad_at = None
            n_states = 0
            try:
                for c in caps:
                    for n in range(0, c):
                        pvals = [0, 1, 2, 3, 5, 8, 13, 40] if params else [None]
                        for pv in pvals:
                            env = {p["id"]: pv for p in params}
                            fields = {"count": n, "capacity": c}
                            try:
                                if not all(bool(FEv(F, f, env, fields).ev(g)) == want for g, want in guards):
                                    continue
                                a = FEv(F, f, env, fields).ev(arg)
                            except bs.Overflow:
                                continue
                            newc = a
                            if newcap_expr is not None:
                                newc = FEv(F, adj, {ap[0]["id"]: int(a)}, fields).ev(newcap_expr)
                            n_states += 1
                            if not (n < newc):
                                bad_at = (n, c, pv, int(a), newc)
                                break
                        if bad_at:
                            break
                    if bad_at:
                        break
            except bs.Unknown as u:
                out.append((f, x.get("ln"), "undecided", "resize argument not understood: %s" % u))
                continue
            if bad_at:
                n, c, pv, a, newc = bad_at
                out.append((f, x.get("ln"), "bad",
                            "%s resizes the table to %d slots (adjust_capacity(%d)) while it holds %d items (state: count %d, capacity %d%s): "
                            "no slot is left empty, a lookup of a handle that is not in the table probes forever"
                            % (f.name, newc, a, n, n, c, "" if pv is None else ", argument %d" % pv)))
            else:
                out.append((f, x.get("ln"), "ok", "a free slot remains after the resize in all %d small states (count < capacity <= %d)" % (n_states, caps[-1])))
    return out


def free_slot_after_insert(F, table_path, pot):
    """For every `if <cond> { .. grow() .. }` in the insertion functions of <table>: in every small state (count < capacity)
    in which the condition says "do not grow", the table still has a free slot AFTER the pending insertion
    (count + 1 < capacity). The condition is evaluated on the source expression (f32 arithmetic emulated, helper
    functions and constants followed); whether it sees the count before or after the increment is read from the
    position of `self.count += 1` in the same function. -> list of (fn, ln, ok|bad|undecided, message)"""
    out = []
    grow_name = table_path + "::grow"
    caps = [2, 4, 8, 16, 32, 64] if pot else list(range(1, 41))
    for f in F.fns:
        if not f.hir or f.is_closure or not (f.short.startswith(table_path + "::")) or f.short in (grow_name,):
            continue
        incs = [x.get("ln") for x in hir_walk(f.hir["body"]) if x.get("k") == "assign_op" and str(x.get("op", "")).startswith("Add")
                and hir_strip(x["l"]).get("k") == "field" and hir_strip(x["l"])["name"] == "count"]
        for x in hir_walk(f.hir["body"]):
            if x.get("k") != "if":
                continue
            if not any(y.get("k") in ("mcall", "call") and any(n == grow_name for n in hir_callee(y)) for y in hir_walk(x["then"])):
                continue
            # the innermost test decides
            if any(y is not x and y.get("k") == "if" and any(z.get("k") in ("mcall", "call") and any(n == grow_name for n in hir_callee(z))
                                                                 for z in hir_walk(y["then"])) for y in hir_walk(x["then"])):
                continue
            after_inc = any(l is not None and l < (x.get("ln") or 0) for l in incs)
            bad_at = None
            n = 0
            try:
                for c in caps:
                    for c0 in range(0, c):
                        seen = c0 + 1 if after_inc else c0
                        fields = {"count": seen, "capacity": c}
                        try:
                            grow = bool(FEv(F, f, {}, fields).ev(x["cond"]))
                        except bs.Overflow:
                            continue
                        n += 1
                        if not grow and not (c0 + 1 < c):
                            bad_at = (c0, c)
                            break
                    if bad_at:
                        break
            except bs.Unknown as u:
                out.append((f, x.get("ln"), "undecided", "growth condition not understood: %s" % u))
                continue
            if bad_at:
                out.append((f, x.get("ln"), "bad",
                            "%s does not grow a table of capacity %d that holds %d items before inserting one more: the insertion fills the "
                            "last free slot, and a lookup of a handle/key that is not in the table then probes forever" % (f.name, bad_at[1], bad_at[0])))
            else:
                out.append((f, x.get("ln"), "ok", "whenever the growth test (seeing the count %s the increment) declines, a free slot remains after "
                            "the insertion: %d small states" % ("after" if after_inc else "before", n)))
    return out
