"""The capacity argument: inserts into a fresh table that cannot allocate.

`CaoLangTable::insert(guard, ..)` converts the guard into a plain Value (the protection ends) and then calls
CaoHashMap::insert, which allocates - and may therefore collect - only when the hash part grows. A native that builds a
small result table from fresh strings is safe exactly because the table returned by init_table is big enough for the
handful of entries it inserts. This module decides that argument from the source, every link read from the code:

  C   initial capacity: the literal passed by RuntimeData::init_table to CaoLangTable::with_capacity, forwarded unchanged
      to CaoHashMap::with_capacity_in, whose `capacity` field initialiser is evaluated for that literal;
  G   growth policy: CaoHashMap::insert_with_hint calls nothing that may collect except `grow`, and `grow` only under
      needs_grow(self.count, self.capacity); the body of needs_grow is evaluated (f32 arithmetic emulated);
  N   the number of insertions the caller performs on the table it obtained from init_table (straight-line code only).
The k-th insertion of a new key sees count = k; if needs_grow(k, C) is false for k = 1..N no insertion allocates.
"""
import struct
from cao.facts import hir_walk, hir_strip, hir_callee, hir_local_id, callee_names, op_place, DefUse, short
from cao import hirutil as hu
from cao import mirutil as mu
from cao import backshift as bs


def f32(x):
    return struct.unpack("f", struct.pack("f", float(x)))[0]


class FEv(bs.Ev):
    """integer/float expressions with crate constants, `self.<field>` values and calls of small crate functions"""

    def __init__(self, F, f, env, fields=None):
        bs.Ev.__init__(self, f, env, None, None)
        self.F = F
        self.fields = fields or {}

    def _ev(self, e):
        raw = e
        # casts to f32 round
        e0 = hir_strip(e)
        if e0 is not None and e0.get("k") == "cast":
            v = self.ev(e0["e"])
            ty = e0.get("ty", "")
            if ty == "f32":
                return f32(v)
            if ty in ("usize", "u64", "u32", "i64", "i32"):
                return int(v)
            return v
        e = hu.strip_casts(e)
        k = e.get("k")
        if k == "field" and e["name"] in self.fields:
            return self.fields[e["name"]]
        if k == "mcall" and e["name"] in ("next_power_of_two", "is_power_of_two", "max", "min") and \
                any(n.startswith("core::num::") or n.startswith("std::cmp::Ord::") for n in hir_callee(e)):
            a = self.ev(e["recv"])
            if e["name"] == "next_power_of_two":
                v = 1
                while v < a:
                    v *= 2
                return v
            if e["name"] == "is_power_of_two":
                return a > 0 and (a & (a - 1)) == 0
            b = self.ev(e["args"][0])
            return max(a, b) if e["name"] == "max" else min(a, b)
        if k in ("call", "mcall"):
            for n in hir_callee(e):
                g = self.F.fn(n, required=False)
                if g is not None and g.hir is not None and not g.is_closure and n.count("::") >= 1 and not n.endswith("::home_slot") \
                        and not n.endswith("::capacity"):
                    args = ([e["recv"]] if k == "mcall" else []) + list(e["args"])
                    pats = g.hir["params"]
                    if len(pats) == len(args) and all(p.get("k") == "bind" for p in pats):
                        env = {}
                        for p_, a in zip(pats, args):
                            if p_.get("name") == "self":
                                continue
                            env[p_["id"]] = self.ev(a)
                        return FEv(self.F, g, env, self.fields).ev(g.hir["body"])
        if k == "lit" and e["lit"]["k"] == "float":
            v = float(e["lit"]["v"])
            return f32(v) if e.get("ty") == "f32" else v
        if k == "path":
            r = e["path"]["res"]
            if r["k"] == "def" and str(r.get("def_kind", "")).split(" ")[0] in ("Const", "AssocConst"):
                c = self.F.fn(short(r["path"]), required=False)
                if c is None or c.hir is None:
                    raise bs.Unknown("const " + r["path"])
                return FEv(self.F, c, {}).ev(c.hir["body"])
        if k == "bin" and e["op"] in ("Mul", "Add", "Sub", "Div"):
            a = self.ev(e["l"])
            b = self.ev(e["r"])
            if isinstance(a, float) or isinstance(b, float):
                v = {"Mul": a * b, "Add": a + b, "Sub": a - b, "Div": a / b if b else float("inf")}[e["op"]]
                return f32(v) if e.get("ty") == "f32" else v
        return bs.Ev._ev(self, raw)


def initial_capacity(F):
    """-> (C, explanation) or raises Unknown"""
    g = F.fn("vm::runtime::RuntimeData::init_table")
    lit = None
    for x in hir_walk(g.hir["body"]):
        if x.get("k") == "call" and any(n.endswith("CaoLangTable::with_capacity") for n in hir_callee(x)):
            a = hu.strip_casts(x["args"][0])
            if a.get("k") == "lit" and a["lit"]["k"] == "int":
                lit = a["lit"]["v"]
            else:
                raise bs.Unknown("init_table: capacity is not a literal")
    if lit is None:
        raise bs.Unknown("init_table does not call CaoLangTable::with_capacity")
    h = F.fn("vm::runtime::cao_lang_table::CaoLangTable::with_capacity")
    pids = [p.get("id") for p in h.hir["params"]]
    fwd = False
    for x in hir_walk(h.hir["body"]):
        if x.get("k") == "call" and any(n.endswith("CaoHashMap::with_capacity_in") for n in hir_callee(x)):
            if hir_local_id(hu.strip_casts(x["args"][0])) == pids[0]:
                fwd = True
    if not fwd:
        raise bs.Unknown("CaoLangTable::with_capacity does not forward its size to CaoHashMap::with_capacity_in")
    m = F.fn("collections::hash_map::CaoHashMap::with_capacity_in")
    mp = [p.get("id") for p in m.hir["params"]]
    cap_expr = None
    for x in hir_walk(m.hir["body"]):
        if x.get("k") == "struct":
            for fl in x["fields"]:
                if fl["name"] == "capacity":
                    cap_expr = fl["e"]
    if cap_expr is None:
        raise bs.Unknown("CaoHashMap::with_capacity_in: no `capacity` field initialiser")
    c = FEv(F, m, {mp[0]: lit}).ev(cap_expr)
    return int(c), "init_table -> with_capacity(%d) -> capacity %d" % (lit, c)


# ---------------------------------------------------------------------------------------------------
# guards: the conditions under which a statement of a function runs, read from the HIR
# ---------------------------------------------------------------------------------------------------

def _leaves(e):
    """does control always leave the function when this expression has been evaluated (its last action is `return`)?"""
    e = hir_strip(e)
    if e is None:
        return False
    k = e.get("k")
    if k == "ret":
        return True
    if k == "block":
        bl = e["block"]
        for st in bl["stmts"]:
            if st["k"] in ("semi", "expr") and _leaves(st["e"]):
                return True
        return bl.get("expr") is not None and _leaves(bl["expr"])
    if k == "if":
        return e.get("else") is not None and _leaves(e["then"]) and _leaves(e["else"])
    return False


def _path_to(e, target, acc):
    """root-to-target list of frames: ('if', node, branch taken) / ('stmt', block, index of the statement)"""
    if e is None:
        return False
    if e is target:
        return True
    k = e.get("k")
    if k == "if":
        if _path_to(e["cond"], target, acc):
            return True
        for key, pol in (("then", True), ("else", False)):
            if e.get(key) is not None:
                acc.append(("if", e, pol))
                if _path_to(e[key], target, acc):
                    return True
                acc.pop()
        return False
    if k in ("block", "loop"):
        bl = e["block"] if k == "block" else e["body"]
        for i, st in enumerate(bl["stmts"]):
            xs = []
            if st["k"] == "let":
                if st.get("init"):
                    xs.append(st["init"])
                if st.get("els"):
                    xs.append({"k": "block", "block": st["els"]})
            elif st["k"] in ("expr", "semi"):
                xs.append(st["e"])
            for x in xs:
                acc.append(("stmt", bl, i))
                if _path_to(x, target, acc):
                    return True
                acc.pop()
        if bl.get("expr") is not None:
            acc.append(("stmt", bl, len(bl["stmts"])))
            if _path_to(bl["expr"], target, acc):
                return True
            acc.pop()
        return False
    from cao.facts import hir_children
    for c in hir_children(e):
        if _path_to(c, target, acc):
            return True
    return False


def guards_of(f, node):
    """The conditions that hold whenever `node` (an expression of f) is evaluated, nearest first:
    [(condition expression, value it has, the `if`)]. Two idioms are the same guard: `if c { .. node .. }` and an earlier
    `if !c { return .. }` in an enclosing statement list (symmetrically for the else branch)."""
    acc = []
    if not _path_to(f.hir["body"], node, acc):
        return []
    out = []
    for fr in reversed(acc):
        if fr[0] == "if":
            out.append((fr[1]["cond"], fr[2], fr[1]))
        else:
            _k, bl, i = fr
            for j in range(min(i, len(bl["stmts"])) - 1, -1, -1):
                st = bl["stmts"][j]
                if st["k"] not in ("semi", "expr"):
                    continue
                x = hir_strip(st["e"])
                if x is None or x.get("k") != "if":
                    continue
                t_out = _leaves(x["then"])
                e_out = x.get("else") is not None and _leaves(x["else"])
                if t_out and not e_out:
                    out.append((x["cond"], False, x))
                elif e_out and not t_out:
                    out.append((x["cond"], True, x))
    return out


def cond_fields(f, cond, depth=0):
    """(names of the `self.<field>`s a condition reads, does it read anything else that varies: a local without a single
    initialiser, a parameter) - single-assignment locals are followed to their initialiser"""
    inits = hu.let_inits(f)
    fields, opaque = set(), False
    seen = set()

    def rec(e, d):
        nonlocal opaque
        for y in hir_walk(e):
            if y.get("k") == "field":
                fields.add(y["name"])
            elif y.get("k") == "path" and y["path"]["res"].get("k") == "local":
                r = y["path"]["res"]
                if r.get("name") == "self":
                    continue
                ins = inits.get(r["id"], [])
                if len(ins) == 1 and d < 6:
                    if r["id"] not in seen:
                        seen.add(r["id"])
                        rec(ins[0], d + 1)
                else:
                    opaque = True
    rec(cond, depth)
    return fields, opaque


def count_incs(f):
    return [x.get("ln") for x in hir_walk(f.hir["body"]) if x.get("k") == "assign_op" and str(x.get("op", "")).startswith("Add")
            and hir_strip(x["l"]).get("k") == "field" and hir_strip(x["l"])["name"] == "count"]


# ---------------------------------------------------------------------------------------------------
# G: which tests decide whether an insertion through CaoLangTable::insert allocates
# ---------------------------------------------------------------------------------------------------

TABLE_INSERT = "vm::runtime::cao_lang_table::CaoLangTable::insert"


def _hir_may_gc(maygc, x):
    c = x.get("callee")
    if c is None and x.get("k") == "call" and x["f"].get("k") == "path":
        c = x["f"]["path"].get("callee")
    if c is None:
        names = hir_callee(x)
        if not names:
            return None
        c = {"path": names[0]}
    return maygc.call_may_gc({"func": c, "arg_tys": []})


def allocation_guards(F, maygc):
    """Every chain of calls from CaoLangTable::insert (the function that turns a guard into a plain Value) down to a call
    that may collect and whose callee has no body in the crate's table code to descend into (the allocator). Each chain
    must pass a *growth test*: a guard, in one of the functions of the chain, that reads nothing but the `count` and
    `capacity` of the hash part. The functions in between are found by following the calls, whatever they are named.
    -> (True, [test..], text) | (False, None, why); test = dict(fn, cond, pol, after_inc, ln)"""
    start = F.fn(TABLE_INSERT)
    tests, seen_tests = [], set()
    problems = []
    visited_fns = []

    def body_fns(g):
        return [g]

    def descend(g, chain, depth):
        if depth > 8:
            problems.append("call chain below %s too deep" % start.name)
            return
        if g.short not in [v.short for v in visited_fns]:
            visited_fns.append(g)
        hir_lines = set()
        for x in hir_walk(g.hir["body"]):
            if x.get("k") not in ("call", "mcall"):
                continue
            why = _hir_may_gc(maygc, x)
            if not why:
                continue
            hir_lines.update(hir_callee(x))
            callee = None
            for n in hir_callee(x):
                h = F.fn(n, required=False)
                if h is not None and h.hir is not None and not h.is_closure and h.short != g.short and \
                        h.short not in [c[0].short for c in chain] and (h.short.startswith("collections::hash_map::") or h.short.startswith("vm::runtime::cao_lang_table::")):
                    callee = h
                    break
            link = chain + [(g, x)]
            if callee is not None:
                descend(callee, link, depth + 1)
                continue
            # a leaf: the allocation itself. Look for the growth test, innermost function first
            found = None
            for li in range(len(link) - 1, -1, -1):
                fn_i, node_i = link[li]
                for cond, pol, ifn in guards_of(fn_i, node_i):
                    fields, opaque = cond_fields(fn_i, cond)
                    if fields and fields <= {"count", "capacity"} and not opaque:
                        found = (li, fn_i, cond, pol, ifn)
                        break
                if found:
                    break
            if found is None:
                problems.append("%s may allocate (%s) on a path with no test of count and capacity: %s" % (
                    g.name, why, " -> ".join(c[0].name for c in link)))
                continue
            li, fn_i, cond, pol, ifn = found
            if id(ifn) in seen_tests:
                continue
            seen_tests.add(id(ifn))
            after = any(l is not None and l < (ifn.get("ln") or 0) for l in count_incs(fn_i))
            for lj in range(li):
                fn_j, node_j = link[lj]
                after = after or any(l is not None and l < (node_j.get("ln") or 0) for l in count_incs(fn_j))
            tests.append({"fn": fn_i, "cond": cond, "pol": pol, "after_inc": after, "ln": ifn.get("ln")})
        # every may-collect call of the MIR must have been seen in the HIR (closures of g included)
        for gg in [g] + F.closures_of.get(g.short, []):
            if not gg.mir:
                continue
            for bi, t in mu.calls(gg):
                if maygc.call_may_gc(t) and not (set(callee_names(t["func"])) & hir_lines):
                    problems.append("%s: a call that may collect (line %s) is not accounted for" % (g.name, t.get("ln")))

    descend(start, [], 0)
    if problems:
        return False, None, problems[0]
    if not tests:
        return False, None, "no allocation found below %s" % start.name
    return True, tests, ("the only allocation below CaoLangTable::insert (%s) happens under a test of count and capacity (%s)" % (
        " -> ".join(v.name for v in visited_fns), ", ".join("%s line %s" % (t["fn"].name, t["ln"]) for t in tests)))


def growth_only_under_needs_grow(F, maygc):
    """kept for callers: (ok, text)"""
    good, _tests, why = allocation_guards(F, maygc)
    return good, why


def needs_grow(F, k, cap, tests=None, maygc=None):
    """does the k-th insertion of a new key into a map of capacity `cap` (holding k-1 entries) grow it? The growth tests
    found by allocation_guards are evaluated as written; whether a test sees the count before or after the increment is
    read from the position of `self.count += 1` relative to it."""
    if tests is None:
        from cao import rooting
        good, tests, why = allocation_guards(F, maygc or rooting.MayGc(F))
        if not good:
            raise bs.Unknown(why)
    grows = False
    for t in tests:
        seen = k if t["after_inc"] else k - 1
        v = bool(FEv(F, t["fn"], {}, {"count": seen, "capacity": cap}).ev(t["cond"]))
        if v == t["pol"]:
            grows = True
    return grows


def inserts_on_fresh_table(F, f):
    """MIR of the caller: groups of CaoLangTable::insert/append calls by the init_table call their receiver comes from.
    -> list of dict(origin_block, n, in_loop, lines, other_mut)"""
    du = DefUse(f)
    cfg = f.cfg
    loop_blocks = set()
    for a, h in cfg.back_edges():
        # natural loop of the back edge
        body = {h, a}
        work = [a]
        while work:
            x = work.pop()
            if x == h:
                continue
            for p in cfg.pred[x]:
                if p not in body:
                    body.add(p)
                    work.append(p)
        loop_blocks |= body

    def origin(l, depth=0):
        seen = set()
        while l is not None and l not in seen and depth < 40:
            depth += 1
            seen.add(l)
            ds = [d for d in du.defs.get(l, []) if not d[3].get("place", d[3].get("dest"))["p"]]
            if len(ds) != 1:
                return None
            bi, si, kind, d = ds[0]
            if kind == "call":
                nm = callee_names(d["func"])
                if any(n.endswith("Vm::init_table") or n.endswith("RuntimeData::init_table") for n in nm):
                    return bi
                if not d["args"]:
                    return None
                p = op_place(d["args"][0])
                l = p["l"] if p is not None else None
                continue
            rv = d["rv"]
            if rv["k"] in ("use", "cast"):
                p = op_place(rv["op"])
                l = p["l"] if p is not None else None
            elif rv["k"] in ("ref", "rawptr"):
                l = rv["place"]["l"]
            else:
                return None
        return None

    groups = {}
    for bi, t in mu.calls(f):
        nm = callee_names(t["func"])
        if not any("cao_lang_table::CaoLangTable::" in n for n in nm):
            continue
        last = [n.rsplit("::", 1)[-1] for n in nm if "cao_lang_table::CaoLangTable::" in n][0]
        tys = t.get("arg_tys", [])
        if not tys or not tys[0].startswith("&mut "):
            continue
        p = op_place(t["args"][0])
        o = origin(p["l"]) if p is not None else None
        g = groups.setdefault(o, {"origin_block": o, "n": 0, "in_loop": False, "lines": [], "other_mut": []})
        if last in ("insert", "append"):
            g["n"] += 1
            g["lines"].append(t.get("ln"))
            if bi in loop_blocks:
                g["in_loop"] = True
        else:
            g["other_mut"].append(last)
    return groups


def decide_caller(F, maygc, f, lines):
    """Are the insertions at `lines` (which move a guard into insert) free of allocation? -> (True|False, message)"""
    try:
        C, cexp = initial_capacity(F)
    except bs.Unknown as u:
        return False, "initial capacity of a fresh table not established (%s)" % u
    okg, tests, gexp = allocation_guards(F, maygc)
    if not okg:
        return False, gexp
    groups = inserts_on_fresh_table(F, f)
    for ln in lines:
        grp = [g for g in groups.values() if ln in g["lines"]]
        if not grp:
            return False, "insert at line %s not found among the table insertions of %s" % (ln, f.name)
        g = grp[0]
        if g["origin_block"] is None:
            return False, "the table receiving the insert at line %s is not a fresh table from init_table: the insert may grow it" % ln
        if g["in_loop"]:
            return False, "insertions into the fresh table happen in a loop: their number is unbounded, the table grows (and may collect)"
        if g["other_mut"]:
            return False, "the fresh table is also mutated through %s" % g["other_mut"]
        try:
            grow_at = [k for k in range(1, g["n"] + 1) if needs_grow(F, k, C, tests)]
        except bs.Unknown as u:
            return False, "needs_grow not understood (%s)" % u
        if grow_at:
            return False, ("a fresh table has capacity %d (%s) and grows at its %s insertion; %s inserts %d entries into it, so the "
                           "insert allocates and may collect while the converted key is unrooted" %
                           (C, cexp, _ord(grow_at[0]), f.name, g["n"]))
    n = max(g["n"] for g in groups.values() if g["origin_block"] is not None)
    return True, ("fresh table of capacity %d (%s); %s; needs_grow(k, %d) is false for k = 1..%d, the %d insertions of %s cannot "
                  "allocate" % (C, cexp, gexp, C, n, n, f.name))


def _ord(n):
    return "%d%s" % (n, "th" if 10 <= n % 100 <= 20 else {1: "st", 2: "nd", 3: "rd"}.get(n % 10, "th"))


def free_slot_after_resize(F, table_path, pot):
    """For every call of <table>::adjust_capacity: in every state (count < capacity, small values) in which the guards around
    the call hold, the new capacity computed by adjust_capacity exceeds the number of stored items (a free slot remains, so
    probes for absent keys terminate). -> list of (fn, ln, ok|bad|undecided, message)"""
    out = []
    adj = F.fn(table_path + "::adjust_capacity")
    ap = [p for p in adj.hir["params"] if p.get("name") != "self"]
    # the capacity adjust_capacity really installs: the value stored into self.capacity
    newcap_expr = None
    for x in hir_walk(adj.hir["body"]):
        if x.get("k") == "assign":
            l = hir_strip(x["l"])
            if l.get("k") == "field" and l["name"] == "capacity":
                newcap_expr = x["r"]
        elif x.get("k") == "call" and any(n.endswith("mem::replace") for n in hir_callee(x)):
            a0 = hu.strip_all(x["args"][0])
            if a0.get("k") == "field" and a0["name"] == "capacity":
                newcap_expr = x["args"][1]
    if newcap_expr is None:
        raise bs.Unknown("adjust_capacity does not store self.capacity")
    caps = [1, 2, 4, 8, 16, 32, 64] if pot else list(range(1, 41))
    for f in F.fns:
        if not f.hir or f.is_closure or f.short == adj.short:
            continue
        anc = None
        for x in hir_walk(f.hir["body"]):
            if not (x.get("k") in ("mcall", "call") and any(n == adj.short for n in hir_callee(x))):
                continue
            if anc is None:
                anc = hu.control_ancestors(f.hir["body"])
                ifs = {id(y): y for y in hir_walk(f.hir["body"]) if y.get("k") == "if"}
            arg = x["args"][0] if x.get("k") == "mcall" else x["args"][1]
            guards = []
            for kind, nid in anc.get(id(x), ()):
                if kind in ("then", "else") and nid in ifs:
                    guards.append((ifs[nid]["cond"], kind == "then"))
            params = [p for p in f.hir["params"] if p.get("k") == "bind" and p.get("name") != "self" and p.get("ty") in ("usize", "u32", "u64")]
            bad_at = None
            n_states = 0
            try:
                for c in caps:
                    for n in range(0, c):
                        pvals = [0, 1, 2, 3, 5, 8, 13, 40] if params else [None]
                        for pv in pvals:
                            env = {p["id"]: pv for p in params}
                            fields = {"count": n, "capacity": c}
                            try:
                                if not all(bool(FEv(F, f, env, fields).ev(g)) == want for g, want in guards):
                                    continue
                                a = FEv(F, f, env, fields).ev(arg)
                            except bs.Overflow:
                                continue
                            newc = a
                            if newcap_expr is not None:
                                newc = FEv(F, adj, {ap[0]["id"]: int(a)}, fields).ev(newcap_expr)
                            n_states += 1
                            if not (n < newc):
                                bad_at = (n, c, pv, int(a), newc)
                                break
                        if bad_at:
                            break
                    if bad_at:
                        break
            except bs.Unknown as u:
                out.append((f, x.get("ln"), "undecided", "resize argument not understood: %s" % u))
                continue
            if bad_at:
                n, c, pv, a, newc = bad_at
                out.append((f, x.get("ln"), "bad",
                            "%s resizes the table to %d slots (adjust_capacity(%d)) while it holds %d items (state: count %d, capacity %d%s): "
                            "no slot is left empty, a lookup of a handle that is not in the table probes forever"
                            % (f.name, newc, a, n, n, c, "" if pv is None else ", argument %d" % pv)))
            else:
                out.append((f, x.get("ln"), "ok", "a free slot remains after the resize in all %d small states (count < capacity <= %d)" % (n_states, caps[-1])))
    return out


def _touches_count(f):
    """does f change `self.count` or hand out `&mut self.count` (the function that performs / prepares the insertion)?"""
    for x in hir_walk(f.hir["body"]):
        k = x.get("k")
        if k in ("assign_op", "assign"):
            l = hir_strip(x["l"])
            if l is not None and l.get("k") == "field" and l["name"] == "count":
                return True
        elif k == "addr_of" and x.get("mutbl") in (True, "mut", "Mut"):
            y = hir_strip(x["e"])
            if y is not None and y.get("k") == "field" and y["name"] == "count":
                return True
    return False


def growth_sites(F, table_path):
    """The growth tests of the insertion functions of <table>: for every call of <table>::grow the nearest guard
    (`if c { .. grow() .. }`, or an earlier `if !c { return .. }`). A test written in a helper that does not itself touch
    the count ("make room") stands for one test per call site of the helper in the table's functions, seen from the
    caller (whose `self.count += 1` decides which count the test sees).
    -> list of dict(fn: function the test is attributed to, ln, tf: function the condition is written in, cond, pol,
                    after_inc)"""
    grow_name = table_path + "::grow"
    fns = [f for f in F.fns if f.hir and not f.is_closure and f.short.startswith(table_path + "::") and f.short != grow_name]
    out = []
    for f in fns:
        seen_if = set()
        for x in hir_walk(f.hir["body"]):
            if not (x.get("k") in ("mcall", "call") and any(n == grow_name for n in hir_callee(x))):
                continue
            gs = guards_of(f, x)
            if not gs:
                continue
            cond, pol, ifn = gs[0]
            if id(ifn) in seen_if:
                continue
            seen_if.add(id(ifn))
            own_after = any(l is not None and l < (ifn.get("ln") or 0) for l in count_incs(f))
            callers = []
            if not _touches_count(f):
                for g in fns:
                    if g is f:
                        continue
                    for y in hir_walk(g.hir["body"]):
                        if y.get("k") in ("mcall", "call") and any(n == f.short for n in hir_callee(y)):
                            callers.append((g, y))
            if callers:
                for g, y in callers:
                    after = own_after or any(l is not None and l < (y.get("ln") or 0) for l in count_incs(g))
                    out.append({"fn": g, "ln": y.get("ln"), "tf": f, "cond": cond, "pol": pol, "after_inc": after})
            else:
                out.append({"fn": f, "ln": ifn.get("ln"), "tf": f, "cond": cond, "pol": pol, "after_inc": own_after})
    return out


def free_slot_after_insert(F, table_path, pot):
    """For every growth test of the insertion functions of <table> (growth_sites): in every small state (count < capacity)
    in which the test says "do not grow", the table still has a free slot AFTER the pending insertion
    (count + 1 < capacity). The condition is evaluated on the source expression (f32 arithmetic emulated, helper
    functions and constants followed); whether it sees the count before or after the increment is read from the
    position of `self.count += 1`. -> list of (fn, ln, ok|bad|undecided, message)"""
    out = []
    caps = [2, 4, 8, 16, 32, 64] if pot else list(range(1, 41))
    for site in growth_sites(F, table_path):
        f, tf, cond, pol, after_inc = site["fn"], site["tf"], site["cond"], site["pol"], site["after_inc"]
        bad_at = None
        n = 0
        try:
            for c in caps:
                for c0 in range(0, c):
                    seen = c0 + 1 if after_inc else c0
                    fields = {"count": seen, "capacity": c}
                    try:
                        grow = bool(FEv(F, tf, {}, fields).ev(cond)) == pol
                    except bs.Overflow:
                        continue
                    n += 1
                    if not grow and not (c0 + 1 < c):
                        bad_at = (c0, c)
                        break
                if bad_at:
                    break
        except bs.Unknown as u:
            out.append((f, site["ln"], "undecided", "growth condition not understood: %s" % u))
            continue
        if bad_at:
            out.append((f, site["ln"], "bad",
                        "%s does not grow a table of capacity %d that holds %d items before inserting one more: the insertion fills the "
                        "last free slot, and a lookup of a handle/key that is not in the table then probes forever" % (f.name, bad_at[1], bad_at[0])))
        else:
            out.append((f, site["ln"], "ok", "whenever the growth test (seeing the count %s the increment) declines, a free slot remains after "
                        "the insertion: %d small states" % ("after" if after_inc else "before", n)))
    return out
