"""C18.A: a callee that ends the nested run without returning is not taken for a return.

`run_function` pushes a trap frame and the callee's frame and re-enters the interpreter loop. The loop comes back with Ok
in two ways: the callee executed `Return` (its frame is popped, control went to the trap frame's Exit) - or the callee
executed an `Abort` card, i.e. `Exit`, with its own frames still on the call stack. Code that, on the success path, pops
the trap frame and carries on without looking at the depth of the call stack mistakes the second case for the first: the
callee's frame stays, the caller's locals are resolved against it and a garbage value is handed back as the result.
Rule: in every function between run_function and the interpreter loop that handles the loop's success itself, every path
from the loop's success edge to an Ok return passes through a read of the call stack's depth (`call_stack.len()`, the
test of a loop that pops down to the recorded depth, or a helper that does so)."""
from cao.facts import callee_names, op_local, op_place, DefUse, AnchorMissing
from cao.rules import ok, bad, undecided
from cao import mirutil as mu


def _mentions_call_stack(f, du, local, depth=0):
    if local is None or depth > 8:
        return False
    d = du.sole_def(local)
    if d is None:
        return False
    if d[2] == "assign":
        rv = d[3]["rv"]
        pl = rv.get("place") or (op_place(rv.get("op")) if rv.get("op") else None)
        if pl is not None:
            if any(e["k"] == "field" and e["name"] == "call_stack" for e in pl["p"]):
                return True
            return _mentions_call_stack(f, du, pl["l"], depth + 1)
    if d[2] == "call" and d[3]["args"]:
        return _mentions_call_stack(f, du, op_local(d[3]["args"][0]), depth + 1)
    return False


def _depth_reads(F, f, memo):
    """blocks of f that read the depth of the call stack (directly, or by calling a private function that does)"""
    if f.short in memo:
        return memo[f.short]
    memo[f.short] = set()
    du = DefUse(f)
    out = set()
    for bi, t in mu.calls(f):
        names = callee_names(t["func"])
        if any(n.endswith("BoundedStack::len") or n.endswith("BoundedStack::is_empty") for n in names) and t["args"] and \
                _mentions_call_stack(f, du, op_local(t["args"][0])):
            out.add(bi)
            continue
        for n in names:
            g = F.fn(n, required=False) if n.startswith("vm::") else None
            if g is not None and g.mir and g is not f and _depth_reads(F, g, memo):
                out.add(bi)
    memo[f.short] = out
    return out


def rule_abort(F, loop_fn, rid="C18.A", prefix="C18/A"):
    cg = F.callgraph
    start = F.fn("vm::Vm::run_function")
    reach = cg.reach(start.short, stop=lambda n: n == loop_fn.short)
    into_loop = cg.callers_closure([loop_fn.short])
    res = []
    memo = {}
    n = 0
    for f in F.fns:
        if not f.mir or f.is_closure or f.short not in reach or f.short not in into_loop or f is loop_fn:
            continue
        du = DefUse(f)
        err = mu.error_exit_blocks(f)
        cfg = f.cfg
        depth = _depth_reads(F, f, memo)
        for bi, t in mu.calls(f):
            names = callee_names(t["func"])
            if not any(nm == loop_fn.short or (nm in into_loop and nm in reach and nm != f.short and nm.startswith("vm::Vm::")) for nm in names):
                continue
            callee_is_loop = any(nm == loop_fn.short for nm in names)
            if not callee_is_loop:
                # the callee handles the loop's outcome itself only if it is one of the functions examined here; a helper that
                # merely forwards the loop's Result is transparent: the caller is the one that handles success
                g = next((F.fn(nm, required=False) for nm in names if nm in into_loop and nm in reach), None)
                if g is None or _handles_success(F, g, loop_fn):
                    continue
            if t.get("target") is None:
                continue
            key = "%s/%s/success-of-the-nested-run-checks-the-call-depth" % (prefix, f.name)
            oks = [b for b in cfg.return_blocks()]
            # is there a path target -> return, avoiding error exits and depth reads ?
            # the loop's own failure is not a success path: leave out the branch that is taken only when this call failed
            # (in whatever spelling: `?`, match, if let, is_err()), also where it merges with the success path later
            from rules.c16 import failure_edges
            own_fail = set(tb for (_sb, tb) in failure_edges(f, du, bi) if tb is not None)
            seen = cfg.reachable_from(t["target"], avoid=set(err) | set(depth) | own_fail)
            leak = [b for b in oks if b in seen]
            # a function that only forwards the Result (no Ok path of its own that does more than return it) is not a handler
            if not _handles_success(F, f, loop_fn):
                continue
            n += 1
            if leak:
                res.append(bad(rid, key, f.loc(t.get("ln")),
                               "%s treats every successful return of the nested interpreter loop as a return of the callee: the loop also "
                               "comes back with Ok when the callee ran an Abort card (Exit) with its frames still on the call stack. Nothing "
                               "on the success path looks at the depth of the call stack, so the callee's frame stays behind, the calling "
                               "script resolves its locals against it and a leftover value is handed back as the result" % f.name))
            else:
                res.append(ok(rid, key, f.loc(t.get("ln")), "every success path reads the depth of the call stack before it returns Ok"))
    if n == 0:
        raise AnchorMissing("the function that handles the success of the nested interpreter loop under run_function")
    return res


def _handles_success(F, f, loop_fn):
    """does f do anything with the call stack / value stack after the nested run succeeded (pop the trap frame, pop the result)?"""
    du = DefUse(f)
    for bi, t in mu.calls(f):
        names = callee_names(t["func"])
        if any(n.endswith("BoundedStack::pop") or n.endswith("Vm::stack_pop") or n.endswith("ValueStack::pop") for n in names):
            return True
    return False
