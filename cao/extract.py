"""Run the caofacts driver over a checkout of cao-lang and cache the fact file by *content* of the tree."""
import fcntl
import glob
import hashlib
import json
import os
import shutil
import subprocess
import sys
import time

VERIF = os.path.dirname(os.path.dirname(os.path.abspath(__file__)))
CACHE = os.path.join(VERIF, ".cache")
DRIVER = os.path.join(VERIF, "caofacts", "target", "release", "caofacts")

CONFIGS = {
    # name: (extra cargo args, extra rustflags)
    "default": ([], ""),
    "noserde": (["--no-default-features"], ""),
    "release": ([], "-C overflow-checks=off -C debug-assertions=off"),
}


class ExtractError(Exception):
    pass


def _sha_files(paths, h):
    for p in sorted(paths):
        h.update(p.encode())
        with open(p, "rb") as fh:
            h.update(hashlib.sha256(fh.read()).digest())


def tree_hash(repo):
    h = hashlib.sha256()
    files = []
    for root, _dirs, fs in os.walk(os.path.join(repo, "cao-lang")):
        if "/target" in root:
            continue
        for f in fs:
            if f.endswith((".rs", ".toml")):
                files.append(os.path.join(root, f))
    for f in ("Cargo.lock", "Cargo.toml"):
        p = os.path.join(repo, f)
        if os.path.exists(p):
            files.append(p)
    rel = []
    for p in sorted(files):
        rel.append(os.path.relpath(p, repo))
        h.update(os.path.relpath(p, repo).encode())
        with open(p, "rb") as fh:
            h.update(hashlib.sha256(fh.read()).digest())
    # the driver is part of the key: a changed extractor invalidates cached facts
    _sha_files(glob.glob(os.path.join(VERIF, "caofacts", "src", "*.rs")), h)
    return h.hexdigest()[:24], len(rel)


def sysroot():
    return subprocess.check_output(["rustc", "+nightly", "--print", "sysroot"], text=True).strip()


def ensure_driver():
    if not os.path.exists(DRIVER):
        build_driver()


def build_driver():
    env = dict(os.environ, CARGO_NET_OFFLINE="true")
    r = subprocess.run(["cargo", "build", "--release", "--offline"], cwd=os.path.join(VERIF, "caofacts"), env=env,
                       stdout=subprocess.PIPE, stderr=subprocess.STDOUT, text=True)
    if r.returncode != 0 or not os.path.exists(DRIVER):
        raise ExtractError("building caofacts failed:\n" + r.stdout[-4000:])


def get_facts(repo="/repo", config="default", quiet=True):
    """Return (path to fact file, info dict). Extraction reruns whenever the content hash is new."""
    os.makedirs(CACHE, exist_ok=True)
    ensure_driver()
    th, nfiles = tree_hash(repo)
    d = os.path.join(CACHE, "facts")
    os.makedirs(d, exist_ok=True)
    out = os.path.join(d, "%s-%s.json" % (th, config))
    info = {"tree_hash": th, "source_files": nfiles, "config": config, "cached": True, "extract_s": 0.0}
    if os.path.exists(out) and os.path.getsize(out) > 1000:
        return out, info
    # parallel self-test workers each use a cargo target directory of their own (CAO_WORKER=<n>)
    slot = config + ("-w" + os.environ["CAO_WORKER"] if os.environ.get("CAO_WORKER") else "")
    lock = open(os.path.join(CACHE, "lock-" + slot), "w")
    fcntl.flock(lock, fcntl.LOCK_EX)
    try:
        if os.path.exists(out) and os.path.getsize(out) > 1000:
            return out, info
        t0 = time.time()
        target = os.path.join(CACHE, "target-" + slot)
        # cargo's freshness cache would skip the wrapper: forget the workspace member's fingerprints
        for fp in glob.glob(os.path.join(target, "debug", ".fingerprint", "cao-lang-*")):
            shutil.rmtree(fp, ignore_errors=True)
        tmp = out + ".tmp.%d" % os.getpid()
        if os.path.exists(tmp):
            os.remove(tmp)
        extra_args, extra_flags = CONFIGS[config]
        env = dict(os.environ)
        sr = sysroot()
        env["LD_LIBRARY_PATH"] = os.path.join(sr, "lib") + (":" + env["LD_LIBRARY_PATH"] if env.get("LD_LIBRARY_PATH") else "")
        env["RUSTFLAGS"] = ("-Zmir-opt-level=0 -Awarnings " + extra_flags).strip()
        env["RUSTC_WORKSPACE_WRAPPER"] = DRIVER
        env["CAOFACTS_OUT"] = tmp
        env["CAOFACTS_TAG"] = config
        env["CARGO_TARGET_DIR"] = target
        env["CARGO_NET_OFFLINE"] = "true"
        env.pop("RUSTC_WRAPPER", None)
        cmd = ["cargo", "+nightly", "check", "-p", "cao-lang", "--lib", "--offline"] + extra_args
        r = subprocess.run(cmd, cwd=repo, env=env, stdout=subprocess.PIPE, stderr=subprocess.STDOUT, text=True)
        if r.returncode != 0:
            raise ExtractError("cargo check with caofacts failed (does the tree compile?):\n" + r.stdout[-6000:])
        if not os.path.exists(tmp):
            raise ExtractError("caofacts did not run (no fact file written); cargo output:\n" + r.stdout[-3000:])
        with open(tmp) as fh:
            head = fh.read(64)
        if '"crate":"cao_lang"' not in head:
            raise ExtractError("fact file does not describe crate cao_lang: " + head)
        os.replace(tmp, out)
        info["cached"] = False
        info["extract_s"] = round(time.time() - t0, 2)
        _prune(d)
        return out, info
    finally:
        fcntl.flock(lock, fcntl.LOCK_UN)
        lock.close()


def _prune(d, keep=96):
    fs = sorted(glob.glob(os.path.join(d, "*.json")), key=os.path.getmtime, reverse=True)
    for f in fs[keep:]:
        try:
            os.remove(f)
        except OSError:
            pass


if __name__ == "__main__":
    if len(sys.argv) > 1 and sys.argv[1] == "build":
        build_driver()
        print("caofacts built:", DRIVER)
    else:
        p, info = get_facts(sys.argv[1] if len(sys.argv) > 1 else "/repo", sys.argv[2] if len(sys.argv) > 2 else "default")
        print(p, json.dumps(info))
