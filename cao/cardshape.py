"""Child-shape derivation for the per-card-kind accessors of compiler/card.rs (C16.S, C15.I).

For every CardBody variant the index-taking accessors (get_child, get_child_mut, remove_child, insert_child) are
small decision structures over the index `i`: comparisons of `i` (or `i - k`) with literals and with the length of a
Vec<Card> field, followed by an action on a *place* of the variant's payload. The analysis abstracts each arm's HIR
into exactly that: it case-splits on the finitely many orderings of `i` relative to the slot boundaries (i = 0 ..
boundary+1, list length L in {0,1,2}) and records which place is touched and whether the call reports failure.
Only the idioms listed in DESIGN.md (comparisons, literal matches, Option/bool adaptors, slice get/get_mut, Vec
insert/remove/len, mem::replace, as_ref/as_mut, delegation to get_child_mut) are interpreted; anything else makes
the instance `undecided` (never a violation). Iterators (iter_children*, num_children) are evaluated to a shape
directly. Places are paths of field names relative to the variant's payload, so renaming a binding or reformatting
does not change a verdict.

The indexed accessors are evaluated as whole function bodies: the `match` whose scrutinee is the place `self.body` is
resolved to the arm of the variant under consideration wherever it stands (statement, tail expression, inside a block),
so `let res; match .. {arm => res = x} Some(res)` and `match .. {arm => Some(x)}` are the same to the evaluator. Calls of
crate-local helper functions (`Self::take(slot)`, `self.helper(i)`, a fn path passed to Option::map/and_then) are
inlined: parameters are bound to the evaluated arguments, a `return` of the helper ends the helper only."""
from cao.facts import hir_strip, hir_callee, hir_local_id, hir_walk, pat_variants, pat_bindings, short, block_exprs

CARDBODY = "compiler::card::CardBody"


class Undecided(Exception):
    pass


class Return(Exception):
    def __init__(self, val):
        self.val = val


class Panic(Exception):
    pass


SELF = ("#self",)          # place of the accessor's receiver; SELF_BODY is the scrutinee of the per-kind match
SELF_BODY = ("#self", "body")
INLINE_DEPTH = 4


def classify(ty):
    """type string -> ('array', N) | ('vec',) | ('card',) | None, peeling &, &mut, Box"""
    t = ty.strip()
    changed = True
    while changed:
        changed = False
        for pre in ("&mut ", "&"):
            if t.startswith(pre):
                t = t[len(pre):].strip()
                changed = True
        if t.startswith("std::boxed::Box<") and t.endswith(">"):
            t = t[len("std::boxed::Box<"):-1].strip()
            changed = True
    if t.startswith("[compiler::card::Card; ") and t.endswith("]"):
        try:
            return ("array", int(t[len("[compiler::card::Card; "):-1]))
        except ValueError:
            return None
    if t in ("std::vec::Vec<compiler::card::Card>", "[compiler::card::Card]"):
        return ("vec",)
    if t == "compiler::card::Card":
        return ("card",)
    return None


TRANSPARENT = ("as_ref", "as_mut", "deref", "deref_mut", "as_slice", "as_mut_slice", "borrow", "borrow_mut")


class Arm:
    def __init__(self, variants, env, body, pat):
        self.variants = variants
        self.env = env      # hir id -> place tuple
        self.body = body
        self.pat = pat


def arms_of(fn):
    """Top-level `match &self.body` of an accessor: list[Arm]; also returns (pre-statements, post expr)."""
    body = hir_strip(fn.hir["body"])
    found = None
    pre = []
    stack = [body]
    # the match is either the body's tail, or a statement of the body block
    if body.get("k") == "block":
        for st in body["block"]["stmts"]:
            if st["k"] in ("semi", "expr"):
                e = hir_strip(st["e"])
                if e.get("k") == "match" and len(e["arms"]) >= 8:
                    found = e
            elif st["k"] == "let":
                pre.append(st)
        t = body["block"].get("expr")
        if t is not None and found is None:
            e = hir_strip(t)
            if e.get("k") == "match" and len(e["arms"]) >= 8:
                found = e
                t = None
        tail = t
    else:
        tail = None
        if body.get("k") == "match":
            found = body
    if found is None:
        return None, pre, None
    arms = []
    for a in found["arms"]:
        pv = pat_variants(a["pat"])
        names = []
        env = {}
        for name, _subs, p in pv:
            if name.startswith(CARDBODY + "::"):
                names.append(name[len(CARDBODY) + 2:])
            elif name == "_":
                names.append("_")
        for bid, _nm in pat_bindings(a["pat"]):
            env[bid] = ()
        arms.append(Arm(names, env, a["body"], a["pat"]))
    return arms, pre, tail


def _variant_pat(p, variant):
    """Does the arm pattern p accept CardBody::<variant>?  -> (hit, [(binding id, place)])"""
    k = p.get("k")
    if k in ("ref", "box", "deref"):
        return _variant_pat(p["pat"], variant)
    if k == "or":
        for x in p["pats"]:
            hit, b = _variant_pat(x, variant)
            if hit:
                return hit, b
        return False, []
    if k == "wild":
        return True, []
    if k == "bind":
        if "sub" in p:
            raise Undecided("binding @ pattern on CardBody")
        return True, [(p["id"], SELF_BODY)]
    if k == "tuple_struct" or (k == "expr" and "path" in p):
        r = p["path"]["res"]
        name = short(r.get("ctor_of") or r.get("path", ""))
        if not name.startswith(CARDBODY + "::"):
            raise Undecided("pattern %s on CardBody" % name)
        if name[len(CARDBODY) + 2:] != variant:
            return False, []
        binds = []
        subs = p["pats"] if k == "tuple_struct" else []
        if len(subs) > 1:
            raise Undecided("variant with several payload fields")
        for sp in subs:
            while sp.get("k") in ("ref", "box", "deref"):
                sp = sp["pat"]
            if sp.get("k") == "bind" and "sub" not in sp:
                binds.append((sp["id"], ()))
            elif sp.get("k") != "wild":
                raise Undecided("destructuring payload pattern")
        return True, binds
    raise Undecided("pattern kind %s on CardBody" % k)


class Interp:
    """Case-split evaluator (see module docstring)."""

    def __init__(self, F, fn, param_i, param_card, delegate):
        self.F = F
        self.fn = fn
        self.param_i = param_i
        self.param_card = param_card
        self.delegate = delegate  # callable(name, variant, i, L) -> value
        self.variant = None
        self.inlining = []        # short paths of the helpers being inlined (recursion guard)

    # --- places --------------------------------------------------------------------------------
    def place(self, e, env):
        e = hir_strip(e)
        k = e.get("k")
        if k == "path":
            r = e["path"]["res"]
            if r["k"] == "local" and r["id"] in env and isinstance(env[r["id"]], tuple) and (not env[r["id"]] or env[r["id"]][0] != "#val"):
                return env[r["id"]]
            return None
        if k == "field":
            p = self.place(e["e"], env)
            return None if p is None else p + (e["name"],)
        if k == "addr_of" or (k == "un" and e["op"] == "Deref"):
            return self.place(e["e"], env)
        if k == "mcall" and e["name"] in TRANSPARENT:
            return self.place(e["recv"], env)
        return None

    # --- expressions ---------------------------------------------------------------------------
    def ev(self, e, env):
        e = hir_strip(e)
        if e is None:
            return ("unit",)
        k = e.get("k")
        if k == "lit":
            l = e["lit"]
            if l["k"] == "int":
                return l["v"]
            if l["k"] == "bool":
                return bool(l["v"])
            raise Undecided("literal")
        if k == "cast":
            return self.ev(e["e"], env)
        if k == "path":
            r = e["path"]["res"]
            if r["k"] == "local":
                if r["id"] == self.param_i:
                    return self.i
                if self.param_card and r["id"] in self.param_card:
                    return ("newcard",)
                if r["id"] in env:
                    v = env[r["id"]]
                    if isinstance(v, tuple) and v and v[0] == "#val":
                        return v[1]
                    return ("ref", v)
                raise Undecided("unknown local %s" % r["name"])
            if r["k"] == "def":
                p = short(r["path"])
                if p.endswith("::None"):
                    return ("none",)
                raise Undecided("path " + p)
            raise Undecided("path")
        if k in ("addr_of",) or (k == "un" and e["op"] == "Deref"):
            p = self.place(e, env)
            if p is not None:
                return ("ref", p)
            return self.ev(e["e"], env)
        if k == "field":
            p = self.place(e, env)
            if p is None:
                raise Undecided("field of non-place")
            return ("ref", p)
        if k == "un" and e["op"] == "Not":
            v = self.ev(e["e"], env)
            if isinstance(v, bool):
                return not v
            raise Undecided("not")
        if k == "bin":
            op = e["op"]
            if op in ("And", "Or"):
                l = self.ev(e["l"], env)
                if not isinstance(l, bool):
                    raise Undecided("bool op")
                if op == "And":
                    return l and self._bool(self.ev(e["r"], env))
                return l or self._bool(self.ev(e["r"], env))
            l = self.ev(e["l"], env)
            r = self.ev(e["r"], env)
            if not (isinstance(l, int) and isinstance(r, int)) or isinstance(l, bool) or isinstance(r, bool):
                raise Undecided("arith on non-int")
            if op == "Add":
                return l + r
            if op == "Sub":
                if l - r < 0:
                    raise Panic()
                return l - r
            if op == "Lt":
                return l < r
            if op == "Le":
                return l <= r
            if op == "Gt":
                return l > r
            if op == "Ge":
                return l >= r
            if op == "Eq":
                return l == r
            if op == "Ne":
                return l != r
            raise Undecided("binop " + op)
        if k == "block":
            return self.block(e["block"], env)
        if k == "let":
            # `if let PAT = init` condition
            return self.bind_pat(e["pat"], self.ev(e["init"], env), env)
        if k == "if":
            c = self._bool(self.ev(e["cond"], env))
            if c:
                return self.ev(e["then"], env)
            if e.get("else") is not None:
                return self.ev(e["else"], env)
            return ("unit",)
        if k == "ret":
            raise Return(self.ev(e["e"], env) if e.get("e") is not None else ("unit",))
        if k == "assign":
            return self.assign(e, env)
        if k == "match":
            return self.match(e, env)
        if k == "call":
            return self.call(e, env)
        if k == "mcall":
            return self.mcall(e, env)
        if k == "tup" and not e["elems"]:
            return ("unit",)
        if k == "closure":
            return ("closure", e, dict(env))
        raise Undecided("expr kind %s" % k)

    def _int(self, v):
        if isinstance(v, int) and not isinstance(v, bool):
            return v
        raise Undecided("non-integer index")

    def _bool(self, v):
        if isinstance(v, bool):
            return v
        raise Undecided("non-bool condition")

    def block(self, bl, env):
        for st in bl["stmts"]:
            if st["k"] == "let":
                self.let(st, env)
            elif st["k"] in ("semi", "expr"):
                self.ev(st["e"], env)
            else:
                raise Undecided("item stmt")
        if bl.get("expr") is not None:
            return self.ev(bl["expr"], env)
        return ("unit",)

    def let(self, st, env):
        pat = st["pat"]
        init = st.get("init")
        if init is None:
            if pat.get("k") == "bind":
                env[pat["id"]] = ("#val", ("uninit",))
                return
            raise Undecided("let without init")
        if st.get("els") is not None:
            # let PAT = init else { diverge }
            if not self.bind_pat(pat, self.ev(init, env), env):
                self.block(st["els"], env)
                raise Undecided("let-else block does not diverge")
            return
        if pat.get("k") == "bind":
            p = self.place(init, env)
            if p is not None and classify(hir_strip(init).get("ty", "")) is not None:
                env[pat["id"]] = p
                return
            v = self.ev(init, env)
            if isinstance(v, tuple) and v[0] == "ref":
                env[pat["id"]] = v[1]
            else:
                env[pat["id"]] = ("#val", v)
            return
        if pat.get("k") == "struct":
            p = self.place(init, env)
            if p is None:
                raise Undecided("destructuring of non-place")
            for f in pat["fields"]:
                if f["pat"].get("k") == "bind":
                    env[f["pat"]["id"]] = p + (f["name"],)
                elif f["pat"].get("k") != "wild":
                    raise Undecided("nested destructuring")
            return
        raise Undecided("let pattern")

    def assign(self, e, env):
        l = hir_strip(e["l"])
        lid = hir_local_id(l)
        if lid is not None and lid in env and isinstance(env[lid], tuple) and env[lid] and env[lid][0] == "#val":
            v = self.ev(e["r"], env)
            env[lid] = ("#val", v)
            return ("unit",)
        p = self.place(l, env)
        if p is None:
            # *c = card where c holds a ref value
            inner = l
            if inner.get("k") == "un" and inner["op"] == "Deref":
                v = self.ev(inner["e"], env)
                if isinstance(v, tuple) and v[0] == "ref":
                    p = v[1]
        if p is None:
            raise Undecided("assignment target")
        v = self.ev(e["r"], env)
        if v != ("newcard",):
            raise Undecided("assignment of non-card")
        self.effects.append(("replace", p))
        return ("unit",)

    def match(self, e, env):
        src = e.get("source", "")
        if src.startswith("TryDesugar"):
            sc = hir_strip(e["scrut"])
            inner = sc["args"][0] if sc.get("k") == "call" else None
            if inner is None:
                raise Undecided("try desugar")
            v = self.ev(inner, env)
            if v == ("none",):
                raise Return(("none",))
            if isinstance(v, tuple) and v[0] == "some":
                return v[1]
            raise Undecided("? on non-option")
        sp = self.place(e["scrut"], env)
        if sp == SELF_BODY:
            return self.variant_match(e, env)
        v = self.ev(e["scrut"], env)
        for a in e["arms"]:
            if a.get("guard") is not None:
                raise Undecided("match guard")
            if self.bind_pat(a["pat"], v, env):
                return self.ev(a["body"], env)
        raise Undecided("no arm matched")

    def bind_pat(self, p, v, env):
        """Does value v match pattern p?  Binds the pattern's variables in env. Literals, `_`, Some(x)/None, x."""
        k = p.get("k")
        if k == "expr" and "lit" in p:
            return isinstance(v, int) and not isinstance(v, bool) and p["lit"]["k"] == "int" and p["lit"]["v"] == v
        if k == "wild":
            return True
        if k == "tuple_struct":
            nm = short(p["path"]["res"].get("ctor_of") or p["path"]["res"].get("path", ""))
            if nm.endswith("::Some"):
                if isinstance(v, tuple) and v[0] == "some":
                    sub = p["pats"][0]
                    if sub.get("k") == "bind" and "sub" not in sub:
                        inner = v[1]
                        env[sub["id"]] = inner[1] if (isinstance(inner, tuple) and inner[0] == "ref") else ("#val", inner)
                    elif sub.get("k") != "wild":
                        raise Undecided("nested pattern in Some(..)")
                    return True
                return False
            raise Undecided("match pattern " + nm)
        if k == "expr" and "path" in p:
            nm = short(p["path"]["res"].get("ctor_of") or p["path"]["res"].get("path", ""))
            if nm.endswith("::None"):
                return v == ("none",)
            raise Undecided("match pattern " + nm)
        if k == "bind" and "sub" not in p:
            env[p["id"]] = v[1] if (isinstance(v, tuple) and v and v[0] == "ref") else ("#val", v)
            return True
        raise Undecided("match pattern kind %s" % k)

    def variant_match(self, e, env):
        """`match self.body { .. }` (by value, & or &mut): the arm of the variant under consideration, first match wins.
        Payload bindings denote the payload place ()."""
        if self.variant is None:
            raise Undecided("match on self.body outside a per-variant evaluation")
        for a in e["arms"]:
            hit, binds = _variant_pat(a["pat"], self.variant)
            if not hit:
                continue
            if a.get("guard") is not None:
                raise Undecided("guard on a CardBody arm")
            for bid, pl in binds:
                env[bid] = pl
            return self.ev(a["body"], env)
        raise Undecided("no arm for %s" % self.variant)

    def call(self, e, env):
        names = hir_callee(e)
        f = hir_strip(e["f"])
        pname = ""
        if f.get("k") == "path" and f["path"]["res"]["k"] == "def":
            pname = short(f["path"]["res"]["path"])
        allnames = names + [pname]
        if any(n.endswith("::Some") for n in allnames):
            return ("some", self.ev(e["args"][0], env))
        if any(n.endswith("::Ok") for n in allnames):
            return ("ok",)
        if any(n.endswith("::Err") for n in allnames):
            return ("err",)
        if any(n.endswith("mem::replace") for n in allnames):
            dst = self.ev(e["args"][0], env)
            if isinstance(dst, tuple) and dst[0] == "ref":
                self.effects.append(("replace", dst[1]))
                return ("oldcard", dst[1])
            raise Undecided("replace target")
        if any(n in ("compiler::card::Card::get_child", "compiler::card::Card::get_child_mut") for n in allnames) and len(e["args"]) == 2:
            recv = self.ev(e["args"][0], env)
            if recv != ("ref", SELF) or self.delegate is None:
                raise Undecided("get_child on another card")
            nm = [n for n in allnames if n.startswith("compiler::card::Card::get_child")][0].rsplit("::", 1)[-1]
            return self.delegate(nm, self.variant, self.ev(e["args"][1], env), self.L)
        helper = self.helper_fn(allnames)
        if helper is not None:
            return self.inline(helper, [self.ev(a, env) for a in e["args"]])
        raise Undecided("call %s" % allnames)

    # --- helper functions ------------------------------------------------------------------------
    def helper_fn(self, names):
        """A crate-local function whose body is available (HIR) and can be inlined: params are plain bindings."""
        for n in names:
            if not n:
                continue
            f = self.F.fn(n, required=False)
            if f is None or f.hir is None or f.is_closure or f.raw.get("from_expansion"):
                continue
            if all(p.get("k") == "bind" and "sub" not in p for p in f.hir.get("params", [])):
                return f
        return None

    def inline(self, f, argvals):
        """Evaluate the body of helper f with its parameters bound to the evaluated arguments. Effects go to the same
        effect list; Return ends the helper; Panic/Undecided propagate."""
        params = f.hir["params"]
        if len(params) != len(argvals):
            raise Undecided("arity of %s" % f.short)
        if len(self.inlining) >= INLINE_DEPTH or f.short in self.inlining:
            raise Undecided("helper %s: recursion / nesting too deep" % f.short)
        env2 = {}
        for p, v in zip(params, argvals):
            env2[p["id"]] = v[1] if (isinstance(v, tuple) and v and v[0] == "ref") else ("#val", v)
        self.inlining.append(f.short)
        try:
            return self.ev(f.hir["body"], env2)
        except Return as r:
            return r.val
        finally:
            self.inlining.pop()

    def apply(self, fe, vals, env):
        """Call the callable expression fe (closure literal or path of a helper fn) with already evaluated values."""
        fe = hir_strip(fe)
        if fe.get("k") == "closure":
            params = fe.get("params", [])
            if len(params) != len(vals):
                raise Undecided("closure arity")
            for p, v in zip(params, vals):
                if not self.bind_pat(p, v, env):
                    raise Undecided("closure parameter pattern")
            return self.ev(fe["body"], env)
        if fe.get("k") == "path" and fe["path"]["res"]["k"] == "def":
            helper = self.helper_fn([short(fe["path"]["res"]["path"])])
            if helper is not None:
                return self.inline(helper, vals)
        raise Undecided("callable argument")

    def mcall(self, e, env):
        name = e["name"]
        names = hir_callee(e)
        if name in TRANSPARENT:
            p = self.place(e, env)
            if p is not None:
                return ("ref", p)
            return self.ev(e["recv"], env)
        if name == "into" and any(n.endswith("Into::into") for n in names):
            return self.ev(e["recv"], env)
        recv_place = self.place(e["recv"], env)
        cls = classify(hir_strip(e["recv"]).get("ty", "")) or classify(hir_strip(e["recv"]).get("ty_adj", "") or "")
        if name in ("get", "get_mut") and any("slice" in n for n in names):
            if recv_place is None or cls is None:
                raise Undecided("get on unknown place")
            idx = self._int(self.ev(e["args"][0], env))
            n = cls[1] if cls[0] == "array" else self.L
            if cls[0] == "card":
                raise Undecided("get on card")
            if 0 <= idx < n:
                return ("some", ("ref", recv_place + (("[]", idx),)))
            return ("none",)
        if name == "len" and recv_place is not None and cls is not None:
            return cls[1] if cls[0] == "array" else self.L
        if name == "remove" and cls == ("vec",) and recv_place is not None:
            idx = self._int(self.ev(e["args"][0], env))
            if not (0 <= idx < self.L):
                raise Panic()
            self.effects.append(("remove", recv_place, idx))
            return ("oldcard", recv_place + (("[]", idx),))
        if name == "insert" and cls == ("vec",) and recv_place is not None:
            idx = self._int(self.ev(e["args"][0], env))
            c = self.ev(e["args"][1], env)
            if c != ("newcard",):
                raise Undecided("insert of non-card")
            if not (0 <= idx <= self.L):
                raise Panic()
            self.effects.append(("insert", recv_place, idx))
            return ("unit",)
        if name in ("checked_sub", "checked_add") and any(n.startswith("core::num::") for n in names) and len(e["args"]) == 1:
            l = self._int(self.ev(e["recv"], env))
            r = self._int(self.ev(e["args"][0], env))
            if name == "checked_add":
                return ("some", l + r)
            return ("some", l - r) if l >= r else ("none",)
        if name == "then_some":
            c = self._bool(self.ev(e["recv"], env))
            v = self.ev(e["args"][0], env)
            return ("some", v) if c else ("none",)
        if name == "then":
            c = self._bool(self.ev(e["recv"], env))
            clo = hir_strip(e["args"][0])
            if clo.get("k") != "closure":
                raise Undecided("then with non-closure")
            if c:
                return ("some", self.ev(clo["body"], env))
            return ("none",)
        if name == "or_else":
            v = self.ev(e["recv"], env)
            if isinstance(v, tuple) and v[0] == "some":
                return v
            clo = hir_strip(e["args"][0])
            if clo.get("k") != "closure":
                raise Undecided("or_else with non-closure")
            return self.ev(clo["body"], env)
        if name == "ok_or":
            v = self.ev(e["recv"], env)
            return v
        if name in ("map", "and_then") and any(n.endswith("Option::" + name) for n in names):
            v = self.ev(e["recv"], env)
            if v == ("none",):
                return v
            if not (isinstance(v, tuple) and v[0] == "some"):
                raise Undecided("%s on non-option" % name)
            r = self.apply(e["args"][0], [v[1]], env)
            return ("some", r) if name == "map" else r
        if name in ("get_child_mut", "get_child") and any(n.startswith("compiler::card::Card::") for n in names):
            if recv_place is not None and recv_place != SELF:
                raise Undecided("%s on another card" % name)
            idx = self.ev(e["args"][0], env)
            return self.delegate(name, self.variant, idx, self.L)
        helper = self.helper_fn(names)
        if helper is not None:
            return self.inline(helper, [self.ev(e["recv"], env)] + [self.ev(a, env) for a in e["args"]])
        raise Undecided("method %s" % name)


def param_ids(fn):
    ps = fn.hir["params"]
    ids = {}
    for p in ps:
        if p.get("k") == "bind":
            ids[p["name"]] = p["id"]
    return ids


def accessor_params(fn):
    """(id of self, id of the index parameter, ids of the inserted-card parameter) of an indexed accessor, by type:
    the index is the usize parameter, the card is what remains."""
    self_id = i_id = None
    cards = set()
    for p in fn.hir["params"]:
        if p.get("k") != "bind":
            return None, None, set()
        if p["name"] == "self":
            self_id = p["id"]
        elif p.get("ty", "").strip() == "usize" and i_id is None:
            i_id = p["id"]
        else:
            cards.add(p["id"])
    return self_id, i_id, cards


def body_match(fn):
    """The `match` over self.body of an accessor, wherever it stands in the body (None if there is none)."""
    for x in hir_walk(fn.hir["body"]):
        if x.get("k") == "match" and not str(x.get("source", "")).startswith("TryDesugar"):
            names = [n for a in x["arms"] for n, _s, _p in pat_variants(a["pat"])]
            if sum(1 for n in names if n.startswith(CARDBODY + "::")) >= 8:
                return x
    return None


class Accessors:
    """All seven accessors of impl Card, evaluated per variant."""

    INDEXED = ("get_child", "get_child_mut", "remove_child", "insert_child")

    def __init__(self, F):
        self.F = F
        self.variants = F.enum_variants(CARDBODY)
        self.fns = {}
        self.arms = {}
        for name in ("num_children", "iter_children", "iter_children_mut") + self.INDEXED:
            fn = F.fn("compiler::card::Card::" + name)
            arms, pre, tail = arms_of(fn)
            if arms is None and (name not in self.INDEXED or body_match(fn) is None):
                from cao.facts import AnchorMissing
                raise AnchorMissing("match on CardBody in Card::%s" % name)
            self.fns[name] = fn
            self.arms[name] = (arms, pre, tail)

    def arm_for(self, name, variant):
        arms = self.arms[name][0] or []
        for a in arms:
            if variant in a.variants:
                return a
        for a in arms:
            if "_" in a.variants:
                return a
        return None

    def outcome(self, name, variant, i, L):
        """One case of the split: ('slot', place) | ('elem', place, k) | ('list', place, idx) | ('fail',) |
        ('silent',) | ('panic',)"""
        fn = self.fns[name]
        self_id, i_id, card_ids = accessor_params(fn)
        if self_id is None or i_id is None:
            raise Undecided("parameters of %s" % name)
        # the whole body is evaluated; the match on self.body resolves to the arm of `variant` (Interp.variant_match)
        env = {self_id: SELF}
        interp = Interp(self.F, fn, i_id, card_ids, self._delegate)
        interp.i, interp.L, interp.variant, interp.effects = i, L, variant, []
        try:
            val = interp.ev(fn.hir["body"], env)
            how = "return"
        except Return as r:
            how, val = "return", r.val
        except Panic:
            how, val = "panic", None
        return self.classify_outcome(name, how, val, interp.effects)

    def _delegate(self, name, variant, idx, L):
        if not isinstance(idx, int):
            raise Undecided("delegation with non-int index")
        o = self.outcome(name, variant, idx, L)
        if o[0] == "slot":
            return ("some", ("ref", o[1]))
        if o[0] == "elem":
            return ("some", ("ref", o[1] + (("[]", o[2]),)))
        if o[0] == "fail":
            return ("none",)
        raise Undecided("delegate outcome %s" % (o,))

    def classify_outcome(self, name, how, val, effects):
        if how == "panic":
            return ("panic",)
        if name in ("get_child", "get_child_mut"):
            v = val
            if v == ("none",):
                return ("fail",)
            if isinstance(v, tuple) and v[0] == "some" and isinstance(v[1], tuple) and v[1][0] == "ref":
                return self._place_outcome(v[1][1])
            raise Undecided("get result %s" % (v,))
        if name == "remove_child":
            v = val
            if v == ("none",):
                if effects:
                    raise Undecided("failure after effects")
                return ("fail",)
            if isinstance(v, tuple) and v[0] == "some":
                v = v[1]
            if isinstance(v, tuple) and v[0] == "oldcard" and len(effects) == 1:
                ef = effects[0]
                if ef[0] == "replace":
                    return self._place_outcome(ef[1])
                if ef[0] == "remove":
                    return ("list", ef[1], ef[2])
            raise Undecided("remove result %s / %s" % (v, effects))
        if name == "insert_child":
            if val == ("err",):
                if effects:
                    raise Undecided("Err after effects")
                return ("fail",)
            if len(effects) == 1:
                ef = effects[0]
                if ef[0] == "replace":
                    return self._place_outcome(ef[1])
                if ef[0] == "insert":
                    return ("list", ef[1], ef[2])
            if not effects:
                return ("silent",)
            raise Undecided("insert effects %s" % (effects,))
        raise Undecided(name)

    @staticmethod
    def _place_outcome(p):
        if p and isinstance(p[-1], tuple) and p[-1][0] == "[]":
            return ("elem", p[:-1], p[-1][1])
        return ("slot", p)


def iter_shape(acc, name, variant):
    """Shape produced by iter_children / iter_children_mut: list of ('slot', place) / ('elem', place, k) entries followed
    by optional ('rest', place) for a Vec."""
    fn = acc.fns[name]
    arm = acc.arm_for(name, variant)
    if arm is None:
        raise Undecided("no arm")
    interp = Interp(acc.F, fn, None, None, None)
    env = dict(arm.env)
    e = hir_strip(arm.body)
    # Box::new(ITER)
    if e.get("k") == "call" and any(n.endswith("Box::new") or n.endswith("Box::<T>::new") for n in hir_callee(e)):
        e = e["args"][0]
    return _iter(interp, e, env)


def _iter(interp, e, env):
    e = hir_strip(e)
    k = e.get("k")
    if k == "mcall":
        name = e["name"]
        if name in ("iter", "iter_mut"):
            p = interp.place(e["recv"], env)
            cls = classify(hir_strip(e["recv"]).get("ty", "")) or classify(hir_strip(e["recv"]).get("ty_adj", "") or "")
            if p is None or cls is None:
                raise Undecided("iter on unknown place")
            if cls[0] == "array":
                return [("elem", p, n) for n in range(cls[1])], None
            if cls[0] == "vec":
                return [], p
            raise Undecided("iter on card")
        if name == "into_iter":
            r = hir_strip(e["recv"])
            if r.get("k") == "array":
                out = []
                for x in r["elems"]:
                    p = interp.place(x, env)
                    if p is None:
                        raise Undecided("array element not a place")
                    out.append(("slot", p))
                return out, None
            return _iter(interp, r, env)
        if name == "chain":
            a, ra = _iter(interp, e["recv"], env)
            if ra is not None:
                raise Undecided("chain after a list")
            b, rb = _iter(interp, e["args"][0], env)
            return a + b, rb
        raise Undecided("iterator method %s" % name)
    if k == "call":
        names = hir_callee(e)
        if any(n.endswith("iter::once") for n in names):
            p = interp.place(e["args"][0], env)
            if p is None:
                raise Undecided("once of non-place")
            return [("slot", p)], None
        if any(n.endswith("iter::empty") for n in names):
            return [], None
    raise Undecided("iterator expression %s" % k)


def count_shape(acc, variant):
    """num_children arm -> (constant, list place or None)"""
    fn = acc.fns["num_children"]
    arm = acc.arm_for("num_children", variant)
    if arm is None:
        raise Undecided("no arm")
    interp = Interp(acc.F, fn, None, None, None)
    return _count(interp, arm.body, dict(arm.env))


def _count(interp, e, env):
    e = hir_strip(e)
    while e.get("k") == "cast":
        e = hir_strip(e["e"])
    k = e.get("k")
    if k == "lit" and e["lit"]["k"] == "int":
        return e["lit"]["v"], None
    if k == "mcall" and e["name"] == "len":
        p = interp.place(e["recv"], env)
        cls = classify(hir_strip(e["recv"]).get("ty", "")) or classify(hir_strip(e["recv"]).get("ty_adj", "") or "")
        if p is None or cls is None:
            raise Undecided("len of unknown place")
        if cls[0] == "array":
            return cls[1], None
        return 0, p
    if k == "bin" and e["op"] == "Add":
        a, pa = _count(interp, e["l"], env)
        b, pb = _count(interp, e["r"], env)
        if pa is not None and pb is not None:
            raise Undecided("two lists")
        return a + b, pa or pb
    raise Undecided("count expression %s" % k)
