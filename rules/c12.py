"""C12 — The hash map is a faithful map.

History property taken whole; decided here: preservation of the representation invariants of open addressing with
linear probing by every mutator of collections::hash_map::CaoHashMap.

  C12.R  slot/count pairing: emptying a slot decrements `count`, filling one increments it, whole-table resets zero it.
  C12.H  one home-slot function: every hash->bucket computation is the same expression.
  C12.I  no slot index from find_ind is used after a call that can reallocate.
  C12.G  every insertion path evaluates the load-factor condition (a free slot always remains, so probes terminate).
  C12.Z  the reserved hash value 0 (EMPTY marker) is mapped away by hash().
  C12.B  single-slot removal repairs the probe chain (back-shift loop that ends by emptying the last moved-from slot).
  C12.E  adjust_capacity performs its fallible allocation before it mutates the map.
"""
from cao.facts import AnchorMissing, callee_names, short, op_local, op_place, DefUse, hir_walk, hir_callee, hir_strip
from cao.rules import Rule, ok, bad, undecided, note
from cao import tables as tb
from cao import mirutil as mu
from cao import hirutil as hu

EXPLANATION = (
    "Open addressing with linear probing behaves as a mathematical map for every operation history iff each mutator "
    "preserves a short list of representation invariants; each invariant is maintained at a handful of write sites in "
    "hash_map.rs which the rules find by type (the u64 hash array) and resolved callee: (R) slot writes of the EMPTY marker "
    "/ of a real hash are paired with count -= 1 / += 1 on the same path, whole-table resets with count = 0; (H) all "
    "hash->bucket expressions (Rem by capacity that is not a probe step) are the same normalised expression; (I) no "
    "value returned by find_ind is read after a call in the call-graph closure of adjust_capacity; (G) each construction "
    "of a Vacant entry payload and each count increment lies on a path that evaluates needs_grow; (Z) hash()'s return "
    "value is not a plain copy of Hasher::finish(); (B) the function that empties a single slot contains a back-shift loop "
    "and empties the final hole after it; (E) in adjust_capacity the only error exits after the first mutation come from "
    "re-insertion. Not decided: drop-exactly-once (ptr::read/drop_in_place linearity), equality with a reference map as such."
)
ASSUMPTIONS = [
    "re-insertion during adjust_capacity cannot allocate (capacity was just raised) — stated, not decided",
    "Eq/Hash of the key type are consistent (C19 for Value)",
]


def table(F):
    return tb.Table(F, "C12", "CaoHashMap", "collections::hash_map", ("u64",), None, None)


def _table_cached(F):
    t = getattr(F, "_c12_table", None)
    if t is None:
        t = F._c12_table = table(F)
    return t


def rule_r(F):
    return tb.rule_pairing(table(F), "R")


def rule_h(F):
    return tb.rule_home(table(F), "H")


def rule_i(F):
    return tb.rule_stale(table(F), "I")


def rule_g(F):
    return tb.rule_guard(table(F), "G")


def _nd_literals(cond):
    """cond as a list of conjunct/disjunct literals: returns (shape, [(neg, T)]) with shape in 'and','or','single','other'"""
    def lit(e, neg=False):
        e = hu.strip_all(e)
        if e is None:
            return None
        if e.get("k") == "un" and e.get("op") == "Not":
            return lit(e["e"], not neg)
        if e.get("k") == "call" and any(n.endswith("mem::needs_drop") for n in hir_callee(e)):
            a = (e["f"].get("path") or {}).get("args") or []
            return (neg, a[0] if a else "?")
        return None
    c = hu.strip_all(cond)
    l = lit(c)
    if l is not None:
        return "single", [l]
    if c.get("k") == "bin" and c.get("op") in ("And", "Or"):
        out = []
        stack = [c]
        while stack:
            x = hu.strip_all(stack.pop())
            if x.get("k") == "bin" and x.get("op") == c["op"]:
                stack += [x["l"], x["r"]]
            else:
                y = lit(x)
                if y is None:
                    return "other", []
                out.append(y)
        return c["op"].lower(), out
    return "other", []


def rule_d(F):
    """C12.D: a `needs_drop::<T>()` test may only decide whether the elements *of type T* are dropped. The accepted shapes are
    `if needs_drop::<T>() { drop_in_place(<*mut T>) }` (nothing else in the branch, no else) and fast paths whose condition
    says that *neither* the key nor the value type needs dropping. A test on one type that gates the other type's drops
    (or the whole slot walk) forgets the other half: keys with a destructor stored with plain values are never dropped."""
    res = []
    fns = [f for f in F.fns if f.hir and not f.hir.get("exp") and "collections::hash_map" in f.path]
    tys = set()
    sites = []
    for f in fns:
        for y in hir_walk(f.hir["body"]):
            if y.get("k") == "if":
                shape, lits = _nd_literals(y["cond"])
                mentions = any(z.get("k") == "call" and any(n.endswith("mem::needs_drop") for n in hir_callee(z)) for z in hir_walk(y["cond"]))
                if mentions:
                    sites.append((f, y, shape, lits))
                    tys |= set(t for _, t in lits)
    if len(sites) < 4 or len(tys) < 2:
        raise AnchorMissing("needs_drop tests in hash_map.rs (found %d over types %s)" % (len(sites), sorted(tys)))
    cnt = {}
    for f, y, shape, lits in sites:
        fname = (f.root or f.short).rsplit("::", 1)[-1]
        base = "C12/D/%s/needs_drop<%s>" % (fname, ",".join(("!" if n else "") + t for n, t in sorted(lits, key=lambda x: x[1])) or "?")
        k = cnt.get(base, 0)
        cnt[base] = k + 1
        key = base + ("" if k == 0 else "#%d" % k) + "/gates-only-its-own-drops"
        loc = f.loc(y.get("ln"))
        if shape == "single" and not lits[0][0]:
            t = lits[0][1]
            body = hu.strip_all(y["then"])
            effects = [z for z in hir_walk(body) if z.get("k") in ("call", "mcall", "assign", "assign_op", "ret", "break", "continue")]
            foreign = []
            for z in effects:
                names = hir_callee(z) if z.get("k") in ("call", "mcall") else []
                if z.get("k") == "call" and any(n.endswith("ptr::drop_in_place") for n in names):
                    pty = (z["args"][0].get("ty") or "") if z.get("args") else ""
                    if not pty.replace(" ", "").endswith("mut" + t):
                        foreign.append("drop_in_place(%s)" % pty)
                    continue
                if z.get("k") == "mcall" and z.get("name") in ("add", "as_ptr", "offset", "cast"):
                    continue
                foreign.append(z.get("name") or (names[0] if names else z.get("k")))
            if y.get("else") is not None and [z for z in hir_walk(y["else"]) if z.get("k") in ("call", "mcall", "assign", "ret")]:
                foreign.append("else-branch")
            if foreign:
                res.append(bad("C12.D", key, loc, "in %s the test needs_drop::<%s>() gates more than the drop of the %s elements (%s): when %s "
                               "is plain data the other half of the entry is skipped too - every key and value must be dropped exactly once"
                               % (fname, t, t, ", ".join(map(str, foreign[:3])), t)))
            else:
                res.append(ok("C12.D", key, loc, "gates only drop_in_place of the %s array" % t))
        elif (shape in ("and", "single") and all(n for n, _ in lits)) or (shape == "or" and not any(n for n, _ in lits)):
            covered = set(t for _, t in lits)
            if covered >= tys:
                res.append(ok("C12.D", key, loc, "fast path / full walk decided on all of %s" % sorted(tys)))
            else:
                res.append(bad("C12.D", key, loc, "in %s a branch is chosen on needs_drop of %s only, while the map also stores %s: on that "
                               "branch the elements of the other type are not dropped (e.g. String keys with plain values leak on clear) - "
                               "every key and value must be dropped exactly once" % (fname, sorted(covered), sorted(tys - covered))))
        else:
            res.append(note("C12.D", key, loc, "needs_drop test of another shape: not judged"))
    return res


def rule_j(F):
    """C12.J: a resize moves entries, it does not insert them. The entries of a map are distinct by construction, whatever
    their keys compare like at the time of the resize (keys compared by content - tables used as table keys - can become
    equal after they were stored). The function that re-allocates the storage therefore must not go through anything that
    looks for an equal key (insert / insert_with_hint / entry / find_ind / a PartialEq::eq on keys): an equal key found
    there replaces an entry, the count comes out short and the consistency assertion panics in an unrelated insert."""
    res = []
    LOOKUPS = ("insert", "insert_with_hint", "entry", "find_ind", "get", "get_mut", "contains", "remove", "remove_with_hint")

    def is_lookup(n):
        return ("CaoHashMap::" in n and n.rsplit("::", 1)[-1] in LOOKUPS) or n.endswith("PartialEq::eq") or n.endswith("cmp::PartialEq::ne")

    def unit(f):
        """f, the private functions of the map it calls (transitively; the loop over the old slots may have been split off
        into helpers) and their closures. Functions that look keys up are not entered: calling one is the offence."""
        out, work = [f], [f]
        while work:
            g = work.pop()
            for h in F.closures_of.get(g.short, []):
                if h.mir and h not in out:
                    out.append(h)
                    work.append(h)
            for _bi, t in mu.calls(g):
                for n in callee_names(t["func"]):
                    if not n.startswith("collections::hash_map::CaoHashMap::") or is_lookup(n) or n.endswith("alloc_storage"):
                        continue
                    h = F.fn(n, required=False)
                    if h is not None and h.mir and h not in out and len(out) < 40:
                        out.append(h)
                        work.append(h)
        return out
    cands = [f for f in F.fns if f.mir and not f.is_closure and "collections::hash_map::CaoHashMap" in f.path and
             any(any(n.endswith("alloc_storage") for n in callee_names(t["func"])) for _bi, t in mu.calls(f))]
    resizers = [f for f in cands if any(st["k"] == "assign" and mu.field_path(st["place"])[-1:] == ["count"] for b in f.blocks for st in b["stmts"])
                or any(any(n.endswith("mem::replace") or n.endswith("mem::swap") for n in callee_names(t["func"])) for _bi, t in mu.calls(f))]
    resizers = [f for f in resizers if any(g.cfg.back_edges() for g in unit(f))]
    if not resizers:
        raise AnchorMissing("the re-allocating function of CaoHashMap (alloc_storage + a loop over the old slots)")
    for f in resizers:
        key = "C12/J/%s/entries-are-moved-not-inserted" % f.name
        offenders = []
        for g in unit(f):
            for bi, t in mu.calls(g):
                for n in callee_names(t["func"]):
                    if is_lookup(n):
                        offenders.append((g, t, n))
        if offenders:
            g, t, n = offenders[0]
            res.append(bad("C12.J", key, g.loc(t.get("ln")),
                           "%s re-inserts the entries of the old storage through %s, which looks for an equal key first: two keys that are "
                           "compared by content and became equal after they were stored (tables used as keys and mutated since) collapse "
                           "into one entry, the count comes out short and the 'inconsistent count' assertion panics in the middle of an "
                           "unrelated insert" % (f.name, n.rsplit("::", 1)[-1])))
        else:
            res.append(ok("C12.J", key, f.loc(), "the old entries are copied to free slots of their probe sequences; no key comparison"))
    return res


def rule_w(F):
    """C12.W: a slot never keeps a dropped element. In a function that drops an element in place and does not empty the slot
    (no hash is zeroed there), every `drop_in_place(<array>.add(i))` is followed, on every path to the return, by a
    `ptr::write(<same array>.add(..), ..)`: the overwrite of an existing key replaces both halves of the entry. A key that
    is dropped but not re-written stays in the table as a dangling object: it is dropped again by the next overwrite /
    clear / drop of the map, and lookups compare against freed memory."""
    from cao.facts import DefUse
    res = []
    n = 0
    for f in F.fns:
        if not f.mir or f.is_closure or "collections::hash_map" not in f.path or f.hir is None or f.hir.get("exp"):
            continue
        du = DefUse(f)
        cfg = f.cfg

        def array_of(op, depth=0):
            """which of the map's arrays ('keys' / 'values') a pointer operand points into"""
            l = op_local(op)
            seen = set()
            while l is not None and l not in seen and depth < 20:
                depth += 1
                seen.add(l)
                d = du.sole_def(l)
                if d is None:
                    nm_ = f.local_name(l)
                    return nm_ if nm_ in ("keys", "values") else None
                if d[2] == "call":
                    t_ = d[3]
                    cn = callee_names(t_["func"])
                    if any(x.rsplit("::", 1)[-1] in ("add", "offset", "as_ptr", "cast", "sub", "wrapping_add") for x in cn) and t_["args"]:
                        l = op_local(t_["args"][0])
                        continue
                    return None
                rv = d[3]["rv"]
                pl = None
                if rv["k"] in ("use", "cast"):
                    pl = op_place(rv["op"])
                elif rv["k"] in ("ref", "rawptr"):
                    pl = rv["place"]
                if pl is None:
                    return None
                flds = [e["name"] for e in pl["p"] if e["k"] == "field"]
                if flds and flds[-1] in ("keys", "values"):
                    return flds[-1]
                if flds and flds[-1] not in ("pointer", "0"):
                    return None
                l = pl["l"]
            return None
        drops, writes = [], {}
        zeroes = False
        for bi, t in mu.calls(f):
            cn = callee_names(t["func"])
            if any(x.endswith("ptr::drop_in_place") for x in cn) and t["args"]:
                a = array_of(t["args"][0])
                if a:
                    drops.append((bi, t, a))
            if any(x.endswith("ptr::write") for x in cn) and t["args"]:
                a = array_of(t["args"][0])
                if a:
                    writes.setdefault(a, set()).add(bi)
            if any(x.rsplit("::", 1)[-1] in ("zero_hashes", "dealloc", "fill", "clear_arrays") for x in cn):
                zeroes = True
        for b in f.blocks:
            for st in b["stmts"]:
                if st["k"] == "assign" and st["rv"]["k"] == "use" and st["rv"]["op"].get("k") == "const" and st["rv"]["op"].get("val") == 0 \
                        and any(e["k"] in ("deref", "index") for e in st["place"]["p"]) and "u64" in str(st["rv"]["op"].get("ty", "u64")):
                    zeroes = True
        if drops and not zeroes and not f.is_closure:
            # the slot may be emptied by a private function of the map that this one calls (`self.close_hole(i)`)
            T = _table_cached(F)
            for h, _call in (tb.direct_callees(T, f) if f.hir else []):
                if any(w["kind"] == "vacate" and not w["in_loop"] for w in T.slot_writes(h)):
                    zeroes = True
                    break
        if not drops or zeroes:
            continue
        fname = (f.root or f.short).rsplit("::", 1)[-1]
        cnt = {}
        for bi, t, a in drops:
            k = cnt.get(a, 0)
            cnt[a] = k + 1
            n += 1
            key = "C12/W/%s/dropped-%s-slot-is-rewritten%s" % (fname, a, "" if k == 0 else "#%d" % k)
            good = t.get("target") is not None and cfg.every_path_passes(t["target"], cfg.return_blocks(), writes.get(a, set()))
            if good:
                res.append(ok("C12.W", key, f.loc(t.get("ln")), "every path from the drop to the return writes a new element into `%s`" % a))
            else:
                res.append(bad("C12.W", key, f.loc(t.get("ln")),
                               "%s drops the element of `%s` in place and can return without writing a new one into that array, while the slot "
                               "stays occupied: the entry keeps a dropped %s - it is dropped a second time by the next overwrite, clear or drop "
                               "of the map, and lookups compare against freed memory (keys that own memory no longer match)" %
                               (fname, a, "key" if a == "keys" else "value")))
    if n < 2:
        raise AnchorMissing("in-place drops in overwriting functions of hash_map.rs (found %d)" % n)
    return res


def rule_z(F):
    res = []
    f = F.fn("collections::hash_map::hash")
    du = DefUse(f)
    # is the returned value a plain copy of Hasher::finish()?
    cfg = f.cfg
    plain = False
    mapped = False
    finish_locals = set()
    for bi, t in mu.calls(f):
        if any(n.endswith("Hasher::finish") or n.endswith("::finish") for n in callee_names(t["func"])):
            finish_locals.add(t["dest"]["l"])
    if not finish_locals:
        raise AnchorMissing("Hasher::finish in hash_map::hash")
    # assignments to _0
    for b in f.blocks:
        for st in b["stmts"]:
            if st["k"] == "assign" and st["place"]["l"] == 0 and not st["place"]["p"]:
                rv = st["rv"]
                if rv["k"] == "use":
                    l = op_local(rv["op"])
                    seen = set()
                    while l is not None and l not in finish_locals and l not in seen:
                        seen.add(l)
                        d = du.sole_def(l)
                        if d is None or d[2] != "assign" or d[3]["rv"]["k"] != "use":
                            break
                        l = op_local(d[3]["rv"]["op"])
                    if l in finish_locals:
                        plain = True
                    else:
                        mapped = True
                else:
                    mapped = True
        t = b["term"]
        if t["k"] == "call" and t["dest"]["l"] == 0:
            mapped = True
    # a branch on `result == 0` that assigns a constant also counts as mapping (then _0 has >1 assignments)
    n_assign = sum(1 for b in f.blocks for st in b["stmts"] if st["k"] == "assign" and st["place"]["l"] == 0 and not st["place"]["p"])
    if plain and n_assign == 1:
        res.append(bad("C12.Z", "C12/Z/hash/zero-mapped-away", f.loc(),
                       "hash() returns Hasher::finish() unchanged; 0 is the EMPTY marker of the hash array (only a debug_assert guards it): a key "
                       "hashing to 0 is stored in a slot that still reads as empty (lost on the next insert, panics in debug builds)"))
    else:
        res.append(ok("C12.Z", "C12/Z/hash/zero-mapped-away", f.loc(), "hash() post-processes the hasher output (0 is mapped away)"))
    return res


def rule_b(F):
    """back-shift: the single-slot removal contains a loop that moves entries (itself or in a private function it calls),
    and the EMPTY write happens after it, on the final hole (cao/tables.py rule_backshift)"""
    T = table(F)
    res = tb.rule_backshift(T, F, "B", "backshift", power_of_two=False)
    if not res:
        f = T.fn("remove_with_hint")
        res.append(undecided("C12.B", "C12/B/remove_with_hint/backshift", f.loc(), "no single-slot vacate found"))
    return res


def backshift_instances(f, rid, keybase, power_of_two, F=None, slot_tys=()):
    from cao import backshift as bs
    out = []
    r = bs.analyse(f, power_of_two, F, slot_tys)
    if r is None:
        return out
    seen = {}
    for suffix, status, msg, ln in r:
        n = seen.get(suffix, 0)
        seen[suffix] = n + 1
        key = "%s/%s%s" % (keybase, suffix, "" if n == 0 else "#%d" % n)
        mk = {"ok": ok, "bad": bad, "undecided": undecided}[status]
        out.append(mk(rid, key, f.loc(ln), msg))
    return out


def hu_end_line(e):
    m = e.get("ln", 0)
    for x in hir_walk(e):
        if x.get("ln") and x["ln"] > m:
            m = x["ln"]
    return m


def rule_e(F):
    res = []
    T = table(F)
    f = T.fn("adjust_capacity")
    cfg = f.cfg
    du = DefUse(f)
    # first mutation: mem::swap / mem::replace on self fields, or assignment to a field of *self
    muts = []
    for bi, t in mu.calls(f):
        if any(n.endswith("mem::swap") or n.endswith("mem::replace") for n in callee_names(t["func"])):
            muts.append(bi)
    for bi, b in enumerate(f.blocks):
        for st in b["stmts"]:
            if st["k"] == "assign" and st["place"]["l"] == 1 and any(e["k"] == "field" for e in st["place"]["p"]):
                muts.append(bi)
    allocs = [bi for bi, t in mu.calls(f) if any(n.endswith("alloc_storage") for n in callee_names(t["func"]))]
    if not muts or not allocs:
        raise AnchorMissing("alloc_storage / mutation in adjust_capacity")
    first_mut = min(muts, key=lambda b: len(cfg.dom.get(b, ())))
    if cfg.dominates(allocs[0], first_mut):
        res.append(ok("C12.E", "C12/E/adjust_capacity/alloc-before-mutation", f.loc(), "the fallible allocation dominates the first mutation of the map"))
    else:
        res.append(bad("C12.E", "C12/E/adjust_capacity/alloc-before-mutation", f.loc(), "the map is modified before the new storage has been allocated: a failed allocation leaves it half-updated"))
    # error exits after the first mutation
    from rules.c16 import origin_call_block
    late = []
    for bi, t in mu.calls(f):
        if any(x.endswith("from_residual") for x in callee_names(t["func"])) and t["dest"]["l"] == 0 and bi in cfg.reachable_from(first_mut):
            a0 = op_local(t["args"][0])
            src = origin_call_block(f, du, a0) if a0 is not None else None
            nm = callee_names(f.blocks[src]["term"]["func"]) if src is not None else []
            late.append((t.get("ln"), nm))
    only_reinsert = all(any(n.endswith("insert_with_hint") for n in nm) for _ln, nm in late)
    if only_reinsert:
        res.append(ok("C12.E", "C12/E/adjust_capacity/no-other-failure-after-mutation", f.loc(),
                      "after the swap the only fallible step is re-insertion (%d site), which cannot allocate because capacity was just raised (assumption)" % len(late)))
    else:
        res.append(bad("C12.E", "C12/E/adjust_capacity/no-other-failure-after-mutation", f.loc(late[0][0]), "a fallible step other than re-insertion follows the mutation of the map"))
    # insert_with_hint: an insert that reports a failure has not inserted - every error exit lies before the first store
    # into the slot arrays / the count (callers such as CaoLangTable::insert keep their own key list in step with the
    # reported outcome)
    g = T.fn("insert_with_hint")
    gcfg = g.cfg
    stores = set()
    for bi, b in enumerate(g.blocks):
        for st in b["stmts"]:
            if st["k"] == "assign" and st["place"]["p"] and st["place"]["p"][-1]["k"] in ("index", "deref", "field"):
                names = mu.field_path(st["place"])
                if (st["place"]["l"] == 1 and names[-1:] == ["count"]) or st["place"]["p"][-1]["k"] == "index":
                    stores.add(bi)
    for bi, t in mu.calls(g):
        if any(n.endswith("ptr::write") or n.endswith("ptr::mut_ptr::write") or n.endswith("copy_nonoverlapping") for n in callee_names(t["func"])):
            stores.add(bi)
    errs = [bi for bi, t in mu.calls(g) if any(x.endswith("from_residual") for x in callee_names(t["func"])) and t["dest"]["l"] == 0]
    if not stores:
        raise AnchorMissing("stores in CaoHashMap::insert_with_hint")
    key = "C12/E/insert_with_hint/failure-before-any-store"
    late2 = [e for e in errs if any(e in gcfg.reachable_from(sb) for sb in stores)]
    if late2:
        res.append(bad("C12.E", key, g.loc(g.blocks[late2[0]]["term"].get("ln")),
                       "insert_with_hint can return an error after it has stored the entry (the growth follows the store): the caller is "
                       "told the insert failed while the key is in the map - CaoLangTable then skips its key list, the key is found by get "
                       "but invisible to len, iteration and pop"))
    else:
        res.append(ok("C12.E", key, g.loc(), "all %d error exit(s) precede the first store" % len(errs)))
    return res


def rule_f(F):
    """the growth test is not off by one: see cao/capacity.py free_slot_after_insert"""
    from cao import capacity
    res = []
    for f, ln, status, msg in capacity.free_slot_after_insert(F, "collections::hash_map::CaoHashMap", False):
        key = "C12/F/%s/free-slot-after-insert" % f.name
        mk = {"ok": ok, "bad": bad, "undecided": undecided}[status]
        if any(r["key"] == key for r in res):
            key += "#%d" % sum(1 for r in res if r["key"].startswith(key))
        res.append(mk("C12.F", key, f.loc(ln), msg))
    if not res:
        raise AnchorMissing("growth tests in the insertion functions")
    return res


def rule_k(F):
    """every resize leaves a free slot: for each call of adjust_capacity, in all small states (count < capacity) in which the
    guards around the call hold, the installed capacity exceeds the item count (cao/capacity.py, exhaustive evaluation)."""
    res = []
    for f, ln, status, msg in tb.free_slot_after_resize(table(F), False):
        key = "C12/K/%s/free-slot-after-resize" % f.name
        mk = {"ok": ok, "bad": bad, "undecided": undecided}[status]
        res.append(mk("C12.K", key, f.loc(ln), msg))
    if not res:
        raise AnchorMissing("calls of adjust_capacity")
    return res


RULES = [
    Rule("C12.D", rule_d, 5, "a needs_drop test gates only the drops of its own element type"),
    Rule("C12.J", rule_j, 1, "a resize moves the entries without comparing keys"),
    Rule("C12.W", rule_w, 2, "a slot that stays occupied never keeps a dropped element"),
    Rule("C12.F", rule_f, 2, "when the growth test declines a free slot remains after the insertion"),
    Rule("C12.K", rule_k, 2, "every resize leaves a free slot"),
    Rule("C12.R", rule_r, 4, "slot/count pairing in CaoHashMap"),
    Rule("C12.H", rule_h, 1, "one home-slot function"),
    Rule("C12.I", rule_i, 2, "no stale slot index across reallocation"),
    Rule("C12.G", rule_g, 2, "load-factor guard on every insertion path"),
    Rule("C12.Z", rule_z, 1, "reserved hash value mapped away"),
    Rule("C12.B", rule_b, 4, "removal back-shifts and empties the final hole"),
    Rule("C12.E", rule_e, 3, "failed allocation leaves the map intact"),
]
