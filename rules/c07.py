"""C07 — Tables are insertion-ordered maps keyed by value.

  C07.S  `map` and `keys` of CaoLangTable change together: in every mutator, a mutation of the key list is accompanied by a
         must-executed matching mutation of the hash part (and vice versa) on the same path.
  C07.M  no outside writer: `map` and `keys` are private and no method hands out mutable access to one half only.

  C07.B  (= C12.B, shared) the hash part's removal keeps every other key reachable: back-shift loop decided by exhaustive
         case analysis (see cao/backshift.py).
  C07.E  (= C12.E, shared) a failed insertion into the hash part leaves it unchanged, so `insert` skipping the key list on
         failure keeps both halves in step.
  C07.H  (= C12.H, shared) one home-slot function in the hash part.

  C07.O  insertion order survives every mutator: the key list is only changed by order-preserving operations (push, pop,
         remove(i), retain, truncate, clear, insert); swap_remove / swap / sort / reverse / rotate permute the rows that
         for-each, nth-row, iteration and pop hand out.
  C07.A  append never overwrites: the key `append` hands to `insert` was just tested absent - the insert is dominated by the
         `false` edge of a `map.contains(key)` test on every path.

Ordering, the exact key append chooses and aliasing semantics are behavioural and NOT claimed.
"""
from cao.facts import AnchorMissing, hir_walk, hir_callee, hir_strip, hir_local_id, short
from cao.rules import Rule, ok, bad, undecided, note, shared
from cao import hirutil as hu

EXPLANATION = (
    "A CaoLangTable is a hash part (map) plus a Vec of keys in insertion order; every observable operation is correct only "
    "if both describe the same key set. The rule enumerates, in the HIR of every method of CaoLangTable (including nested "
    "fns and closures), the calls that mutate `keys` (push/pop/remove/retain/clear/..) and `map` "
    "(insert/remove/clear), found by the field they are invoked on, and requires each to be matched by the corresponding "
    "mutation of the other half executed on the same path: same control region (must), or — the one accepted idiom — "
    "map.remove inside the predicate of keys.retain for the element being dropped. A call to another method contributes "
    "only what that method must execute. Decides the sync invariant for every mutator and therefore for every history; "
    "does not decide ordering or aliasing semantics."
)
ASSUMPTIONS = ["CaoHashMap is a faithful map (C12)", "Vec operations behave as documented"]

import rules.c12 as _c12  # noqa: E402


PERMUTING = ("swap_remove", "swap", "sort", "sort_by", "sort_by_key", "sort_unstable", "sort_unstable_by", "sort_unstable_by_key",
             "reverse", "rotate_left", "rotate_right", "select_nth_unstable", "dedup_by_key")


def rule_o(F):
    res = []
    n = 0
    for f in F.fns:
        if not f.hir or f.is_closure or not (f.short.startswith(TABLE + "::")):
            continue
        hits = []
        ops = 0
        for x in hir_walk(f.hir["body"]):
            if x.get("k") == "mcall":
                fc = hu.field_chain(x["recv"])
                if fc is not None and fc[1][-1:] == ["keys"]:
                    adj = (x["recv"].get("ty_adj") or "")
                    if adj.startswith("&mut") or x["name"] in PERMUTING:
                        ops += 1
                        if x["name"] in PERMUTING:
                            hits.append(x)
        if not ops:
            continue
        n += 1
        key = "C07/O/%s/key-list-order-preserved" % f.name
        if hits:
            res.append(bad("C07.O", key, f.loc(hits[0]["ln"]),
                           "CaoLangTable::%s changes the key list with `%s`, which permutes the remaining keys: rows are no longer visited in "
                           "insertion order (for-each, nth-row, iteration) and pop no longer returns the most recently inserted row" % (f.name, hits[0]["name"])))
        else:
            res.append(ok("C07.O", key, f.loc(), "only order-preserving operations on the key list (%d)" % ops))
    if n < 2:
        raise AnchorMissing("mutators of CaoLangTable.keys (found %d)" % n)
    return res


CONTAINS = ("CaoHashMap::contains", "CaoHashMap::contains_with_hint", "CaoLangTable::contains")


def absent_edges(F, f, depth=0):
    """blocks of f that are entered only after a `map.contains(key)` probe answered false: the `false` successor of a switch
    on the result of a contains call, and the continuation of a call of a helper of the table that itself returns only
    after such a probe answered false (`let index = self.first_free_index_from(n)`: the search loop moved into a callee)"""
    from cao.facts import callee_names, op_local, DefUse
    from cao import mirutil as mu
    du = DefUse(f)
    out = set()
    n_probes = 0
    for cb, ct in mu.calls(f):
        names = callee_names(ct["func"])
        if any(n.endswith(c) for n in names for c in CONTAINS):
            n_probes += 1
            dl = ct["dest"]["l"]
            for bi, b in enumerate(f.blocks):
                t = b["term"]
                if t["k"] != "switch" or op_local(t["discr"]) is None:
                    continue
                kind, payload = du.trace_back(op_local(t["discr"]))
                if (kind == "call" and payload is ct) or op_local(t["discr"]) == dl:
                    zero = dict((v, bb) for v, bb in t["targets"]).get(0)
                    if zero is not None:
                        out.add(zero)
        elif depth < 2 and ct.get("target") is not None:
            for n in names:
                if not n.startswith(TABLE + "::"):
                    continue
                h = F.fn(n, required=False)
                if h is None or not h.mir or h is f:
                    continue
                hedges, hprobes = absent_edges(F, h, depth + 1)
                rets = h.cfg.return_blocks()
                if hedges and rets and all(any(h.cfg.dominates(z, r) for z in hedges) for r in rets):
                    out.add(ct["target"])
                    n_probes += hprobes
    return out, n_probes


def adds_row(F, name, depth=0, seen=None):
    """is `name` a function that stores a row: CaoHashMap's insert / insert_with_hint / entry, or a function of CaoLangTable
    (nested fns included) that - itself or through another such function - adds to the hash part `map`?"""
    if name.endswith("CaoHashMap::insert") or name.endswith("CaoHashMap::insert_with_hint") or name.endswith("CaoHashMap::entry"):
        return True
    if not name.startswith(TABLE + "::") or depth > 3:
        return False
    seen = set() if seen is None else seen
    if name in seen:
        return False
    seen.add(name)
    g = F.fn(name, required=False)
    if g is None or g.hir is None:
        return False
    if any(e["half"] == "map" and e["kind"] == "add" for e in events(g)):
        return True
    for x in hir_walk(g.hir["body"]):
        if x.get("k") in ("call", "mcall") and any(adds_row(F, n, depth + 1, seen) for n in hir_callee(x)):
            return True
    return False


def rule_a(F):
    from cao.facts import callee_names
    from cao import mirutil as mu
    res = []
    f = F.fn(TABLE + "::append")
    cfg = f.cfg
    key = "C07/A/append/key-tested-absent"
    inserts = [(bi, t) for bi, t in mu.calls(f) if any(n.endswith("CaoLangTable::insert") or n.endswith("::_insert") or n.endswith("CaoHashMap::insert")
                                                        or adds_row(F, n) for n in callee_names(t["func"]))]
    if not inserts:
        raise AnchorMissing("insert call in CaoLangTable::append")
    # blocks entered when contains(..) answered false (in append itself or in the helper that searches the free index)
    edges, probes = absent_edges(F, f)
    if not probes:
        return [bad("C07.A", key, f.loc(), "append inserts under a key it never tested for presence: an existing row can be overwritten")]
    okp = bool(edges) and all(any(cfg.dominates(z, ib) for z in edges) for ib, _t in inserts)
    if okp:
        res.append(ok("C07.A", key, f.loc(), "the insert is dominated by the `absent` edge of map.contains(key)"))
    else:
        res.append(bad("C07.A", key, f.loc(inserts[0][1].get("ln")),
                       "CaoLangTable::append can reach its insert without the key having been tested absent (a path skips the "
                       "`map.contains` probe): when that integer key already exists the append overwrites its row - the length does not "
                       "grow and the old value is lost"))
    return res


TABLE = "vm::runtime::cao_lang_table::CaoLangTable"
KEYS_ADD = ("push", "insert", "extend", "extend_from_slice", "append")
KEYS_DEL = ("pop", "remove", "swap_remove", "truncate", "drain", "retain", "clear", "dedup")
MAP_ADD = ("insert", "insert_with_hint", "entry")
MAP_DEL = ("remove", "remove_with_hint", "clear")


def table_fns(F):
    fns = [f for f in F.fns if f.hir and not f.is_closure and (f.short.startswith(TABLE + "::") or f.short.startswith("<" + TABLE))]
    if len(fns) < 8:
        raise AnchorMissing("methods of CaoLangTable (found %d)" % len(fns))
    return fns


def events(f):
    """mutations of the two halves in f: list of dict(half, kind, name, node, ctrl, in_closure)"""
    anc = hu.control_ancestors(f.hir["body"])
    out = []
    inits = hu.let_inits(f)
    for x in hir_walk(f.hir["body"]):
        if x.get("k") != "mcall":
            continue
        fc = hu.field_chain(x["recv"])
        # `let map = &mut self.map; .. map.remove(k)`: a local that was bound once to (a borrow of) one half stands for it
        hops = 0
        while fc is not None and not fc[1] and fc[0] is not None and len(inits.get(fc[0], [])) == 1 and hops < 4:
            fc = hu.field_chain(inits[fc[0]][0])
            hops += 1
        if fc is None or not fc[1]:
            continue
        half = fc[1][-1]
        if half not in ("keys", "map") or len(fc[1]) != 1:
            continue
        name = x["name"]
        kind = None
        if half == "keys":
            kind = "add" if name in KEYS_ADD else "del" if name in KEYS_DEL else None
        else:
            kind = "add" if name in MAP_ADD else "del" if name in MAP_DEL else None
        if kind is None:
            continue
        ctrl = anc.get(id(x), ())
        out.append({"half": half, "kind": kind, "name": name, "node": x, "ctrl": ctrl,
                    "in_closure": any(c[0] == "closure" for c in ctrl)})
    return out


def must_summary(F, fns):
    """method short name -> set of (half, kind) it executes on every successful path (not in branches/closures/loops)"""
    out = {}
    for f in fns:
        evs = events(f)
        s_ = set()
        for e in evs:
            if all(c[0] not in ("closure", "loop") and not c[0].startswith("arm") and c[0] not in ("then", "else") for c in e["ctrl"]):
                s_.add((e["half"], e["kind"]))
        out[f.short] = s_
    return out


def is_prefix(a, b):
    return len(a) <= len(b) and tuple(b[:len(a)]) == tuple(a)


def rule_s(F):
    res = []
    fns = table_fns(F)
    summ = must_summary(F, fns)
    anc_cache = {}
    n = 0
    for f in fns:
        evs = events(f)
        if not evs:
            continue
        anc = hu.control_ancestors(f.hir["body"])
        fname = f.short.rsplit("::", 1)[-1]
        # helper calls with their must-summaries
        helper_calls = []
        for x in hir_walk(f.hir["body"]):
            if x.get("k") in ("mcall", "call"):
                for nm in hir_callee(x):
                    if nm in summ and nm != f.short:
                        helper_calls.append((x, summ[nm], anc.get(id(x), ())))
        for e in evs:
            other = "map" if e["half"] == "keys" else "keys"
            n += 1
            key = "C07/S/%s/%s.%s" % (fname, e["half"], e["name"])
            if e["in_closure"] and e["half"] == "map":
                # map.remove inside the predicate of keys.retain: matched by the retain itself
                encl = [d for d in evs if d["half"] == "keys" and d["name"] == "retain" and any(id(y) == id(e["node"]) for y in hir_walk(d["node"]))]
                if encl:
                    res.append(ok("C07.S", key, f.loc(e["node"]["ln"]), "map.%s runs inside keys.retain's predicate for the element being dropped" % e["name"]))
                    continue
            if e["half"] == "keys" and e["name"] == "retain":
                inner = [d for d in evs if d["half"] == "map" and d["kind"] == "del" and any(id(y) == id(d["node"]) for y in hir_walk(e["node"]))]
                if inner:
                    res.append(ok("C07.S", key, f.loc(e["node"]["ln"]), "keys.retain drops an element and removes it from the map in its predicate"))
                else:
                    res.append(bad("C07.S", key, f.loc(e["node"]["ln"]), "keys.retain drops keys without removing them from the hash part"))
                continue
            # `self.keys.pop().and_then(|key| self.map.remove(&key))`: the closure handed to an Option adaptor that runs it exactly
            # when its receiver is Some is the `Some(key) => ..` arm of a match on that receiver
            if e["half"] == "keys" and e["kind"] == "del":
                cont = [d for d in evs if d["half"] == other and d["kind"] == e["kind"] and d["in_closure"] and some_continuation(f, e, d, anc)]
                if cont:
                    res.append(ok("C07.S", key, f.loc(e["node"]["ln"]), "%s.%s is matched by map.%s in the continuation that runs for the removed key"
                                  % (e["half"], e["name"], cont[0]["name"])))
                    continue
            # direct partner on the same path: the partner's control region must enclose (or equal) this one's, or vice versa
            partners = [d for d in evs if d["half"] == other and d["kind"] == e["kind"] and not d["in_closure"]
                        and (is_prefix(d["ctrl"], e["ctrl"]) or is_prefix(e["ctrl"], d["ctrl"]) or same_arm_family(d["ctrl"], e["ctrl"]))]
            via_helper = [h for h in helper_calls if (other, e["kind"]) in h[1] and (is_prefix(h[2], e["ctrl"]) or is_prefix(e["ctrl"], h[2]) or same_arm_family(h[2], e["ctrl"]))]
            if partners or via_helper:
                res.append(ok("C07.S", key, f.loc(e["node"]["ln"]), "%s.%s is matched by a must-executed %s mutation on the same path" % (e["half"], e["name"], other)))
            else:
                may = [h for h in helper_calls if any(nm in summ for nm in hir_callee(h[0]))]
                res.append(bad("C07.S", key, f.loc(e["node"]["ln"]),
                               "CaoLangTable::%s changes `%s` (%s) but no matching change of `%s` is executed on that path%s: the two halves of "
                               "the table describe different key sets afterwards (e.g. a popped entry stays readable and the next append skips an index)"
                               % (fname, e["half"], e["name"], other,
                                  " (the helper it calls removes from the map only inside a retain predicate that can no longer match)" if may else "")))
    if n < 4:
        raise AnchorMissing("mutations of CaoLangTable.keys/map (found %d)" % n)
    return res


def rule_f(F):
    """C07.F: a refused set leaves no trace. Growing the hash part can fail (memory limit); the key list cannot. So in every
    method that adds a key, nothing fallible may follow the addition to the key list: no error exit (an Err value, a `?`,
    or a Result handed on as the function's own result) is reachable after `keys.push` / `keys.insert`. Otherwise a set
    that reports OutOfMemory has still lengthened the table by a phantom row (len, for-each, pop, append all see it)."""
    from cao.facts import DefUse, callee_names, op_local
    from cao import framebal as fb
    from cao import mirutil as mu
    res = []
    n = 0
    for f in table_fns(F):
        if not f.mir:
            continue
        du = DefUse(f)
        cfg = f.cfg
        adds = []
        for bi, t in mu.calls(f):
            nm = callee_names(t["func"])
            if any(x.endswith("Vec::push") or x.endswith("Vec::insert") or x.endswith("Vec::extend_from_slice") for x in nm) and t["args"]:
                a0 = op_local(t["args"][0])
                if a0 is not None and mu.ref_of_field_chain(f, du, a0, ["keys"]):
                    adds.append((bi, t))
        if not adds:
            continue
        errs = [b for b in cfg.reach if fb._error_block(f, b)]
        for bi, t in mu.calls(f):
            if t["dest"]["l"] == 0 and not t["dest"]["p"] and bi not in errs:
                errs.append(bi)       # `_0 = fallible(..)`: the callee's Result is the function's result
        fname = (f.root or f.short).replace(TABLE + "::", "")
        for k, (bi, t) in enumerate(adds):
            n += 1
            key = "C07/F/%s/nothing-fails-after-the-key-is-listed%s" % (fname, "" if k == 0 else "#%d" % k)
            after = cfg.reachable_from(t["target"]) if t.get("target") is not None else set()
            late = [e for e in errs if e in after]
            if late:
                res.append(bad("C07.F", key, f.loc(t.get("ln")),
                               "CaoLangTable::%s puts the key on the key list and can still fail afterwards (the insertion into the hash part, "
                               "which may have to grow under a memory limit, comes later): a set that reports OutOfMemory leaves a phantom row - "
                               "len counts it, for-each and nth-row visit it with a nil value, pop returns nil for it" % fname))
            else:
                res.append(ok("C07.F", key, f.loc(t.get("ln")), "no error exit is reachable after the key was listed"))
    if n < 1:
        res.append(note("C07.F", "C07/F/no-addition-to-the-key-list", "", "no method adds to the key list (C07.S decides whether one should)"))
    return res


RUNS_ON_SOME = ("and_then", "map", "map_or", "inspect", "is_some_and", "filter")


def some_continuation(f, e, d, anc):
    """is d executed, unconditionally, inside a closure that an Option adaptor (and_then / map / ..) applied to the result of
    e's call runs exactly when that result is Some?  (the adaptor call itself must be on e's path)"""
    for m in hir_walk(f.hir["body"]):
        if m.get("k") != "mcall" or m["name"] not in RUNS_ON_SOME or not m["args"]:
            continue
        if not any(n.startswith("std::option::Option::") or n.startswith("core::option::Option::") for n in hir_callee(m)):
            continue
        clo = hir_strip(m["args"][-1])
        if clo is None or clo.get("k") != "closure":
            continue
        # the receiver is e's call (possibly through further adaptors that keep Some/None)
        r = hir_strip(m["recv"])
        if r is not e["node"]:
            continue
        # d lies in the closure and nothing in the closure makes it conditional
        dctrl = d["ctrl"]
        mctrl = anc.get(id(m), ())
        if dctrl[:len(mctrl)] != tuple(mctrl) or len(dctrl) != len(mctrl) + 1 or dctrl[-1] != ("closure", id(clo)):
            continue
        if tuple(anc.get(id(e["node"]), ())) != tuple(mctrl):
            continue
        if any(y.get("k") == "ret" for y in hir_walk(clo["body"]) if y.get("ln", 0) < d["node"].get("ln", 0)):
            continue
        return True
    return False


def same_arm_family(a, b):
    """`match self.keys.pop() { Some(key) => { .. map.remove .. } }`: the scrutinee and an arm of the same match"""
    for n, (x, y) in enumerate(zip(a, b)):
        if x != y:
            return False
    longer = a if len(a) > len(b) else b
    shorter = b if len(a) > len(b) else a
    return len(longer) == len(shorter) + 1 and longer[-1][0].startswith("arm")


def rule_m(F):
    res = []
    adt = F.adt(TABLE)
    for fld in adt["variants"][0]["fields"]:
        if fld["name"] in ("map", "keys"):
            key = "C07/M/field-private/%s" % fld["name"]
            if "Restricted" in fld["vis"] or fld["vis"] != "Public":
                res.append(ok("C07.M", key, "%s:%s" % (adt["file"], adt["line"]), "field %s is private (%s)" % (fld["name"], fld["vis"])))
            else:
                res.append(bad("C07.M", key, "%s:%s" % (adt["file"], adt["line"]), "field %s is public: any code can desynchronise the two halves" % fld["name"]))
    for f in table_fns(F):
        sig = f.raw.get("sig") or {}
        out = sig.get("output", "")
        if out.startswith("&mut ") and ("Value" in out or "CaoHashMap" in out or "Vec" in out):
            vis = f.raw.get("vis", "")
            res.append(note("C07.M", "C07/M/mutable-view/%s" % f.name, f.loc(),
                            "%s hands out %s: a host can permute or overwrite one half of the table without the other (type-level weakness, "
                            "not reachable from scripts)" % (f.name, out)))
    return res


RULES = [
    Rule("C07.S", rule_s, 4, "map and keys change together in every mutator"),
    Rule("C07.F", rule_f, 0, "nothing fallible follows the addition of a key to the key list"),
    Rule("C07.O", rule_o, 2, "insertion order survives every mutator of the key list"),
    Rule("C07.A", rule_a, 1, "append never overwrites an existing row"),
    Rule("C07.M", rule_m, 2, "no outside writer of one half"),
    Rule("C07.B", shared(_c12.rule_b, "C12.B", "C07.B"), 4, "removal from the hash part keeps the other keys reachable (shared with C12)"),
    Rule("C07.E", shared(_c12.rule_e, "C12.E", "C07.E"), 3, "a failed insert into the hash part has not inserted (shared with C12.E)"),
    Rule("C07.H", shared(_c12.rule_h, "C12.H", "C07.H"), 1, "one home-slot function in the hash part (shared with C12)"),
]
