"""C18 — Host functions receive the right arguments and can safely re-enter scripts.

  C18.O  positional wiring of the VmFunctionN wrappers: the stack position read for parameter i is the i-th pushed
         argument, it is converted with T_i::try_from, a failed conversion names parameter i, and the host function is
         called with the converted values in declaration order; the arguments are removed exactly once. A row may be
         written in the wrapper or in a private helper that is told the position (conversion_rows); the reported number is
         the first integer formatted into the invalid_argument message (error_position).
  C18.W  call_native wraps an error of the host function in TaskFailure carrying the procedure's name and pushes the
         result on the Ok path.
  C18.W  (who-may-call) the host callable of a Procedure (`VmFunction::call`) is invoked only from call_native - every other
         way into a native (CallNative, calling a native function value, run_function given a native) goes through it,
         so every failure carries the function's name.
  C18.C  conversions fail loudly: in the crate's `TryFrom<Value>` impls (the types a host function can declare as parameters),
         the result of a nested conversion is propagated (`?`, map_err) - never turned into a default with .ok() /
         unwrap_or*, which would run the host function with nil / a default instead of rejecting the argument.
  C18.H  (= C14.B, shared) nobody sets the height of the value stack to a value of its own making: every caller of
         clear_until passes a call frame's stack_offset - in particular run_function does not "restore" the height it
         saw on entry (which still counts the arguments the callee's Return consumed).
  C18.N  reserved names: every public way to register a native rejects names starting with `__`.
  C18.B  re-entry is frame-balanced: run_function pushes two frames, pops one itself (the callee's Return pops the
         other), and the trap frame returns to the final Exit instruction.
  C18.A  (cao/abortbal.py) after the nested interpreter loop came back with Ok, the call-stack depth is looked at before
         the trap frame is popped: an Abort card inside the callee also ends the loop with Ok, with the callee's frames
         still pushed.
"""
import re
from cao.facts import (AnchorMissing, callee_names, short, op_local, op_place, DefUse, hir_walk, hir_callee, hir_strip, hir_local_id)
from cao.rules import Rule, ok, bad, undecided, note, shared
import rules.c14 as _c14
from cao import mirutil as mu
from cao import hirutil as hu
from cao import abortbal
from cao import framebal as _fb

EXPLANATION = (
    "The wrappers that adapt `fn(&mut Vm, T1..Tk)` to VmFunction are four hand-written siblings; C18.O reads each one's "
    "HIR as a table (stack position read, conversion type, error position literal, argument position in the final call) "
    "and requires row i to be (k-i from the top | i-th last pop, T_i, i, i). C18.W/N/B are dominance and pairing rules on "
    "call_native, the registration functions and run_function. These hold for every call because they are facts about "
    "the wrappers, not about sampled calls. Not decided: the results of the conversions themselves, stack heights for a "
    "particular call."
)
ASSUMPTIONS = ["the compiler pushes call arguments in declaration order (C15.I/C01: children compiled in index order)"]


def wrappers(F):
    out = []
    for f in F.fns:
        if f.hir and not f.is_closure and "traits::VmFunction" in f.short and f.short.endswith("::call") and "fn(" in f.short:
            out.append(f)
    if len(out) < 4:
        raise AnchorMissing("VmFunction impls for fn pointers (found %d)" % len(out))
    return out


def fn_param_types(f):
    head = f.short.split(" as ")[0]
    m = re.search(r"fn\((.*)\) ->", head)
    if not m:
        return []
    parts = [p.strip() for p in split_top(m.group(1))]
    return parts[1:]   # without &mut Vm


def split_top(s_):
    out, depth, cur = [], 0, ""
    for c in s_:
        if c in "<(":
            depth += 1
        elif c in ">)":
            depth -= 1
        if c == "," and depth == 0:
            out.append(cur)
            cur = ""
        else:
            cur += c
    if cur.strip():
        out.append(cur)
    return out


_TY_TOKEN = re.compile(r"'[A-Za-z_][A-Za-z0-9_]*|[A-Za-z_][A-Za-z0-9_]*(?:::[A-Za-z_][A-Za-z0-9_]*)*|\S")


def unify_types(generic, concrete):
    """bind the type parameters (bare identifiers) of the type text `generic` so that it reads `concrete`:
    unify_types('Result<T, E2>', 'Result<Vec<i64>, E2>') -> {'T': 'Vec<i64>'}; None if the texts do not line up"""
    a = [(m.group(0), m.start(), m.end()) for m in _TY_TOKEN.finditer(generic)]
    b = [(m.group(0), m.start(), m.end()) for m in _TY_TOKEN.finditer(concrete)]
    out = {}
    i = j = 0
    while i < len(a) and j < len(b):
        ta, tb = a[i][0], b[j][0]
        if ta == tb or (ta.startswith("'") and tb.startswith("'")):
            i += 1
            j += 1
            continue
        if not re.match(r"^[A-Za-z_][A-Za-z0-9_]*$", ta):
            return None
        # a type parameter: it stands for one whole type on the other side
        depth = 0
        k = j
        while k < len(b):
            t = b[k][0]
            if t in "<([":
                depth += 1
            elif t in ">)]":
                if depth == 0:
                    break
                depth -= 1
            elif t in ",;" and depth == 0:
                break
            k += 1
        if k == j:
            return None
        text = concrete[b[j][1]:b[k - 1][2]]
        if out.setdefault(ta, text) != text:
            return None
        i += 1
        j = k
    return out if i == len(a) and j == len(b) else None


def _const_hook(F):
    """integer value of a `const NAME: usize = <int expr>` item used in an expression"""
    def hook(e):
        if e.get("k") == "path" and e["path"]["res"].get("k") == "def":
            g = F.fn(short(e["path"]["res"].get("path", "")), required=False)
            if g is not None and "Const" in str(g.kind) and g.hir and g.hir.get("body") is not None:
                return hu.eval_int(F, g.hir["body"], {}, hook)
        return None
    return hook


def error_position(F, e, env, hook, depth=0):
    """The input number a conversion error reports: the first integer that is formatted into the message handed to
    ExecutionErrorPayload::invalid_argument - written in place, or inside a crate function that builds the error from its
    parameters (then the integer arguments of the call are the parameters' values). None if not found / not evaluable."""
    for y in hir_walk(e):
        if y.get("k") != "call":
            continue
        names = hir_callee(y)
        if any(n.endswith("ExecutionErrorPayload::invalid_argument") for n in names):
            # format!(..): `let args = (&a, &b, ..)` holds the formatted values in order
            for z in hir_walk(y):
                if z.get("k") == "tup" and z["elems"] and all(hir_strip(x).get("k") == "addr_of" for x in z["elems"]):
                    for x in z["elems"]:
                        inner = hir_strip(x)["e"]
                        if re.match(r"^&?(usize|u8|u16|u32|u64|i8|i16|i32|i64|isize)$", str(inner.get("ty") or "")):
                            return hu.eval_int(F, inner, env, hook)
                    return None
            return None
        if depth < 2:
            for n in names:
                h = F.fn(n, required=False)
                if h is None or not h.hir or h.is_closure or "ExecutionErrorPayload" not in str((h.raw.get("sig") or {}).get("output")):
                    continue
                params = h.hir.get("params", [])
                if len(params) != len(y["args"]):
                    continue
                henv = {}
                for p_, a in zip(params, y["args"]):
                    if p_.get("k") == "bind":
                        v = hu.eval_int(F, a, env, hook)
                        if v is not None:
                            henv[p_["id"]] = v
                return error_position(F, h.hir["body"], henv, hook, depth + 1)
    return None


def _unwrap_try(e):
    """`x?` -> x"""
    e = hir_strip(e)
    while e is not None and e.get("k") == "match" and str(e.get("source", "")).startswith("TryDesugar"):
        sc_ = hir_strip(e["scrut"])
        if sc_.get("k") == "call" and sc_["args"] and any(n.endswith("Try::branch") for n in hir_callee(sc_)):
            e = hir_strip(sc_["args"][0])
        else:
            break
    return e


def conversion_rows(F, g, env=None, tyenv=None, depth=0):
    """Read the statements of g's body as the rows of a wrapper: where a value is taken from the stack and how it is
    converted. A row is written in place (`let v = stack.peek_last(c); let v = T::try_from(v).map_err(|_|
    conversion_error(i, type_name::<T>(), ..))?`) or by a call of a crate function that does this for the position it is
    given (`let v = argument::<T>(vm, i, ARITY)?`): the callee's body is read the same way, with its integer parameters
    bound to the values and its type parameters to the types of this call. `env`: local id -> integer value;
    `tyenv`: type parameter -> type.
    -> (sources: binding id -> ('pop', n) | ('peek', c), conversions: [dict(source, dst (binding id | 'ret'), ty, lit, tn, ln)],
        number of pops)"""
    env = dict(env or {})
    tyenv = tyenv or {}
    hook = _const_hook(F)
    body = hir_strip(g.hir["body"])
    if body.get("k") != "block":
        body = {"k": "block", "block": {"stmts": [], "expr": body}}
    items = [(st["pat"]["id"], st["init"], st["ln"]) for st in body["block"]["stmts"]
             if st["k"] == "let" and st["pat"].get("k") == "bind" and st.get("init") is not None]
    if body["block"].get("expr") is not None:
        items.append(("ret", body["block"]["expr"], body["block"]["expr"].get("ln")))
    sources = {}
    convs = []
    npop = 0

    def subst(t):
        return tyenv.get(t, t) if t is not None else None
    for dst, init0, ln in items:
        init = hir_strip(init0)
        if init.get("k") == "mcall" and any(n.endswith("stack_pop") or n.endswith("ValueStack::pop") for n in hir_callee(init)):
            npop += 1
            sources[dst] = ("pop", npop)
            continue
        if init.get("k") == "mcall" and any(n.endswith("ValueStack::peek_last") for n in hir_callee(init)):
            sources[dst] = ("peek", hu.eval_int(F, init["args"][0], env, hook))
            continue
        if "usize" in str(init.get("ty")) or str(init.get("ty")) in ("i32", "i64", "u32", "u64", "isize"):
            v = hu.eval_int(F, init, env, hook)
            if v is not None and dst != "ret":
                env[dst] = v
                continue
        # conversion written here
        tf = None
        lit = None
        tn = None
        for y in hir_walk(init):
            if y.get("k") == "call" and any(n.endswith("TryFrom::try_from") for n in hir_callee(y)):
                tf = y
            if y.get("k") == "call" and any(n.endswith("any::type_name") for n in hir_callee(y)):
                tn = (hir_strip(y["f"])["path"].get("args") or [None])[0]
        if tf is not None:
            lit = error_position(F, init, env, hook)
        if tf is not None:
            ty = ((tf.get("f") or {}).get("path", {}).get("callee", {}) or {}).get("args") or (hir_strip(tf["f"])["path"].get("args") or [])
            convs.append({"source": sources.get(hir_local_id(tf["args"][0])), "dst": dst, "ty": subst(ty[0] if ty else None), "lit": lit,
                          "tn": subst(tn), "ln": ln})
            continue
        # conversion done by a function of the crate that is told the position
        call = _unwrap_try(init)
        if call is None or call.get("k") != "call" or depth >= 2:
            continue
        h = next((h_ for h_ in (F.fn(n, required=False) for n in hir_callee(call)) if h_ is not None and h_.hir and not h_.is_closure
                  and h_ is not g and "Fn" in str(h_.kind)), None)
        if h is None or len(h.hir.get("params", [])) != len(call["args"]):
            continue
        henv = {}
        for p_, a in zip(h.hir["params"], call["args"]):
            if p_.get("k") == "bind":
                v = hu.eval_int(F, a, env, hook)
                if v is not None:
                    henv[p_["id"]] = v
        htys = unify_types(((h.raw.get("sig") or {}).get("output") or ""), str(call.get("ty") or "")) or {}
        hs, hc, hp = conversion_rows(F, h, henv, {k_: subst(v_) for k_, v_ in htys.items()}, depth + 1)
        rets = [c for c in hc if c["dst"] == "ret"]
        if len(rets) != 1 or len(hc) != 1:
            continue
        c = dict(rets[0], dst=dst, ln=ln)
        if c["source"] is not None and c["source"][0] == "pop":
            if hp != 1:
                continue
            npop += 1
            c["source"] = ("pop", npop)
        sources[("via", dst)] = c["source"]
        convs.append(c)
    return sources, convs, npop


def rule_o(F):
    res = []
    for f in wrappers(F):
        ptypes = fn_param_types(f)
        k = len(ptypes)
        body = hir_strip(f.hir["body"])
        final = None
        removed = None
        for x in hir_walk(body):
            if x.get("k") == "call" and hir_local_id(x["f"]) is not None and hir_strip(x["f"])["path"]["res"].get("name") == "self":
                final = x
            if x.get("k") == "mcall" and x["name"] == "pop_n" and any(n.endswith("ValueStack::pop_n") for n in hir_callee(x)):
                ga = (x.get("callee") or {}).get("args") or []
                removed = int(ga[0]) if ga and str(ga[0]).isdigit() else None
        sources, convs, npop = conversion_rows(F, f)
        convs = [c for c in convs if c["dst"] != "ret"]
        if final is None or len(convs) != k:
            res.append(undecided("C18.O", "C18/O/arity%d/shape" % k, f.loc(), "wrapper shape not recognised (%d conversions, final call %s)" % (len(convs), final is not None)))
            continue
        args = [hir_local_id(a) for a in final["args"][1:]]
        for i in range(1, k + 1):
            key = "C18/O/arity%d/param%d" % (k, i)
            c = next((c for c in convs if c["dst"] == (args[i - 1] if i - 1 < len(args) else None)), None)
            probs = []
            if c is None:
                probs.append("argument %d of the call is not a converted stack value" % i)
            else:
                src = c["source"]
                if src is None:
                    probs.append("conversion input is not a value taken from the stack")
                elif src[0] == "pop" and src[1] != k - i + 1:
                    probs.append("parameter %d receives the value popped %s (expected the %s pop: arguments are pushed in order)" % (i, ordinal(src[1]), ordinal(k - i + 1)))
                elif src[0] == "peek" and src[1] != k - i:
                    probs.append("parameter %d is read from stack position top-%s (expected top-%d)" % (i, src[1], k - i))
                if c["ty"] != ptypes[i - 1]:
                    probs.append("converted with %s::try_from, the parameter type is %s" % (c["ty"], ptypes[i - 1]))
                if c["lit"] != i:
                    probs.append("a failed conversion reports input #%s" % c["lit"])
                if c["tn"] is not None and c["tn"] != ptypes[i - 1]:
                    probs.append("the error names type %s" % c["tn"])
            if probs:
                res.append(bad("C18.O", key, f.loc(c["ln"] if c else None), "; ".join(probs)))
            else:
                res.append(ok("C18.O", key, f.loc(c["ln"]), "stack value -> %s::try_from -> argument %d, error names input #%d" % (ptypes[i - 1], i, i)))
        # arguments are consumed exactly once
        kinds = set(v[0] for v in sources.values() if v is not None)
        key = "C18/O/arity%d/arguments-consumed" % k
        if kinds == {"pop"} and npop == k and removed is None:
            res.append(ok("C18.O", key, f.loc(), "%d pops for %d parameters" % (npop, k)))
        elif kinds == {"peek"} and removed == k:
            res.append(ok("C18.O", key, f.loc(), "%d peeks, pop_n::<%d> after the call" % (k, k)))
        else:
            res.append(bad("C18.O", key, f.loc(), "the wrapper does not remove exactly its %d arguments from the stack (sources %s, pop_n %s)" % (k, sorted(kinds), removed)))
    return res


def ordinal(n):
    return {1: "first", 2: "second", 3: "third", 4: "fourth"}.get(n, "%dth" % n)


def rule_w(F):
    res = []
    f = F.fn("vm::instr_execution::call_native")
    du = DefUse(f)
    cfg = f.cfg
    calls = [(bi, t) for bi, t in mu.calls(f) if any(n.endswith("VmFunction::call") for n in callee_names(t["func"]))]
    if not calls:
        raise AnchorMissing("procedure.fun.call in call_native")
    # TaskFailure aggregate with name from Procedure::name
    wrapped = False
    wrap_sites = []
    for g in [f] + F.closures_of.get(f.short, []):
        gdu = DefUse(g)
        for b in g.blocks:
            for st in b["stmts"]:
                if st["k"] == "assign" and st["rv"]["k"] == "agg" and st["rv"]["agg"].get("variant") == "TaskFailure":
                    fields = st["rv"]["agg"]["fields"]
                    if "name" in fields:
                        l = op_local(st["rv"]["ops"][fields.index("name")])
                        seen = set()
                        while l is not None and l not in seen:
                            seen.add(l)
                            d = gdu.sole_def(l)
                            if d is None:
                                break
                            if d[2] == "call":
                                nm = callee_names(d[3]["func"])
                                if any(n.endswith("Procedure::name") for n in nm):
                                    wrapped = True
                                    wrap_sites.append((g, g.blocks.index(b)))
                                    break
                                l = op_local(d[3]["args"][0]) if d[3]["args"] else None
                                continue
                            rv = d[3]["rv"]
                            l = op_local(rv["op"]) if rv["k"] in ("use", "cast") else (rv["place"]["l"] if rv["k"] == "ref" else None)
    # ... on every path: the error-mapping closure may not hand some errors back as they are
    partial = [g for g, wb in wrap_sites if g.is_closure and not g.cfg.every_path_passes(0, g.cfg.return_blocks(), {wb})]
    if wrapped and partial:
        g = partial[0]
        res.append(bad("C18.W", "C18/W/call_native/error-wrapped-with-name", g.loc(),
                       "call_native wraps the host function's error in TaskFailure{name} only on some paths of its error mapping: an error that "
                       "is passed through as it is (e.g. one that already is a TaskFailure, coming out of a nested run_function) surfaces "
                       "carrying the name of the inner function, not of the host function that returned it"))
    elif wrapped:
        res.append(ok("C18.W", "C18/W/call_native/error-wrapped-with-name", f.loc(), "a host error becomes TaskFailure{name: procedure.name(), ..}"))
    else:
        res.append(bad("C18.W", "C18/W/call_native/error-wrapped-with-name", f.loc(), "call_native does not wrap the host function's error in TaskFailure carrying the procedure's name"))
    # who may call: no invocation of a registered host callable outside call_native
    for g in F.fns:
        if not g.mir or g is f:
            continue
        for bi, t in mu.calls(g):
            if any(n.endswith("VmFunction::call") for n in callee_names(t["func"])):
                owner = g.root or g.short
                if owner == f.short:
                    continue
                res.append(bad("C18.W", "C18/W/%s/calls-host-function-directly" % owner.rsplit("::", 1)[-1], g.loc(t.get("ln")),
                               "%s invokes a registered host function directly instead of through call_native: an error it returns is "
                               "not wrapped in TaskFailure{name, ..} and surfaces without the function's name" % owner))
    res.append(ok("C18.W", "C18/W/host-callable-invoked-only-by-call_native", f.loc(), "VmFunction::call is invoked from call_native only")
               if not any(r["status"] == "violation" and r["key"].endswith("calls-host-function-directly") for r in res) else
               note("C18.W", "C18/W/host-callable-invoked-only-by-call_native", f.loc(), "see violations"))
    # result pushed on the Ok path: every non-error path from the call to return passes stack_push
    pushes = set(bi for bi, t in mu.calls(f) if any(n.endswith("Vm::stack_push") or n.endswith("ValueStack::push") for n in callee_names(t["func"])))
    err = mu.error_exit_blocks(f)
    rets = set(cfg.return_blocks())
    cb, ct = calls[0]
    r = cfg.reachable_from(ct["target"], avoid=pushes | err)
    if pushes and not (r & rets):
        res.append(ok("C18.W", "C18/W/call_native/result-pushed", f.loc(), "the returned value is pushed on every Ok path"))
    else:
        res.append(bad("C18.W", "C18/W/call_native/result-pushed", f.loc(), "the host function's result does not become the value of the call card on every Ok path"))
    return res


def rule_c(F):
    res = []
    n = 0
    for f in F.fns:
        r = f.raw
        if not f.hir or f.is_closure or f.name != "try_from" or not short(r.get("impl_trait", "")).endswith("convert::TryFrom"):
            continue
        if ((r.get("sig") or {}).get("inputs") or [""])[0] != "value::Value":
            continue
        ty = short(r.get("impl_self", "?"))
        n += 1
        key = "C18/C/%s/nested-conversion-propagated" % __import__("re").sub(r"[a-z_]+::", "", ty).replace(" ", "")
        swallowed = []
        for x in hir_walk(f.hir["body"]):
            if x.get("k") == "mcall" and x["name"] in ("ok", "unwrap_or", "unwrap_or_default", "unwrap_or_else"):
                rcv = hu.strip_all(x["recv"])
                if rcv is not None and rcv.get("k") in ("mcall", "call") and any(
                        n_.endswith("TryInto::try_into") or n_.endswith("TryFrom::try_from") for n_ in hir_callee(rcv)):
                    swallowed.append(x)
        if swallowed:
            res.append(bad("C18.C", key, f.loc(swallowed[0]["ln"]),
                           "TryFrom<Value> for %s discards the error of a nested conversion with `.%s()`: a script argument of the wrong "
                           "kind is not rejected with an invalid-argument error naming the parameter, the host function runs with "
                           "nil/a default instead" % (ty, swallowed[0]["name"])))
        else:
            res.append(ok("C18.C", key, f.loc(), "no nested conversion result is discarded"))
    if n < 5:
        raise AnchorMissing("TryFrom<Value> impls (found %d)" % n)
    return res


def rule_n(F):
    res = []
    # functions that insert into Vm.callables
    inserters = []
    for f in F.fns:
        if not f.mir or f.is_closure:
            continue
        du = DefUse(f)
        for bi, t in mu.calls(f):
            if any(n.endswith("HandleTable::insert") for n in callee_names(t["func"])):
                a0 = op_local(t["args"][0])
                if a0 is not None and mu.ref_of_field_chain(f, du, a0, ["callables"]):
                    inserters.append(f)
    if not inserters:
        raise AnchorMissing("insertion into Vm.callables")
    cg = F.callgraph
    for ins in sorted(set(inserters), key=lambda f: f.short):
        public = ins.raw.get("vis") == "Public"
        callers = [F.fn(a, required=False) for a, es in cg.edges.items() if ins.short in es]
        callers = [c for c in callers if c is not None and not c.is_closure]
        paths = ([ins] if public else []) + [c for c in callers if c.raw.get("vis") == "Public"]
        for p in paths:
            key = "C18/N/%s/reserved-prefix-rejected" % p.name
            if p.name == "register_native_stdlib" or p.name == "new":
                res.append(ok("C18.N", key, p.loc(), "library-internal registration path (registers the __ names themselves)"))
                continue
            checked = False
            cfg = p.cfg
            for bi, t in mu.calls(p):
                if any(n.endswith("str::starts_with") or n.endswith("::starts_with") for n in callee_names(t["func"])):
                    # dominates the call that reaches the insertion
                    for bj, t2 in mu.calls(p):
                        if ins.short in callee_names(t2["func"]) or p is ins:
                            if cfg.dominates(bi, bj):
                                checked = True
            if checked:
                res.append(ok("C18.N", key, p.loc(), "names starting with `__` are rejected before the table is touched"))
            else:
                res.append(bad("C18.N", key, p.loc(), "%s lets a host register a function under a name reserved for the library (`__...`)" % p.name))
    return res


def fb_first_ln(fn, b):
    for st in fn.blocks[b]["stmts"]:
        if st.get("ln"):
            return st["ln"]
    return fn.blocks[b]["term"].get("ln")


def rule_b(F):
    from cao import framebal as fb
    res = []
    f0 = F.fn("vm::Vm::run_function")
    memo = {}
    LOOP = fb.interpreter_loop(F)      # the interpreter loop (Vm::_run), located by what it does
    # the unit: run_function and the crate-local helpers through which it pushes frames / runs the callee
    unit = [f0]
    work = [f0]
    while work:
        cur = work.pop()
        for bi, t in mu.calls(cur):
            for n in callee_names(t["func"]):
                g = F.fn(n, required=False)
                if g is not None and g.mir and not g.is_closure and g is not f0 and n.startswith("vm::Vm::") and n != LOOP \
                        and fb._touches(F, g, memo) and g not in unit:
                    unit.append(g)
                    work.append(g)
    direct = [g for g in unit[1:] if any(g.short in callee_names(t["func"]) for _bi, t in mu.calls(f0))]
    key = "C18/B/run_function/frames-balanced"
    try:
        ds = fb.deltas(F, f0, memo)
    except fb.Undecided as e:
        ds = None
        res.append(undecided("C18.B", key, f0.loc(), "frame balance of run_function not decided: %s" % e))
    if ds is not None:
        if ds == {0}:
            res.append(ok("C18.B", key, f0.loc(), "on every non-error path through run_function%s pushes - pops - (callee Return) = 0"
                          % ("" if len(unit) == 1 else " and %s" % [g.short.rsplit("::", 1)[-1] for g in unit[1:]])))
        else:
            res.append(bad("C18.B", key, f0.loc(), "run_function has non-error paths on which call-frame pushes - pops - (the callee's Return) is %s "
                           "instead of 0: on such a path (e.g. a native function value as the callee, which pushes no frame) the caller's own "
                           "frame is popped or a frame is left behind, so the caller's call stack is not what it was before the call"
                           % sorted(d for d in ds if d != 0)))
    # error paths: a failed call is unwound before the error is handed to the host function
    key_e = "C18/B/run_function/failed-call-unwinds"
    cfg0 = f0.cfg
    du0 = DefUse(f0)

    def pops_in_loop(g):
        dug = DefUse(g)
        hdrs = set(h for _s, h in g.cfg.back_edges())
        for bi, t in mu.calls(g):
            if "collections::bounded_stack::BoundedStack::pop" in callee_names(t["func"]) and t["args"] and fb._is_call_stack(g, dug, t["args"][0]):
                if any(g.cfg.dominates(h, bi) and bi in g.cfg.can_reach([s_ for s_, hh in g.cfg.back_edges() if hh == h], avoid=[]) for h in hdrs):
                    return True
        return False

    def has_push(g, depth=0):
        for g_ in [g] + F.closures_of.get(g.short, []):          # a push may sit in a closure of g (`.and_then(|()| stack.push(..))`)
            if not g_.mir:
                continue
            dug = DefUse(g_)
            for _bi, t in mu.calls(g_):
                nm_ = callee_names(t["func"])
                if "collections::bounded_stack::BoundedStack::push" in nm_ and t["args"] and fb._is_call_stack(g_, dug, t["args"][0]):
                    return True
                if depth < 3:
                    for n_ in nm_:
                        h_ = F.fn(n_, required=False)
                        if h_ is not None and h_.mir and not h_.is_closure and h_ is not g and n_.startswith("vm::Vm::") and n_ != LOOP \
                                and h_ is not f0 and has_push(h_, depth + 1):
                            return True
        return False

    def truncates(g, depth=0):
        for bi, t in mu.calls(g):
            nm = callee_names(t["func"])
            if any(n.endswith("ValueStack::clear_until") for n in nm):
                return True
        return False

    unwinders = [g for g in F.fns if g.mir and not g.is_closure and g.path.startswith("vm::") and pops_in_loop(g)]
    leak_memo = {}

    def leaks_of(g, depth=0):
        """error exits of g that are reachable after frames were pushed (directly, or by a helper that does not unwind its own
        failures) without passing the unwinding of the call stack and of the value stack"""
        if g.short in leak_memo:
            return leak_memo[g.short]
        leak_memo[g.short] = ([], [], 0)
        cfg_g = g.cfg
        du_g = DefUse(g)
        ub, tb = set(), set()
        for bi, t in mu.calls(g):
            nm = callee_names(t["func"])
            for u in unwinders:
                if u.short in nm and u is not g:
                    ub.add(bi)
                    if truncates(u):
                        tb.add(bi)
            if any(n.endswith("ValueStack::clear_until") for n in nm):
                tb.add(bi)
            if "collections::bounded_stack::BoundedStack::pop" in nm and t["args"] and fb._is_call_stack(g, du_g, t["args"][0]) and \
                    any(cfg_g.dominates(h, bi) for _s, h in cfg_g.back_edges()):
                ub.add(bi)
        sites = []
        for bi, t in mu.calls(g):
            nm = callee_names(t["func"])
            if "collections::bounded_stack::BoundedStack::push" in nm and t["args"] and fb._is_call_stack(g, du_g, t["args"][0]):
                sites.append((bi, t))
                continue
            for n_ in nm:
                h_ = F.fn(n_, required=False)
                if h_ is not None and h_ in unit and h_ is not g and h_ is not f0 and has_push(h_) and depth < 4 and leaks_of(h_, depth + 1)[0]:
                    sites.append((bi, t))     # a helper that may fail with its frames still pushed
                    break
        errs = [b_ for b_ in cfg_g.reach if fb._error_block(g, b_)]
        # a tail `_0 = callee(..)` that hands the callee's Result on is an error exit too
        for bi, t in mu.calls(g):
            if t["dest"]["l"] == 0 and not t["dest"]["p"] and bi not in errs and "Result" in (g.mir.get("ret_ty") or "Result"):
                errs.append(bi)
        out = []
        for bi, t in sites:
            if t.get("target") is None:
                continue
            reach = cfg_g.reachable_from(t["target"])
            for e in errs:
                if e in reach and e not in ub:
                    if not cfg_g.every_path_passes(t["target"], [e], ub):
                        out.append((g, e, "call frames"))
                    elif not cfg_g.every_path_passes(t["target"], [e], tb):
                        out.append((g, e, "values on the value stack"))
        leak_memo[g.short] = (out, sites, len(ub))
        return leak_memo[g.short]

    leaks, push_sites, n_unwind = leaks_of(f0)
    if not push_sites and not any(has_push(g) for g in direct) and not has_push(f0):
        push_sites = []
    elif not push_sites:
        push_sites = [None]      # frames are pushed by helpers that unwind their own failures
    if not push_sites:
        raise AnchorMissing("call-stack pushes (direct or through a helper) in run_function")
    if leaks:
        gl, e, what = leaks[0]
        res.append(bad("C18.B", key_e, gl.loc(fb_first_ln(gl, e)),
                       "run_function returns an error after frames were pushed for the callee without dropping the %s the failed callee "
                       "left behind: a host function that carries on after the error (Err -> default value) continues with foreign frames on "
                       "the call stack, and the caller's next Return jumps to the trap address - the program stops early and reports "
                       "success" % what))
    else:
        res.append(ok("C18.B", key_e, f0.loc(), "every error exit after the frames were pushed passes through the unwinding of call frames "
                      "(%d site(s) in run_function, helpers that fail clean not counted) and of the value stack" % n_unwind))
    pushes = []
    runs = []
    unit_cl = unit + [c for g in unit for c in F.closures_of.get(g.short, []) if c.mir]      # ... and their closures
    for g in unit_cl:
        du_g = DefUse(g)
        pushes += [(g, bi, t) for bi, t in mu.calls(g) if "collections::bounded_stack::BoundedStack::push" in callee_names(t["func"])
                   and fb._is_call_stack(g, du_g, t["args"][0])]
        runs += [(g, bi, t) for bi, t in mu.calls(g) if LOOP in callee_names(t["func"])]
    if not pushes or not runs:
        raise AnchorMissing("frame push / _run in run_function or its helpers")
    f = pushes[0][0]
    du = DefUse(f)
    cfg = f.cfg
    # the trap frame returns to the final Exit: dst_instr_ptr = bytecode.len() - 1
    def is_len_minus_one(g, l, depth=0):
        """local l of g holds `<Vec>.len() - 1`, followed through copies, casts and references, - when it is a parameter of a
        helper - into the argument at every call site inside the unit, and - when it is a variable captured by a closure -
        into the enclosing function"""
        du_g = DefUse(g)
        seen = set()
        while l is not None and l not in seen:
            seen.add(l)
            if 1 <= l <= g.mir["arg_count"] and not du_g.defs.get(l):
                if depth > 4:
                    return False
                sites = [(h, t0) for h in unit_cl for _bi0, t0 in mu.calls(h) if g.short in callee_names(t0["func"]) and len(t0["args"]) >= l]
                return bool(sites) and all(op_local(t0["args"][l - 1]) is not None and is_len_minus_one(h, op_local(t0["args"][l - 1]), depth + 1)
                                           for h, t0 in sites)
            d = du_g.sole_def(l)
            if d is None or d[2] != "assign":
                return False
            rv = d[3]["rv"]
            if rv["k"] == "bin" and rv["op"].startswith("Sub") and rv["r"].get("k") == "const" and rv["r"].get("val") == 1:
                ll = op_local(rv["l"])
                dd = du_g.sole_def(ll) if ll is not None else None
                return dd is not None and dd[2] == "call" and any(n.endswith("Vec::len") for n in callee_names(dd[3]["func"]))
            if rv["k"] in ("use", "cast", "ref", "rawptr"):
                p_ = op_place(rv["op"]) if rv["k"] in ("use", "cast") else rv["place"]
                if p_ is None:
                    return False
                flds = [e for e in p_["p"] if e["k"] == "field"]
                if g.is_closure and p_["l"] == 1 and flds:
                    # a captured variable: field i of the closure environment = operand i of the closure aggregate in the parent
                    if depth > 4:
                        return False
                    parent = F.fn(g.parent, required=False)
                    if parent is None or not parent.mir:
                        return False
                    for b_ in parent.blocks:
                        for st_ in b_["stmts"]:
                            if st_["k"] == "assign" and st_["rv"]["k"] == "agg" and st_["rv"]["agg"].get("k") == "closure" and \
                                    short(st_["rv"]["agg"].get("path", "")) == g.short and flds[0]["i"] < len(st_["rv"]["ops"]):
                                return is_len_minus_one(parent, op_local(st_["rv"]["ops"][flds[0]["i"]]), depth + 1)
                    return False
                l = p_["l"]   # `.0` of a checked-arithmetic tuple / a dereference is transparent
                continue
            return False
        return False

    okdst = None
    n_frames = 0
    for g in unit_cl:
        for b in g.blocks:
            for st in b["stmts"]:
                if st["k"] == "assign" and st["rv"]["k"] == "agg" and short(st["rv"]["agg"].get("path", "")).endswith("runtime::CallFrame"):
                    fields = st["rv"]["agg"]["fields"]
                    n_frames += 1
                    this = is_len_minus_one(g, op_local(st["rv"]["ops"][fields.index("dst_instr_ptr")]))
                    okdst = this if okdst is None else (okdst and this)
    if okdst:
        res.append(ok("C18.B", "C18/B/run_function/trap-returns-to-exit", f.loc(), "the trap frame's return address is bytecode.len() - 1, the final Exit (C10.E)"))
    else:
        res.append(bad("C18.B", "C18/B/run_function/trap-returns-to-exit", f.loc(), "the trap frame does not return to the final Exit instruction: the callee's Return continues executing the program"))
    # the result is popped and returned
    starts = [(g, t["target"]) for g, _bi, t in runs if t["target"] is not None]
    # ... and after the return of every helper of the unit through which the nested run is reached
    starts += [(g, t["target"]) for g in unit for bi, t in mu.calls(g) if t["target"] is not None and
               any(F.fn(n, required=False) in unit[1:] and F.fn(n, required=False) is not g for n in callee_names(t["func"]))]
    ret_pop = any(any(n.endswith("Vm::stack_pop") for n in callee_names(t["func"]))
                  for g, st_ in starts for bi, t in mu.calls(g) if bi in g.cfg.reachable_from(st_))
    if ret_pop:
        res.append(ok("C18.B", "C18/B/run_function/result-popped", f.loc(), "the callee's return value is popped and handed back"))
    else:
        res.append(bad("C18.B", "C18/B/run_function/result-popped", f.loc(), "run_function leaves the callee's result on the value stack"))
    return res


RULES = [
    Rule("C18.O", rule_o, 14, "positional wiring of the native wrappers"),
    Rule("C18.W", rule_w, 3, "host errors are wrapped with the procedure name; result pushed"),
    Rule("C18.C", rule_c, 5, "nested conversions of host-function parameters are propagated"),
    Rule("C18.H", shared(_c14.rule_b, "C14.B", "C18.H"), 14, "value-stack heights are only set from frame offsets (shared with C14.B)"),
    Rule("C18.N", rule_n, 1, "reserved names cannot be registered"),
    Rule("C18.B", rule_b, 4, "re-entry is frame balanced; a failed callee is unwound"),
    Rule("C18.A", lambda F: abortbal.rule_abort(F, F.fn(_fb.interpreter_loop(F))), 1,
         "a callee that ends the nested run without returning (Abort) is not taken for a return"),
]
