"""C02 — Garbage collection never invalidates a value the program can still use.

  C02.Roots  every field of RuntimeData (and of CallFrame, reachable through call_stack) whose type can hold an object
             reference is enumerated by RuntimeData::gc.
  C02.M      for every CaoLangObjectBody variant, every reference-bearing field of the payload is read by the
             variant's arm of the mark loop (or is covered by a stated derivation); for a field that is a generic container
             of the crate (Table.map : CaoHashMap<Value, Value, _>) every storage component typed by a reference-bearing
             type parameter (keys : NonNull<K>, values : NonNull<V>) that the container's operations read again is
             enumerated by a traversal the arm iterates, and its part of the items reaches the gray worklist.
  C02.P      objects marked Protected (alive through an ObjectGcGuard) are traced, not merely kept.
  C02.R      rooting hazards: no value that left the root set (popped operand, native parameter, result of
             insert_value) is passed into, or live across, a call that may allocate (and therefore collect).
  C02.X      the emitter-side fact that justifies the single exemption of C02.R (RegisterUpvalue is preceded by CopyLast).
"""
from collections import defaultdict
from cao.facts import (AnchorMissing, callee_names, short, op_local, op_place, DefUse, hir_walk, hir_callee, rvalue_places,
                       hir_children, pat_bindings, hir_strip, block_exprs)
from cao.rules import Rule, ok, bad, undecided, note
from cao import mirutil as mu
from cao import hirutil as hu

EXPLANATION = (
    "The property quantifies over GC schedules, but the collector runs inside CaoLangAllocator::alloc, its root set is "
    "fixed in RuntimeData::gc, and an object is lost exactly when a pointer to it is held where the marker does not look "
    "while an allocation happens. C02.Roots/M are type-driven completeness checks: from rustc's type facts every field "
    "that can (transitively) hold a Value / object pointer is computed, and gc's MIR must read each root field and each "
    "payload field in the corresponding arm. C02.P requires a path in gc that pushes Protected objects on the gray "
    "worklist. C02.R is a forward dataflow over the MIR of every VM-side function: values returned by the pop family, "
    "native parameters and insert_value results are 'unrooted'; taint follows copies, borrows, field projections and "
    "calls whose result type can hold a reference; pushing a value back on the value stack re-roots its origin; a hazard "
    "is a call in the may-collect set (call-graph closure of the allocator) that receives a tainted operand or is "
    "followed by a use of one. Each hazard is a violation for some program and schedule (a temporary has no other "
    "reference). Not decided: the differential claim observe(run(P,S)) = observe(run(P,no-GC)) as such."
)
ASSUMPTIONS = [
    "a value popped from the value stack may be the only reference to its object (true for temporaries such as call results and inline closures)",
    "std collections (Vec, Rc) use the global allocator and never trigger a collection; only calls reaching CaoLangAllocator::alloc do",
    "an unknown callee that receives `&mut Vm` (fn pointer, dyn VmFunction) may allocate",
]

REF_MARKERS = ("value::Value", "CaoLangObject", "CaoLangClosure", "CaoLangTable", "CaoLangUpvalue", "CaoLangString")


def bearing(F, ty, seen):
    """Can a value of this type (transitively) hold a reference to a GC object? The allocator handle's
    back-pointer to the owning RuntimeData is not a reference to an object."""
    seen = set(seen) | {"vm::runtime::RuntimeData"}
    if any(m in ty for m in REF_MARKERS):
        return True
    for path, adt in F.adts.items():
        if path in seen:
            continue
        if path in ty or adt["path"] in ty:
            seen2 = seen | {path}
            for v in adt["variants"]:
                for f in v["fields"]:
                    if bearing(F, f["ty"], seen2):
                        return True
    return False


# ---------------------------------------------------------------------------------------------------
# the collector: RuntimeData::gc plus the private functions it reaches in vm::runtime (phases, work-list helpers)
# ---------------------------------------------------------------------------------------------------

GC_FN = "vm::runtime::RuntimeData::gc"


def _is_primitive_push(t):
    """`Vec<.. CaoLangObject ..>::push(list, obj)`: the gray work list grows"""
    return (any(n.startswith("std::vec::Vec::") and n.endswith("::push") for n in callee_names(t["func"]))
            and "CaoLangObject" in "".join(t.get("arg_tys", [])))


class Collector:
    """gc and the non-public functions of vm::runtime it (transitively) calls, in call order. The rules about the collector
    look at all of them: splitting gc into phases or wrapping the work list in a private type must not change a verdict.
      fns       [gc, callee, ..] (closures belong to the function that defines them)
      pushers   function -> set of parameter locals that the function (transitively) appends to the gray work list
                (found by what it does: the parameter flows into `Vec<..CaoLangObject..>::push`)"""

    def __init__(self, F):
        self.F = F
        self.gc = F.fn(GC_FN)
        self.fns = []
        seen = set()

        def visit(g):
            if g.short in seen:
                return
            seen.add(g.short)
            self.fns.append(g)
            for h in [g] + F.closures_of.get(g.short, []):
                if not h.mir:
                    continue
                for _bi, t in mu.calls(h):
                    for n in callee_names(t["func"]):
                        c = F.fn(n, required=False)
                        if c is None or c.is_closure or not c.mir or c.hir is None:
                            continue
                        if not c.short.startswith(("vm::runtime::", "<vm::runtime::")):
                            continue
                        if c.raw.get("vis", "Public") == "Public":
                            continue
                        visit(c)
        visit(self.gc)
        self.shorts = set(g.short for g in self.fns)
        self.pushers = {}
        changed = True
        rounds = 0
        while changed and rounds < 8:
            changed = False
            rounds += 1
            for g in self.fns:
                if g is self.gc:
                    continue
                nargs = len((g.raw.get("sig") or {}).get("inputs", []))
                for p_ in range(1, nargs + 1):
                    if p_ in self.pushers.get(g.short, ()):
                        continue
                    if self._param_reaches_push(g, p_):
                        self.pushers.setdefault(g.short, set()).add(p_)
                        changed = True

    def bodies(self, g):
        return [g] + self.F.closures_of.get(g.short, [])

    def all_bodies(self):
        return [h for g in self.fns for h in self.bodies(g)]

    def push_args(self, t):
        """operands of call terminator t that are appended to the work list ([] if t is no push)"""
        if t["k"] != "call":
            return []
        if _is_primitive_push(t):
            return list(t["args"][1:])
        out = []
        for n in callee_names(t["func"]):
            for p_ in self.pushers.get(n, ()):
                if p_ - 1 < len(t["args"]):
                    out.append(t["args"][p_ - 1])
            if out:
                break
        return out

    def push_sites(self, g):
        return [(bi, t) for bi, t in mu.calls(g) if self.push_args(t)]

    def _param_reaches_push(self, g, p_):
        tainted = {p_}
        changed = True
        while changed:
            changed = False
            for b in g.blocks:
                for st in b["stmts"]:
                    if st["k"] == "assign" and st["place"]["l"] not in tainted and any(q["l"] in tainted for q in rvalue_places(st["rv"])):
                        tainted.add(st["place"]["l"])
                        changed = True
                t = b["term"]
                if t["k"] == "call" and t["dest"]["l"] not in tainted:
                    if any((op_place(a) or {"l": None})["l"] in tainted for a in t["args"]):
                        tainted.add(t["dest"]["l"])
                        changed = True
        for b in g.blocks:
            for a in self.push_args(b["term"]):
                q = op_place(a)
                if q is not None and q["l"] in tainted:
                    return True
        return False


def collector(F):
    c = getattr(F, "_c02_collector", None)
    if c is None:
        c = Collector(F)
        F._c02_collector = c
    return c


def self_fields_read(F, fn, with_closures=True):
    """Field paths (tuples of names) of `*self` read or borrowed anywhere in fn (+ its closures via captured self).
    Locals that alias self (copies, reborrows, the closure's captured `self`) are followed."""
    out = set()
    fns = [fn] + (F.closures_of.get(fn.short, []) if with_closures else [])
    for g in fns:
        if not g.mir:
            continue
        alias = set()
        if g is fn:
            alias.add(1)
        changed = True
        while changed:
            changed = False
            for b in g.blocks:
                for st in b["stmts"]:
                    if st["k"] != "assign" or st["place"]["p"]:
                        continue
                    dst = st["place"]["l"]
                    if dst in alias:
                        continue
                    rv = st["rv"]
                    src = None
                    if rv["k"] in ("use", "cast"):
                        src = op_place(rv["op"])
                    elif rv["k"] in ("ref", "rawptr"):
                        src = rv["place"]
                    if src is None:
                        continue
                    names = [e["name"] for e in src["p"] if e["k"] == "field"]
                    if src["l"] in alias and not names:
                        alias.add(dst)
                        changed = True
                    elif g is not fn and src["l"] == 1 and names == ["self"]:
                        alias.add(dst)
                        changed = True
        for b in g.blocks:
            places = []
            for st in b["stmts"]:
                if st["k"] == "assign":
                    places.extend(rvalue_places(st["rv"]))
                    places.append(st["place"])
            t = b["term"]
            if t["k"] == "call":
                for a in t["args"]:
                    p = op_place(a)
                    if p is not None:
                        places.append(p)
            for p in places:
                names = [e["name"] for e in p["p"] if e["k"] == "field"]
                if g is not fn and p["l"] == 1 and names[:1] == ["self"]:
                    names = names[1:]
                    if names:
                        out.add(tuple(names))
                elif p["l"] in alias and names:
                    out.add(tuple(names))
    return out


ROOT_EXEMPT = {
    "object_list": "the heap itself (the sweep set); membership does not make an object reachable",
}


def field_feeds_worklist(F, gc, field):
    """Does what gc reads from `self.<field>` reach the gray worklist? Either by data flow into an argument of the
    worklist push, or by control: the push is dominated by a branch decided by a value derived from the field."""
    tainted = set()
    blocks = gc.blocks
    changed = True
    def place_tainted(p):
        if p["l"] in tainted:
            return True
        if p["l"] == 1:
            names = [e["name"] for e in p["p"] if e["k"] == "field"]
            return bool(names) and names[0] == field
        return False
    while changed:
        changed = False
        for b in blocks:
            for st in b["stmts"]:
                if st["k"] != "assign":
                    continue
                if any(place_tainted(p) for p in rvalue_places(st["rv"])):
                    if st["place"]["l"] not in tainted:
                        tainted.add(st["place"]["l"])
                        changed = True
            t = b["term"]
            if t["k"] == "call":
                srcs = [op_place(a) for a in t["args"]]
                if any(p is not None and place_tainted(p) for p in srcs):
                    if t["dest"]["l"] not in tainted:
                        tainted.add(t["dest"]["l"])
                        changed = True
                    # &mut iterators handed to next(): the iterator local itself stays tainted
    cfg = gc.cfg
    col = collector(F)
    pushes = col.push_sites(gc)
    for bi, t in pushes:
        for a in col.push_args(t):
            p = op_place(a)
            if p is not None and place_tainted(p):
                return True
    # control: the push is control-dependent (directly, or through further decisions) on a switch over a tainted value:
    # some successor of the switch leads to the push on every path while the switch itself does not (so the code after a
    # loop whose exit test reads the field does not count as fed by the field)
    rets = cfg.return_blocks()
    push_blocks = set(bi for bi, _t in pushes)

    def dependents(sb):
        t = blocks[sb]["term"]
        succs = set([tb for _v, tb in t["targets"]] + [t["otherwise"]])
        out = set()
        for s_ in succs:
            for b in cfg.reach:
                if b in out or not cfg.dominates(s_, b):
                    continue
                if cfg.every_path_passes(s_, rets, {b}) and not cfg.every_path_passes(sb, rets, {b}):
                    out.add(b)
        return out

    for sb, b in enumerate(blocks):
        t = b["term"]
        if t["k"] != "switch" or sb not in cfg.reach:
            continue
        p = op_place(t["discr"])
        if p is None or not place_tainted(p):
            continue
        seen, work = set(), [sb]
        while work:
            x = work.pop()
            for d in dependents(x):
                if d in seen:
                    continue
                seen.add(d)
                if d in push_blocks:
                    return True
                if blocks[d]["term"]["k"] == "switch":
                    work.append(d)
    return False


def rule_roots(F):
    res = []
    rd = F.adt("vm::runtime::RuntimeData")
    gc = F.fn("vm::runtime::RuntimeData::gc")
    col = collector(F)
    # the root enumeration may live in gc itself or in a phase it calls on the same RuntimeData (a method taking self)
    read_first = set()
    for g in col.fns:
        if not g.mir or not (g.raw.get("sig") or {}).get("inputs") or "vm::runtime::RuntimeData" not in g.local_ty(1):
            continue
        for r in self_fields_read(F, g):
            if r[0] not in read_first and field_feeds_worklist(F, g, r[0]):
                read_first.add(r[0])
    all_fields_anywhere = set()
    for g in col.all_bodies():
        if not g.mir:
            continue
        for b in g.blocks:
            for st in b["stmts"]:
                if st["k"] == "assign":
                    for p in rvalue_places(st["rv"]) + [st["place"]]:
                        for e in p["p"]:
                            if e["k"] == "field":
                                all_fields_anywhere.add((e.get("owner", ""), e["name"]))
    for f in rd["variants"][0]["fields"]:
        name, ty = f["name"], f["ty"]
        b = bearing(F, ty, {"vm::runtime::RuntimeData"})
        key = "C02/Roots/RuntimeData.%s" % name
        if not b:
            res.append(ok("C02.Roots", key, gc.loc(), "type %s cannot hold an object reference" % ty, bearing=False))
            continue
        if name in ROOT_EXEMPT:
            res.append(ok("C02.Roots", key, gc.loc(), "exempt: " + ROOT_EXEMPT[name], bearing=True, exempt=True))
            continue
        if name in read_first:
            res.append(ok("C02.Roots", key, gc.loc(), "enumerated by gc (type %s)" % ty, bearing=True))
        else:
            res.append(bad("C02.Roots", key, gc.loc(),
                           "RuntimeData.%s : %s can hold object references but RuntimeData::gc never looks at it: an object "
                           "reachable only from there is swept while still in use" % (name, ty)))
    # CallFrame fields
    cf = F.adt("vm::runtime::CallFrame")
    for f in cf["variants"][0]["fields"]:
        if bearing(F, f["ty"], {"vm::runtime::RuntimeData", "vm::runtime::CallFrame"}):
            key = "C02/Roots/CallFrame.%s" % f["name"]
            seen = any(nm == f["name"] and "CallFrame" in owner for owner, nm in all_fields_anywhere) and "call_stack" in read_first
            if seen:
                res.append(ok("C02.Roots", key, gc.loc(), "read by gc"))
            else:
                res.append(bad("C02.Roots", key, gc.loc(),
                               "CallFrame.%s : %s refers to a heap object (the executing closure) but is not a root: a closure "
                               "called as a temporary is swept while its body runs" % (f["name"], f["ty"])))
    return res


# ---------------------------------------------------------------------------------------------------

BODY = "vm::runtime::cao_lang_object::CaoLangObjectBody"

DERIVED = {
    # field -> (reason, checker)
    ("Upvalue", "value"): "reached through `location` once the upvalue is closed (_close_upvalues sets location = &mut value)",
}


def check_value_derivation(F):
    """_close_upvalues stores &mut upvalue.value into upvalue.location"""
    f = mu.upvalue_closer(F)
    for bi, si, st in ((bi, si, st) for bi, b in enumerate(f.blocks) for si, st in enumerate(b["stmts"]) if st["k"] == "assign"):
        fp = mu.field_path(st["place"])
        if fp[-1:] == ["location"]:
            return True
    return False


def rule_m(F):
    res = []
    entry = F.fn("vm::runtime::RuntimeData::gc")
    col = collector(F)
    body = F.adt(BODY)
    # the mark loop's switch on the discriminant of CaoLangObjectBody: of all such switches in the collector's functions the
    # one that distinguishes the most object kinds (the frame-closure search only singles out Closure)
    sw = None
    for g in col.fns:
        if not g.mir:
            continue
        for bi, b in enumerate(g.blocks):
            t = b["term"]
            if t["k"] != "switch":
                continue
            loc = op_local(t["discr"])
            for st in b["stmts"]:
                if st["k"] == "assign" and st["place"]["l"] == loc and st["rv"]["k"] == "discr" and short(st["rv"]["adt"]) == BODY:
                    if sw is None or len(t["targets"]) >= len(sw[2]["targets"]):
                        sw = (g, bi, t)
    if sw is None or len(sw[2]["targets"]) < 3:
        raise AnchorMissing("match on CaoLangObjectBody in RuntimeData::gc")
    gc, bi, t = sw
    by_discr = {v["discr"]: v["name"] for v in body["variants"]}
    targets = {by_discr[val]: tb for val, tb in t["targets"] if val in by_discr}
    missing = [v["name"] for v in body["variants"] if v["name"] not in targets]
    if len(missing) == 1 and gc.blocks[t["otherwise"]]["term"]["k"] != "unreachable":
        targets[missing[0]] = t["otherwise"]
    cfg = gc.cfg
    headers = [h for (_a, h) in cfg.back_edges() if cfg.dominates(h, bi)]
    header = max(headers, key=lambda h: len(cfg.dom[h])) if headers else None
    for v in body["variants"]:
        vname = v["name"]
        payload_ty = v["fields"][0]["ty"] if v["fields"] else ""
        padt = F.adts.get(short(payload_ty))
        if vname not in targets:
            res.append(bad("C02.M", "C02/M/%s/arm" % vname, gc.loc(), "the mark loop has no arm for %s" % vname))
            continue
        if padt is None:
            res.append(undecided("C02.M", "C02/M/%s" % vname, gc.loc(), "payload type %s unknown" % payload_ty))
            continue
        # region of the arm
        saved = cfg.succ[header] if header is not None else None
        if header is not None:
            cfg.succ[header] = []
        try:
            region = cfg.reachable_from(targets[vname])
        finally:
            if header is not None:
                cfg.succ[header] = saved
        # other arms' entry blocks are not part of this arm
        read = set()
        for b2 in region:
            blk = gc.blocks[b2]
            places = []
            for st in blk["stmts"]:
                if st["k"] == "assign":
                    places.extend(rvalue_places(st["rv"]))
            tt = blk["term"]
            if tt["k"] == "call":
                # a method call on the payload reads what the callee reads of self
                names = callee_names(tt["func"])
                for n in names:
                    callee = F.fn(n, required=False)
                    if callee is not None and callee.mir and callee.raw.get("impl_self") and short(callee.raw["impl_self"]) == short(payload_ty):
                        for r in self_fields_read(F, callee):
                            read.add(r[0])
                for a in tt["args"]:
                    p = op_place(a)
                    if p is not None:
                        places.append(p)
            for p in places:
                for e in p["p"]:
                    if e["k"] == "field" and short(e.get("owner", "")) == short(payload_ty):
                        read.add(e["name"])
        for f in padt["variants"][0]["fields"]:
            if not bearing(F, f["ty"], set()):
                continue
            key = "C02/M/%s.%s" % (vname, f["name"])
            if f["name"] in read:
                res.append(ok("C02.M", key, gc.loc(), "%s.%s : %s is traced" % (vname, f["name"], f["ty"])))
            elif (vname, f["name"]) in DERIVED and check_value_derivation(F):
                res.append(ok("C02.M", key, gc.loc(), "derived: " + DERIVED[(vname, f["name"])]))
            else:
                # a link field that the root enumeration walks counts as covered
                walked = any(f["name"] == r[-1] for g2 in col.fns if g2.mir for r in self_fields_read(F, g2)) or any(
                    e.get("name") == f["name"] and short(e.get("owner", "")) == short(payload_ty)
                    for g2 in col.all_bodies() if g2.mir
                    for b3 in g2.blocks for st in b3["stmts"] if st["k"] == "assign"
                    for p in rvalue_places(st["rv"]) for e in p["p"] if e["k"] == "field")
                if walked:
                    res.append(ok("C02.M", key, gc.loc(), "%s.%s is followed by gc outside the arm (root list walk)" % (vname, f["name"])))
                else:
                    res.append(bad("C02.M", key, gc.loc(),
                                   "%s.%s : %s can hold an object reference but the mark phase never follows it" % (vname, f["name"], f["ty"])))
        if not any(bearing(F, f["ty"], set()) for f in padt["variants"][0]["fields"]):
            res.append(ok("C02.M", "C02/M/%s" % vname, gc.loc(), "%s has no reference-bearing field" % vname))
    return res + rule_m_parts(F)


# ---------------------------------------------------------------------------------------------------
# C02.M, second level: the storage components of a payload's sub-containers
# ---------------------------------------------------------------------------------------------------

def _split_top(sx):
    """split a comma separated list at nesting depth 0"""
    out, depth, cur = [], 0, ""
    for ch in sx:
        if ch in "<([":
            depth += 1
        elif ch in ">)]":
            depth -= 1
        if ch == "," and depth == 0:
            out.append(cur.strip())
            cur = ""
        else:
            cur += ch
    if cur.strip():
        out.append(cur.strip())
    return out


def _generic_args(ty):
    i = ty.find("<")
    if i < 0 or not ty.endswith(">"):
        return []
    return _split_top(ty[i + 1:-1])


def _mentions_param(ty, param):
    import re
    return re.search(r"(?<![A-Za-z0-9_:])%s(?![A-Za-z0-9_])" % re.escape(param), ty) is not None


def _item_components(out_ty):
    """`impl Iterator<Item = (&K, &V)>` -> ['&K', '&V'];  `.. Item = &K>` -> ['&K'];  None if the output is no such type"""
    i = out_ty.find("Item = ")
    if i < 0:
        return None
    rest = out_ty[i + len("Item = "):]
    depth, j = 0, 0
    while j < len(rest):
        ch = rest[j]
        if ch in "<([":
            depth += 1
        elif ch in ">)]":
            if depth == 0:
                break
            depth -= 1
        elif ch == "," and depth == 0:
            break
        j += 1
    item = rest[:j].strip()
    if item.startswith("(") and item.endswith(")"):
        return _split_top(item[1:-1])
    return [item]


def mark_match_hir(F):
    """(function, arms) of the `match <obj>.body { .. }` of the mark phase: among the collector's functions the match on
    CaoLangObjectBody that names at least four object kinds"""
    from cao.facts import pat_variants
    best = None
    for g in collector(F).fns:
        if g.hir is None:
            continue
        for x in hir_walk(g.hir["body"]):
            if x.get("k") != "match":
                continue
            kinds = set(n for a in x["arms"] for n, _s, _p in pat_variants(a["pat"]) if "CaoLangObjectBody" in n)
            if len(kinds) >= 4 and (best is None or len(kinds) >= best[2]):
                best = (g, x["arms"], len(kinds))
    if best is None:
        raise AnchorMissing("match on CaoLangObjectBody in the mark loop of gc")
    return best[0], best[1]


def mark_arms_hir(F):
    """(function of the mark match, variant name of CaoLangObjectBody -> body of its arm)"""
    from cao.facts import pat_variants
    g, arms = mark_match_hir(F)
    out = {}
    for a in arms:
        for nm, _s, _p in pat_variants(a["pat"]):
            if "::" in nm:
                out[nm.rsplit("::", 1)[-1]] = a["body"]
    return g, out


def _for_pattern_of(arm_body, call):
    """the item pattern of the `for PAT in <expr containing call>` loop of the arm, and the loop body; None if the result
    of the call is not iterated by a for loop"""
    for x in hir_walk(arm_body):
        if x.get("k") != "match" or x.get("source") != "ForLoopDesugar":
            continue
        sc = hir_strip(x["scrut"])
        if sc is None or sc.get("k") != "call" or not any(n.endswith("IntoIterator::into_iter") for n in hir_callee(sc)):
            continue
        if not any(y is call for y in hir_walk(sc)):
            continue
        for y in hir_walk(x["arms"][0]["body"]):
            if y.get("k") == "match" and y.get("source") == "ForLoopDesugar":
                for a in y["arms"]:
                    p = a["pat"]
                    if p.get("k") == "struct" and p.get("fields"):
                        return p["fields"][0]["pat"], a["body"]
                    if p.get("k") == "tuple_struct" and p.get("pats"):
                        return p["pats"][0], a["body"]
    return None


def _reaches_worklist(body, seeds, component=None, col=None):
    """Does a value bound to one of the locals `seeds` flow, inside `body`, into the gray worklist (a push onto the
    Vec of objects, or a call that receives it together with the worklist)? Flow: `let P = e` / `if let P = e` /
    `match e { P => .. }` bind P's variables when e mentions a flowing local. With `component`, only the uses of
    `<seed>.<component>` start the flow."""
    tainted = set()

    def mentions(e, direct_ok=True):
        for y in hir_walk(e):
            if y.get("k") == "path" and y["path"]["res"].get("k") == "local" and y["path"]["res"]["id"] in tainted:
                return True
            if component is not None and y.get("k") == "field" and y["name"] == str(component):
                b = hu.strip_all(y["e"])
                if b is not None and b.get("k") == "path" and b["path"]["res"].get("k") == "local" and b["path"]["res"]["id"] in seeds:
                    return True
        return False
    if component is None:
        tainted |= set(seeds)
    changed = True
    nodes = list(hir_walk(body))
    while changed:
        changed = False
        for x in nodes:
            k = x.get("k")
            binds = []
            if k == "let" and x.get("init") is not None and mentions(x["init"]):
                binds = [i for i, _n in pat_bindings(x["pat"])]
            elif k == "match" and mentions(x["scrut"]):
                for a in x["arms"]:
                    binds += [i for i, _n in pat_bindings(a["pat"])]
            elif k == "block":
                for st in x["block"]["stmts"]:
                    if st["k"] == "let" and st.get("init") is not None and mentions(st["init"]):
                        binds += [i for i, _n in pat_bindings(st["pat"])]
            elif k == "assign" and mentions(x["r"]):
                lid = hu.field_chain(x["l"])
                if lid is not None and lid[0] is not None:
                    binds = [lid[0]]
            for b in binds:
                if b not in tainted:
                    tainted.add(b)
                    changed = True
    for x in nodes:
        if x.get("k") not in ("mcall", "call"):
            continue
        args = ([x["recv"]] if x["k"] == "mcall" else []) + list(x["args"])
        names = hir_callee(x)
        # a function of the collector that appends one of its parameters to the work list (GrayQueue::push_if_white ..)
        if col is not None:
            for n in names:
                for p_ in col.pushers.get(n, ()):
                    if p_ - 1 < len(args) and mentions(args[p_ - 1]):
                        return True
        tys = [(hir_strip(a) or {}).get("ty", "") or "" for a in args]
        wl = [i for i, t in enumerate(tys) if "Vec<" in t and "CaoLangObject" in t]
        if not wl:
            continue
        is_push = any(n.startswith("std::vec::Vec::") and n.endswith("::push") for n in names)
        if is_push or any(n.startswith(("vm::", "collections::")) for n in names):
            if any(mentions(a) for i, a in enumerate(args) if i not in wl):
                return True
    return False


def rule_m_parts(F):
    """C02.M, storage components: a payload field that is itself a container of the crate (`map: CaoHashMap<Value, Value, _>`)
    keeps object references in several places - every field of the container whose type is built from a type parameter
    that is instantiated with a reference-bearing type (`keys: NonNull<K>`, `values: NonNull<V>`). Each of them that the
    container's own operations read again must be enumerated by the object's arm of the mark loop: the arm iterates a
    traversal of the container that reads the field, and the part of the traversal's item that stands for the field
    (the tuple component typed by the same parameter) flows into the gray worklist. Marking one projection only (the
    values of the slots but not their keys) leaves the other one dangling as soon as the object's other views (the key
    list) stop mentioning it."""
    res = []
    col = collector(F)
    body = F.adt(BODY)
    gc, arms = mark_arms_hir(F)
    for v in body["variants"]:
        vname = v["name"]
        payload_ty = v["fields"][0]["ty"] if v["fields"] else ""
        padt = F.adts.get(short(payload_ty))
        if padt is None or vname not in arms:
            continue
        arm = arms[vname]
        for pf in padt["variants"][0]["fields"]:
            cty = pf["ty"]
            cadt = F.adts.get(short(cty).split("<")[0])
            if cadt is None or not cadt.get("ty_params") or not bearing(F, cty, set()):
                continue
            params = _generic_args(cadt.get("self_ty", ""))
            args = _generic_args(cty)
            if not params or len(params) != len(args):
                res.append(undecided("C02.M", "C02/M/%s.%s.*" % (vname, pf["name"]), gc.loc(), "generic arguments of %s not understood" % cty))
                continue
            inst = dict(zip(params, args))
            cpath = cadt["path"]
            methods = [g for g in F.fns if not g.is_closure and g.hir is not None and g.raw.get("impl_self")
                       and short(g.raw["impl_self"]).split("<")[0] == cpath]
            reads = {g.short: set(r[0] for r in self_fields_read(F, g)) for g in methods}
            # traversals of the container that the arm iterates
            trav = []
            for y in hir_walk(arm):
                if y.get("k") == "mcall":
                    for cn in hir_callee(y):
                        g = next((m for m in methods if m.short == cn), None)
                        if g is not None:
                            trav.append((g, y))
            for sf in cadt["variants"][0]["fields"]:
                ps = [p_ for p_ in params if _mentions_param(sf["ty"], p_) and bearing(F, inst[p_], set())]
                if not ps:
                    continue
                key = "C02/M/%s.%s.%s" % (vname, pf["name"], sf["name"])
                what = "%s.%s.%s : %s (%s = %s)" % (vname, pf["name"], sf["name"], sf["ty"], ps[0], inst[ps[0]])
                readers = sorted(g.name for g in methods if sf["name"] in reads[g.short] and not any(g is t for t, _y in trav)
                                 and g.name not in ("drop", "clear"))
                if not readers:
                    res.append(ok("C02.M", key, gc.loc(), "%s is never read again by an operation of %s" % (what, cadt["path"].rsplit("::", 1)[-1])))
                    continue
                if not trav:
                    res.append(undecided("C02.M", key, gc.loc(), "the %s arm calls no traversal of %s: cannot tell how %s is enumerated" % (vname, cpath, what)))
                    continue
                verdicts = []
                for g, y in trav:
                    if sf["name"] not in reads[g.short]:
                        continue
                    comps = _item_components((g.raw.get("sig") or {}).get("output", ""))
                    if comps is None:
                        verdicts.append(("undecided", g, y, "the item type of %s is not written as `Item = ..`" % g.name))
                        continue
                    idx = [i for i, c in enumerate(comps) if any(_mentions_param(c, p_) for p_ in ps)]
                    if not idx:
                        verdicts.append(("dropped", g, y, "%s reads `%s` but its items (%s) carry nothing of type %s" % (g.name, sf["name"], ", ".join(comps), ps[0])))
                        continue
                    fp = _for_pattern_of(arm, y)
                    if fp is None:
                        verdicts.append(("undecided", g, y, "the result of %s is not consumed by a `for` loop" % g.name))
                        continue
                    pat, lbody = fp
                    while pat.get("k") in ("ref", "box", "deref"):
                        pat = pat["pat"]
                    good = True
                    why = ""
                    for i in idx:
                        if len(comps) > 1 and pat.get("k") == "tuple":
                            sub = pat["pats"][i] if i < len(pat["pats"]) else None
                            seeds = [b for b, _n in pat_bindings(sub)] if sub is not None else []
                            comp = None
                        elif pat.get("k") == "bind":
                            seeds = [pat["id"]]
                            comp = i if len(comps) > 1 else None
                        else:
                            seeds, comp = [b for b, _n in pat_bindings(pat)], None
                        if not seeds:
                            good = False
                            why = "the loop over %s ignores component %d of its items (`%s`, pattern `_`)" % (g.name, i, comps[i])
                        elif not _reaches_worklist(lbody, set(seeds), comp, col):
                            good = False
                            why = "component %d (`%s`) of the items of %s is bound but never reaches the gray worklist" % (i, comps[i], g.name)
                    verdicts.append(("ok" if good else "dropped", g, y, why))
                if any(vd[0] == "ok" for vd in verdicts):
                    g = next(vd[1] for vd in verdicts if vd[0] == "ok")
                    res.append(ok("C02.M", key, gc.loc(), "%s is enumerated through %s and enqueued; it is read again by %s" % (what, g.name, ", ".join(readers[:4]))))
                elif any(vd[0] == "undecided" for vd in verdicts):
                    vd = next(vd for vd in verdicts if vd[0] == "undecided")
                    res.append(undecided("C02.M", key, gc.loc(vd[2].get("ln")), vd[3]))
                else:
                    why = "; ".join(vd[3] for vd in verdicts) or "no traversal called by the arm reads `%s`" % sf["name"]
                    ln = verdicts[0][2].get("ln") if verdicts else None
                    res.append(bad("C02.M", key, gc.loc(ln),
                                   "%s holds object references that the mark phase does not follow: %s. The %s arm marks other views of the "
                                   "object only, but %s still read(s) this storage: once the other views no longer mention an object kept here "
                                   "(a row whose key was mutated after insertion survives pop/remove in the hash part while it leaves the key "
                                   "list) the sweep frees it and the next lookup that lands on the row dereferences freed memory"
                                   % (what, why, vname, ", ".join(readers[:4]))))
    return res


# ---------------------------------------------------------------------------------------------------

MARKER = "vm::runtime::cao_lang_object::GcMarker"


FIRST_HIT_CONSUMERS = ("find", "find_map", "position", "rposition")
ITER_CONSUMERS = FIRST_HIT_CONSUMERS + ("for_each", "try_for_each", "fold", "any", "all", "extend", "collect", "count", "last")


def rule_b(F):
    """C02.B: the collector's scans run to completion. A user-written `break` / `return` inside a loop of gc() (or of a
    private function gc reaches) is accepted only as the end of a search for *one* root: the loop it leaves is nested in
    another loop and the condition that leads to the exit mentions that outer loop's item (frame -> its closure object).
    The same holds for a scan written as an iterator search (`.find(..)`, `.position(..)`): it must sit inside a loop and
    its predicate must mention that loop's item. A scan over a whole set of roots or candidates that stops at the first hit
    leaves the remaining ones unmarked; the sweep then frees objects still in use."""
    res = []
    gc = F.fn("vm::runtime::RuntimeData::gc")
    col = collector(F)
    hir_fns = [g for g in col.fns if g.hir is not None]
    loops_total = 0
    for g in hir_fns:
        for x in hir_walk(g.hir["body"]):
            if x.get("k") == "loop":
                loops_total += 1
            elif x.get("k") == "mcall" and x.get("name") in ITER_CONSUMERS and any("iter" in n.lower() for n in hir_callee(x)):
                loops_total += 1      # a loop written as an iterator chain
    if loops_total < 8:
        raise AnchorMissing("loops of RuntimeData::gc (found %d)" % loops_total)
    state = {"n": 0, "n_cond": 0, "n_find": 0}
    # call sites of the collector's helpers that lie inside a loop (a `return` in such a helper ends one step of that loop)
    called_in_loop = set()
    for g in hir_fns:
        anc = hu.control_ancestors(g.hir["body"])
        for x in hir_walk(g.hir["body"]):
            if x.get("k") in ("call", "mcall") and any(k_ == "loop" for k_, _i in anc.get(id(x), ())):
                called_in_loop |= set(n for n in hir_callee(x) if n in col.shorts)
    for g in hir_fns:
        _rule_b_fn(F, gc, g, res, state, g.short in called_in_loop)
    if state["n"] == 0 and state["n_find"] == 0 and not res:
        res.append(ok("C02.B", "C02/B/gc/no-early-exit", gc.loc(), "no user-written break/return inside any of the %d loops of gc()" % loops_total))
    return res


def _rule_b_fn(F, entry, gc, res, state, called_in_loop):
    """the early exits of one function of the collector"""
    inits = hu.let_inits(gc)
    parents = {}
    for x in hir_walk(gc.hir["body"]):
        for c in hir_children(x):
            parents[id(c)] = x
    exits = [x for x in hir_walk(gc.hir["body"]) if x.get("k") in ("break", "ret") and not x.get("exp")]
    param_ids = set(i for p_ in gc.hir.get("params", []) for i, _n in pat_bindings(p_))

    def refs(e, depth=0, seen=None):
        seen = seen if seen is not None else set()
        out = set()
        for y in hir_walk(e):
            if y.get("k") == "path" and y["path"]["res"].get("k") == "local":
                lid = y["path"]["res"]["id"]
                out.add(lid)
                if lid not in seen and depth < 6:
                    seen.add(lid)
                    for i in inits.get(lid, []):
                        out |= refs(i, depth + 1, seen)
        return out

    def loop_bindings(lp):
        out = set()
        for y in hir_walk(lp):
            if y.get("k") == "match" and y.get("source") in ("ForLoopDesugar", "WhileLetDesugar") or y.get("k") == "match" and y.get("exp"):
                for a in y["arms"]:
                    out |= set(i for i, _ in pat_bindings(a["pat"]))
                break
        for st in lp["body"]["stmts"]:
            if st["k"] == "let":
                out |= set(i for i, _ in pat_bindings(st["pat"]))
        return out

    def is_loop_condition(ex, lp):
        """The break is decided by the first thing an iteration evaluates, before any effect of the iteration:
        `loop { let x = match E { P => x, _ => break }; .. }`, `loop { match E { P => {..}, _ => break } }`,
        `loop { let P = E else { break }; .. }`, `loop { if c { break } .. }`. These are what `while let P = E { .. }` and
        `while !c { .. }` desugar to (whose compiler-made breaks are not exits of a scan either): the loop's own
        termination test, not a stop at the first hit."""
        if ex.get("label") or ex.get("e") is not None:
            return False
        body = lp["body"]
        first = None
        if body["stmts"]:
            st = body["stmts"][0]
            if st["k"] == "let":
                if st.get("els") is not None:
                    els = st["els"]
                    only = [y for y in block_exprs(els)]
                    if len(only) == 1 and hir_strip(only[0]) is ex:
                        return True
                first = st.get("init")
            else:
                first = st.get("e")
        else:
            first = body.get("expr")
        first = hir_strip(first) if first is not None else None
        if first is None:
            return False
        if first.get("k") == "match":
            if any(a.get("guard") for a in first["arms"]):
                return False
            return any(hir_strip(a["body"]) is ex for a in first["arms"])
        if first.get("k") == "if":
            return hir_strip(first["then"]) is ex or (first.get("else") is not None and hir_strip(first["else"]) is ex)
        return False

    def chain_of(x):
        """enclosing nodes of x inside the innermost closure body (a `return` in a closure leaves the closure only)"""
        chain = []
        p = parents.get(id(x))
        in_closure = False
        while p is not None:
            if p.get("k") == "closure":
                in_closure = True
                break
            chain.append(p)
            p = parents.get(id(p))
        return chain, in_closure

    for ex in exits:
        chain, in_closure = chain_of(ex)
        loops = [c for c in chain if c.get("k") == "loop"]
        if not loops:
            continue   # an exit outside any loop: a plain early return of a phase (C02.U looks at those) / of a closure
        if ex["k"] == "break" and is_loop_condition(ex, loops[0]):
            state["n_cond"] += 1
            res.append(ok("C02.B", "C02/B/gc/loop-condition#%d" % state["n_cond"], gc.loc(ex.get("ln")),
                          "the break is the loop's own termination test (first thing evaluated in an iteration, as in `while let`)"))
            continue
        state["n"] += 1
        n = state["n"]
        inner = loops[0]
        conds = []
        for c in chain:
            if c is inner:
                break
            if c.get("k") == "if":
                conds.append(c["cond"])
            if c.get("k") == "match":
                conds.append(c.get("e") or c.get("scrut"))
        used = set()
        for c in conds:
            if c is not None:
                used |= refs(c)
        outer = loops[1:]
        key = "C02/B/gc/%s#%d-ends-a-search-for-one-root" % (ex["k"], n)
        if ex["k"] == "ret" and not in_closure and gc is not entry and called_in_loop and (used & param_ids):
            res.append(ok("C02.B", key, gc.loc(ex.get("ln")), "%s returns once it has found what its argument asks for; it is called "
                          "from a loop over the roots, which goes on" % gc.name))
        elif ex["k"] == "ret":
            res.append(bad("C02.B", key, gc.loc(ex.get("ln")), "gc() returns from inside a marking/sweeping loop: the rest of the roots are never marked"))
        elif any(used & loop_bindings(o) for o in outer):
            res.append(ok("C02.B", key, gc.loc(ex.get("ln")), "leaves the inner search once the outer loop's item is found; the outer loop goes on"))
        else:
            res.append(bad("C02.B", key, gc.loc(ex.get("ln")),
                           "gc() leaves a scan with `break` after the first hit, and the scan is not a per-item search nested in a loop over "
                           "the roots (the exit condition does not mention an enclosing loop's item): every root after the first match stays "
                           "unmarked - e.g. only the first call frame's closure is kept, the closures of the other active frames are freed "
                           "by the sweep while they are still executing"))
    # scans written as iterator searches: `.find(pred)` stops at the first hit like `for .. { if pred { ..; break } }`
    for x in hir_walk(gc.hir["body"]):
        if not (x.get("k") == "mcall" and x.get("name") in FIRST_HIT_CONSUMERS and any(n.startswith(("std::iter::", "core::iter::")) for n in hir_callee(x))):
            continue
        chain, in_closure = chain_of(x)
        loops = [c for c in chain if c.get("k") == "loop"]
        state["n_find"] += 1
        key = "C02/B/gc/%s#%d-ends-a-search-for-one-root" % (x["name"], state["n_find"])
        used = set()
        for a in x["args"]:
            used |= refs(a)
        if any(used & loop_bindings(o) for o in loops) or (gc is not entry and called_in_loop and (used & param_ids)):
            res.append(ok("C02.B", key, gc.loc(x.get("ln")), "a search for the one object the enclosing loop's item refers to; the loop goes on"))
        else:
            res.append(bad("C02.B", key, gc.loc(x.get("ln")),
                           "gc() scans with `.%s(..)`, which stops at the first hit, and the scan is not a per-item search nested in a loop "
                           "over the roots (the predicate does not mention an enclosing loop's item): every root after the first match "
                           "stays unmarked and is freed by the sweep while still in use" % x["name"]))


def rule_u(F):
    """C02.U: every collection ends with the unmark phase. The mark phase only descends into White children, so an object
    left Gray by one collection is taken for 'already visited' by the next one and whatever was stored into it in between
    is never marked. Decided on the MIR of gc(): every path from a store of Gray into a marker to the return passes through
    the loop that stores White (its header, so that an empty object list still counts). A call of a private phase of the
    collector stands for what the phase does: it is a Gray point if the phase (transitively) stores Gray, and it is the
    unmark phase if every path through the callee passes the callee's own unmark loop / `for_each` that stores White."""
    res = []
    gc = F.fn("vm::runtime::RuntimeData::gc")
    col = collector(F)

    def is_marker_place(h, place):
        if mu.field_path(place)[-1:] == ["marker"]:
            return True
        if [e["k"] for e in place["p"]] == ["deref"]:
            ty = h.local_ty(place["l"])
            return ty.replace("&mut ", "").replace("*mut ", "").strip() == MARKER
        return False

    def direct_stores(h):
        """[(block, variant)] of the marker stores written in body h"""
        hdu = DefUse(h)
        out = []
        for bi, b in enumerate(h.blocks):
            if bi not in h.cfg.reach:
                continue
            for st in b["stmts"]:
                if st["k"] == "assign" and is_marker_place(h, st["place"]):
                    rv = st["rv"]
                    v = rv["agg"].get("variant") if rv["k"] == "agg" else (mu.operand_variant(h, hdu, rv["op"]) if rv["k"] == "use" else None)
                    if isinstance(v, str):
                        out.append((bi, v.rsplit("::", 1)[-1]))
        return out

    def closures_passed(h, t):
        """closure bodies constructed in h and handed to call t"""
        hdu = DefUse(h)
        out = []
        for a in t["args"]:
            l = op_local(a)
            d = hdu.sole_def(l) if l is not None else None
            if d is not None and d[2] == "assign" and d[3]["rv"]["k"] == "agg" and d[3]["rv"]["agg"].get("k") == "closure":
                c = F.fn(short(d[3]["rv"]["agg"]["path"]), required=False)
                if c is not None and c.mir:
                    out.append(c)
        return out

    memo = {}

    def info(g, stack=()):
        """gray: blocks of g at which Gray is stored; points: blocks every passage of which unmarks the survivors;
        white_unlooped: g stores White outside a loop of its own (the caller's loop around the call is the unmark loop)"""
        if g.short in memo:
            return memo[g.short]
        memo[g.short] = r = {"gray": [], "points": set(), "white_unlooped": False, "stores_gray": False, "always_unmarks": False,
                             "white": []}
        cfg = g.cfg
        white = []
        for bi, v in direct_stores(g):
            if v == "Gray":
                r["gray"].append(bi)
            elif v == "White":
                white.append(bi)
        for bi, b in enumerate(g.blocks):
            if bi not in cfg.reach:
                continue
            t = b["term"]
            if t["k"] != "call":
                continue
            for n in callee_names(t["func"]):
                h = F.fn(n, required=False)
                if h is None or not h.mir or h.is_closure or h.short == g.short or h.short in stack or h.short not in col.shorts:
                    continue
                hi = info(h, stack + (g.short,))
                if hi["stores_gray"]:
                    r["gray"].append(bi)
                if hi["always_unmarks"]:
                    r["points"].add(bi)
                if hi["white"]:
                    r["white"].append(bi)
                if hi["white_unlooped"]:
                    white.append(bi)
                break
            names = callee_names(t["func"])
            for c in closures_passed(g, t):
                vs = set(v for _b, v in direct_stores(c))
                if "Gray" in vs:
                    r["gray"].append(bi)
                if "White" in vs and any(n.endswith("Iterator::for_each") for n in names):
                    r["points"].add(bi)      # `<all objects>.for_each(|m| *m = White)`: the call is the unmark loop
                    r["white"].append(bi)
        back = cfg.back_edges()
        for w in white:
            r["white"].append(w)
            hs = [h_ for s_, h_ in back if cfg.dominates(h_, w) and w in cfg.can_reach([s_], avoid=[])]
            if hs:
                r["points"].add(max(hs, key=lambda h_: len(cfg.dom[h_])))    # innermost
            else:
                r["white_unlooped"] = True
        r["stores_gray"] = bool(r["gray"])
        r["always_unmarks"] = bool(r["points"]) and cfg.every_path_passes(0, cfg.return_blocks(), r["points"])
        return r

    top = info(gc)
    gray, headers = top["gray"], top["points"]
    cfg = gc.cfg
    if not gray or not top["white"]:
        raise AnchorMissing("Gray / White marker stores in gc (found %d / %d)" % (len(gray), len(top["white"])))
    key = "C02/U/gc/every-exit-passes-the-unmark-phase"
    if not headers:
        return [bad("C02.U", key, gc.loc(), "gc() stores White outside any loop: the survivors are not all unmarked")]
    rets = cfg.return_blocks()
    leak = [g for g in gray if not cfg.every_path_passes(g, rets, headers)]
    if leak:
        ln = None
        for st in gc.blocks[leak[0]]["stmts"]:
            ln = st.get("ln") or ln
        ln = ln or gc.blocks[leak[0]]["term"].get("ln")
        res.append(bad("C02.U", key, gc.loc(ln), "gc() can return after marking objects Gray without running the unmark loop (an early exit, e.g. "
                       "'nothing to collect'): the survivors stay Gray, the next collection takes them for already visited and does not look "
                       "at what was stored into them since - objects reachable only through such a container are freed while in use"))
    else:
        res.append(ok("C02.U", key, gc.loc(), "%d Gray stores, all of whose paths to the return pass the unmark loop" % len(gray)))
    return res


def rule_p(F):
    res = []
    gc = F.fn("vm::runtime::RuntimeData::gc")
    marker = F.adt(MARKER)
    prot = [v["discr"] for v in marker["variants"] if v["name"] == "Protected"]
    if not prot:
        raise AnchorMissing("GcMarker::Protected")
    prot = prot[0]
    col = collector(F)
    found = False
    n_switch = 0
    for g in col.fns:
        if not g.mir:
            continue
        for bi, b in enumerate(g.blocks):
            t = b["term"]
            if t["k"] != "switch":
                continue
            loc = op_local(t["discr"])
            is_marker = any(st["k"] == "assign" and st["place"]["l"] == loc and st["rv"]["k"] == "discr" and short(st["rv"]["adt"]) == MARKER
                            for st in b["stmts"])
            if not is_marker:
                continue
            n_switch += 1
            only = mu.blocks_only_when(g, bi, prot)
            for b2 in only:
                # the work list grows: Vec<..CaoLangObject..>::push or a collector function that pushes its argument
                if col.push_args(g.blocks[b2]["term"]):
                    found = True
    if not found:
        # `worklist.extend(<objects>.filter(|t| matches!(t.marker, Protected)))`: the work list is extended by exactly the
        # items whose marker test holds for Protected
        from cao.facts import pat_variants
        ALLV = set(v["name"] for v in marker["variants"])

        def pred_true_set(e, pid):
            """`matches!(<p>.marker | <p>, pats)` / its negation over closure parameter pid -> set of variants it accepts"""
            e = hu.strip_casts(e)
            if e is None:
                return None
            if e.get("k") == "un" and e["op"] == "Not":
                r = pred_true_set(e["e"], pid)
                return (ALLV - r) if r is not None else None
            if e.get("k") != "match":
                return None
            sc = hu.strip_all(e["scrut"])
            if sc is not None and sc.get("k") == "field" and sc["name"] == "marker":
                sc = hu.strip_all(sc["e"])
            if sc is None or sc.get("k") != "path" or sc["path"]["res"].get("id") != pid:
                return None
            true_set, seen = set(), set()
            for a in e["arms"]:
                b = hu.strip_casts(a["body"])
                val = b["lit"]["v"] if b is not None and b.get("k") == "lit" and b["lit"]["k"] == "bool" else None
                if val is None:
                    return None
                names = set(n.rsplit("::", 1)[-1] for n, _s, _p in pat_variants(a["pat"]) if "::" in n) or (ALLV - seen)
                names -= seen
                seen |= names
                if val:
                    true_set |= names
            return true_set
        for g in col.fns:
            if g.hir is None:
                continue
            for x in hir_walk(g.hir["body"]):
                if not (x.get("k") == "mcall" and x.get("name") == "extend" and x["args"]):
                    continue
                rty = (hir_strip(x["recv"]) or {}).get("ty", "") or ""
                if not ("Vec<" in rty and "CaoLangObject" in rty):
                    continue
                it = hir_strip(x["args"][0])
                while it is not None and it.get("k") == "mcall":
                    if it.get("name") == "filter" and it["args"] and any(n.endswith("Iterator::filter") for n in hir_callee(it)):
                        cl = hir_strip(it["args"][0])
                        if cl is not None and cl.get("k") == "closure" and len(cl.get("params", [])) == 1:
                            ids = [i for i, _n in pat_bindings(cl["params"][0])]
                            ts = pred_true_set(cl["body"], ids[0]) if len(ids) == 1 else None
                            if ts is not None and "Protected" in ts:
                                found = True
                                n_switch += 1
                        break
                    if it.get("name") in ("rev", "copied", "cloned", "by_ref", "into_iter"):
                        it = hir_strip(it["recv"])
                        continue
                    break
    if found:
        res.append(ok("C02.P", "C02/P/protected-objects-traced", gc.loc(), "gc pushes Protected objects on the gray worklist", marker_switches=n_switch))
    else:
        res.append(bad("C02.P", "C02/P/protected-objects-traced", gc.loc(),
                       "objects kept alive by an ObjectGcGuard (marker Protected) survive the sweep but are never traced: everything "
                       "only they refer to (entries already inserted into a guarded table) is freed under them", marker_switches=n_switch))
    # the guard protects on creation
    g = F.fn("vm::runtime::cao_lang_object::ObjectGcGuard::new")
    du = DefUse(g)
    sets = [st for b in g.blocks for st in b["stmts"] if st["k"] == "assign" and mu.field_path(st["place"])[-1:] == ["marker"]
            and st["rv"]["k"] == "use" and mu.operand_variant(g, du, st["rv"]["op"]) == "Protected"]
    if not sets:
        # `self.set_marker(GcMarker::Protected)`: a helper that stores one of its parameters into a marker, called with Protected
        def param_stored_into_marker(h):
            out = set()
            hdu = DefUse(h)
            nargs = len((h.raw.get("sig") or {}).get("inputs", []))
            for b in h.blocks:
                for st in b["stmts"]:
                    if st["k"] == "assign" and mu.field_path(st["place"])[-1:] == ["marker"] and st["rv"]["k"] == "use":
                        l = op_local(st["rv"]["op"])
                        for _ in range(6):
                            if l is None or 1 <= l <= nargs:
                                break
                            d = hdu.sole_def(l)
                            if d is None or d[2] != "assign" or d[3]["rv"]["k"] != "use":
                                l = None
                                break
                            l = op_local(d[3]["rv"]["op"])
                        if l is not None and 1 <= l <= nargs:
                            out.add(l)
            return out
        for _bi, t in mu.calls(g):
            for n in callee_names(t["func"]):
                h = F.fn(n, required=False)
                if h is None or not h.mir or h.is_closure or not h.short.startswith(("vm::runtime::", "<vm::runtime::")):
                    continue
                for p_ in param_stored_into_marker(h):
                    if p_ - 1 < len(t["args"]) and mu.operand_variant(g, du, t["args"][p_ - 1]) == "Protected":
                        sets.append(t)
    if sets:
        res.append(ok("C02.P", "C02/P/guard-new-protects", g.loc(), "ObjectGcGuard::new marks the object Protected"))
    else:
        res.append(bad("C02.P", "C02/P/guard-new-protects", g.loc(), "ObjectGcGuard::new no longer marks the object Protected"))
    # sweep frees only White
    return res


# ---------------------------------------------------------------------------------------------------
# C02.R rooting hazards
# ---------------------------------------------------------------------------------------------------

def vm_side(f):
    s_ = f.short
    root = f.root or s_
    return (root.startswith("vm::Vm::") or root.startswith("vm::instr_execution::") or root.startswith("stdlib::")
            or (root.startswith("<") and "traits::VmFunction" in root))


def native_params(f):
    """reference-capable parameters of host-callable functions (their arguments were popped by the wrappers)"""
    from cao.rooting import ref_capable
    if f.is_closure or f.kind != "Fn":
        return []
    sig = f.raw.get("sig") or {}
    ins = sig.get("inputs", [])
    if not ins or not ins[0].startswith("&mut vm::Vm<"):
        return []
    return [i + 1 for i, t in enumerate(ins) if i > 0 and ref_capable(t)]


def run_arm_of_block(F):
    """block index of Vm::_run -> Instruction arm name"""
    from rules.c10 import run_dispatch
    fn, sw, targets, header = run_dispatch(F)
    cfg = fn.cfg
    # the dispatch may sit in a loop (arms end at the loop header) or in a function of its own that the driver loop calls
    # (no header: arms end at the return)
    saved = cfg.succ[header] if header is not None else None
    if header is not None:
        cfg.succ[header] = []
    out = {}
    try:
        for v, tb in targets.items():
            for b in cfg.reachable_from(tb):
                out.setdefault(b, v)
    finally:
        if header is not None:
            cfg.succ[header] = saved
    return fn, out


def emitter_copylast_before_register(F):
    """C02.X: every RegisterUpvalue emission is immediately preceded by a CopyLast emission in the same block."""
    from rules.c10 import emitter_tables
    emissions, _o, _s = emitter_tables(F)
    seq = [(v, em) for v, em in emissions]
    sites = []
    for n, (v, em) in enumerate(seq):
        if v == "RegisterUpvalue":
            prev = seq[n - 1] if n > 0 else (None, None)
            sites.append((em, prev[0] == "CopyLast" and prev[1].fn is em.fn and prev[1].ln <= em.ln and not prev[1].ops))
    return sites


def rule_x(F):
    res = []
    sites = emitter_copylast_before_register(F)
    if not sites:
        raise AnchorMissing("emission of RegisterUpvalue")
    for n, (em, good) in enumerate(sites):
        key = "C02/X/RegisterUpvalue-after-CopyLast/%d" % n
        if good:
            res.append(ok("C02.X", key, em.fn.loc(em.ln), "RegisterUpvalue is emitted right after CopyLast: the closure stays on the value stack"))
        else:
            res.append(bad("C02.X", key, em.fn.loc(em.ln), "RegisterUpvalue is emitted without a preceding CopyLast: register_upvalue pops the only reference to the closure before allocating the upvalue"))
    return res


LOSSY_ADAPTERS = ("filter_map", "filter", "take_while", "skip_while", "map_while", "take", "skip", "step_by")


def rule_v(F):
    """C02.V: the mark phase enumerates an object's children through complete views only. A traversal helper that drops
    elements (filter_map over a lookup, filter, take ..) can skip children that the object still hands out: the collector
    then frees objects that for-each / nth-row / keys() still return."""
    from cao.facts import hir_walk, hir_callee, pat_variants
    res = []
    col = collector(F)
    gc, arms = mark_match_hir(F)
    n = 0
    for a in arms:
        names = [nm.rsplit("::", 1)[-1] for nm, _s, _p in pat_variants(a["pat"]) if "::" in nm]
        calls = [y for y in hir_walk(a["body"]) if y.get("k") == "mcall"]
        trav = []
        for y in calls:
            for cn in hir_callee(y):
                g = F.fn(cn, required=False)
                if g is not None and g.hir is not None and cn.startswith(("vm::runtime::", "collections::")) and cn not in col.shorts:
                    # an adapter drops elements *the object still holds* when its predicate depends on a lookup by value
                    # (selecting the occupied slots of a slot array is a complete view of the entries)
                    lossy = [z["name"] for z in hir_walk(g.hir["body"]) if z.get("k") == "mcall" and z["name"] in LOSSY_ADAPTERS
                             and any(c.startswith("std::iter::Iterator::") for c in hir_callee(z))
                             and any(w.get("k") == "mcall" and w["name"] in ("get", "get_mut", "contains", "contains_key", "get_with_hint")
                                     for a_ in z["args"] for w in hir_walk(a_))]
                    trav.append((cn, lossy, y.get("ln")))
        if not trav:
            continue
        n += 1
        key = "C02/V/%s/children-enumerated-through-complete-views" % "+".join(names)
        bad_t = [(cn, l, ln) for cn, l, ln in trav if l]
        if bad_t:
            cn, l, ln = bad_t[0]
            res.append(bad("C02.V", key, gc.loc(ln),
                           "the %s arm of the mark loop walks the object through %s, which drops elements (%s): children it skips are swept "
                           "although the object still refers to them (a table row whose key was mutated after insertion, a NaN key)"
                           % ("/".join(names), short(cn), ", ".join(l))))
        else:
            res.append(ok("C02.V", key, gc.loc(trav[0][2]), "traversals used: %s" % ", ".join(sorted(set(short(cn).rsplit("::", 2)[-2] + "::" + short(cn).rsplit("::", 1)[-1] for cn, _l, _ln in trav)))))
    if n < 1:
        raise AnchorMissing("traversal calls in the mark loop")
    return res


def rule_k(F):
    """C02.K: the collector never overwrites the Protected marker. Every store into an object's marker performed by
    RuntimeData::gc or the private functions it reaches lies under a test of the same marker that excludes Protected
    (`if !matches!(m, Protected)`, `if matches!(m, White)`, an arm of `match m { Protected => {}, _ => .. }`, an item that
    passed `.filter(|m| !matches!(m, Protected))`); an unconditional store would turn a guarded object gray/black, the
    unmark phase then whitens it and the next collection frees it although its guard is alive.
    The marker may be named through the object (`t.marker`) or through a reference to it (`let m = &mut obj.marker; *m = ..`)."""
    from cao.facts import hir_walk, hir_strip, hir_local_id, pat_variants
    from cao import hirutil as hu
    res = []
    gc = F.fn("vm::runtime::RuntimeData::gc")
    col = collector(F)
    adt = F.adt("vm::runtime::cao_lang_object::GcMarker")
    ALL = set(v["name"] for v in adt["variants"])
    if "Protected" not in ALL:
        raise AnchorMissing("GcMarker::Protected")

    def is_marker_ty(ty):
        return (ty or "").replace("&mut ", "").replace("&", "").replace("*mut ", "").strip() == MARKER

    def base_of(e):
        e = hu.strip_all(e)
        while e is not None and e.get("k") == "field":
            e = hu.strip_all(e["e"])
        return hir_local_id(e) if e is not None else None

    def subject(f, e, depth=0):
        """which marker an expression denotes: ('obj', local holding the object) for `<obj>.marker`, ('ref', local) for a
        reference to a marker (a `let m = &mut <obj>.marker` is resolved to the object when the object is a local)"""
        e = hu.strip_all(e)
        if e is None:
            return None
        if e.get("k") == "field" and e["name"] == "marker":
            b = base_of(e["e"])
            return ("obj", b) if b is not None else ("anon", id(e))
        if e.get("k") == "path" and e["path"]["res"].get("k") == "local" and is_marker_ty(e.get("ty")):
            lid = e["path"]["res"]["id"]
            ins = hu.let_inits(f).get(lid, [])
            if len(ins) == 1 and depth < 4:
                i0 = hu.strip_all(ins[0])
                if i0 is not None and i0.get("k") == "field" and i0["name"] == "marker":
                    su = subject(f, i0, depth + 1)
                    if su is not None and su[0] == "obj":
                        return su
            return ("ref", lid)
        return None

    def marker_test(f, c):
        """-> (subject, set of marker variants for which the condition is true) or None"""
        c = hu.strip_casts(c)
        if c is None:
            return None
        if c.get("k") == "un" and c["op"] == "Not":
            r = marker_test(f, c["e"])
            return (r[0], ALL - r[1]) if r else None
        if c.get("k") == "match":
            su = subject(f, c["scrut"])
            if su is not None:
                true_set, seen = set(), set()
                for a in c["arms"]:
                    b = hu.strip_casts(a["body"])
                    val = b["lit"]["v"] if b is not None and b.get("k") == "lit" and b["lit"]["k"] == "bool" else None
                    if val is None:
                        return None
                    names = set(n.rsplit("::", 1)[-1] for n, _s, _p in pat_variants(a["pat"]) if "::" in n)
                    if not names:
                        names = ALL - seen   # wildcard
                    names -= seen
                    seen |= names
                    if val:
                        true_set |= names
                return (su, true_set)
        return None

    def arm_set(m, idx):
        """marker variants for which arm `idx` of `match <marker> { .. }` can be taken (earlier unguarded arms win)"""
        seen = set()
        for i, a in enumerate(m["arms"]):
            names = set(n.rsplit("::", 1)[-1] for n, _s, _p in pat_variants(a["pat"]) if "::" in n)
            if not names:
                if not any(n == "_" for n, _s, _p in pat_variants(a["pat"])):
                    return set(ALL)     # a pattern this reader does not understand: no narrowing
                names = ALL - seen
            names = (names & ALL) - seen
            if i == idx:
                return names
            if not a.get("guard"):
                seen |= names
        return set(ALL)

    def constraints(f):
        """-> function(node, subject) = set of values the marker can have where `node` runs, from the enclosing
        `if <test of the marker>` branches, `match <marker> { .. }` arms and iterator filters of f"""
        root = f.hir["body"]
        anc = hu.control_ancestors(root)
        nodes = {id(x): x for x in hir_walk(root)}
        parents = {}
        for x in hir_walk(root):
            for c in hir_children(x):
                parents[id(c)] = x

        def filter_pred(it):
            """`<iter>.filter(|m| cond)` (item-preserving adaptors after it skipped) -> (closure param id, cond)"""
            it = hir_strip(it)
            while it is not None and it.get("k") in ("mcall", "call"):
                names = hir_callee(it)
                nm = it.get("name") or ""
                if it["k"] == "call" and any(n.endswith("IntoIterator::into_iter") for n in names) and it["args"]:
                    it = hir_strip(it["args"][0])
                    continue
                if it["k"] == "mcall" and nm in ("rev", "into_iter", "by_ref") and any("iter" in n.lower() for n in names):
                    it = hir_strip(it["recv"])
                    continue
                if it["k"] == "mcall" and nm == "filter" and any(n.endswith("Iterator::filter") for n in names) and it["args"]:
                    cl = hir_strip(it["args"][0])
                    if cl is not None and cl.get("k") == "closure" and len(cl.get("params", [])) == 1:
                        ids = [i for i, _n in pat_bindings(cl["params"][0])]
                        if len(ids) == 1:
                            return ids[0], cl["body"]
                return None
            return None

        def item_constraint(lid, kind="ref"):
            """the local is an item of `<iter>.filter(pred)`: bound by the closure of `.for_each(..)` on it or by the
            pattern of a `for` loop over it -> (subject of pred's parameter, values that pass) or None"""
            for x in nodes.values():
                k = x.get("k")
                if k == "closure" and any(lid == i for p_ in x.get("params", []) for i, _n in pat_bindings(p_)):
                    par = parents.get(id(x))
                    while par is not None and par.get("k") in ("drop_temps", "use", "type", "block") and hir_strip(par) is x:
                        par = parents.get(id(par))
                    if par is not None and par.get("k") == "mcall" and par.get("name") == "for_each" and \
                            any(n.endswith("Iterator::for_each") for n in hir_callee(par)):
                        fp = filter_pred(par["recv"])
                        if fp:
                            t = marker_test(f, fp[1])
                            if t and t[0] == (kind, fp[0]):
                                return t[1]
                elif k == "match" and x.get("source") == "ForLoopDesugar":
                    sc = hir_strip(x["scrut"])
                    if sc is None or sc.get("k") != "call" or not any(n.endswith("IntoIterator::into_iter") for n in hir_callee(sc)):
                        continue
                    bound = False
                    for y in hir_walk(x["arms"][0]["body"]):
                        if y.get("k") == "match" and y.get("source") == "ForLoopDesugar":
                            for a in y["arms"]:
                                pp = a["pat"]
                                sub = pp["fields"][0]["pat"] if pp.get("k") == "struct" and pp.get("fields") else None
                                if sub is not None and sub.get("k") == "bind" and sub["id"] == lid:
                                    bound = True
                            break
                    if bound:
                        fp = filter_pred(sc)
                        if fp:
                            t = marker_test(f, fp[1])
                            if t and t[0] == (kind, fp[0]):
                                return t[1]
            return None

        def allowed_at(node, su):
            allowed = set(ALL)
            if su is None or su[0] == "anon":
                return allowed
            for kind, nid in anc.get(id(node), ()):
                c = nodes.get(nid)
                if c is None:
                    continue
                if c["k"] == "if" and kind in ("then", "else"):
                    t = marker_test(f, c["cond"])
                    if t is None or t[0] != su:
                        continue
                    allowed &= t[1] if kind == "then" else (ALL - t[1])
                elif c["k"] == "match" and kind.startswith("arm"):
                    if subject(f, c["scrut"]) == su:
                        allowed &= arm_set(c, int(kind[3:]))
            if su[0] in ("ref", "obj"):
                ic = item_constraint(su[1], su[0])
                if ic is not None:
                    allowed &= ic
            return allowed
        return allowed_at

    def marker_stores(f, depth=0, stack=()):
        """Every store into a marker that running f performs, in source order: the direct assignments and, for each call
        of a function of the collector that itself stores into a marker, one entry per call site (the helper stands for the
        statement it was extracted from). -> list of dict(ln, stored, param, allowed, via) with `param` the index of f's
        parameter that holds the object, if the marker is named through it."""
        cached = getattr(f, "_c02_marker_stores", None)
        if cached is not None:
            return cached
        allowed_at = constraints(f)
        params = {}
        for i, p_ in enumerate(f.hir.get("params", [])):
            if p_.get("k") == "bind":
                params[p_["id"]] = i
        out = []
        for x in hir_walk(f.hir["body"]):
            k = x.get("k")
            if k == "assign":
                l = hir_strip(x["l"])
                su = subject(f, l)
                if su is None or not (is_marker_ty(l.get("ty")) or (l.get("k") == "field" and l["name"] == "marker")):
                    continue
                r = hu.strip_all(x["r"])
                stored = short(r["path"]["res"].get("path", "")).rsplit("::", 1)[-1] if r.get("k") == "path" and r["path"]["res"].get("k") == "def" else "?"
                out.append({"ln": x.get("ln"), "stored": stored, "param": params.get(su[1]) if su[0] == "obj" else None,
                            "allowed": allowed_at(x, su), "via": None})
            elif k in ("call", "mcall") and depth < 8:
                for cn in hir_callee(x):
                    g = F.fn(cn, required=False)
                    if g is None or g.hir is None or g.is_closure or g is f or g.short in stack or g.short not in col.shorts:
                        continue
                    inner = marker_stores(g, depth + 1, stack + (f.short,))
                    if not inner:
                        continue
                    args = ([x["recv"]] if k == "mcall" else []) + list(x["args"])
                    for st in inner:
                        allowed = set(st["allowed"])
                        param = None
                        if st["param"] is not None and st["param"] < len(args):
                            base = base_of(args[st["param"]])
                            if base is not None:
                                allowed &= allowed_at(x, ("obj", base))
                                param = params.get(base)
                        out.append({"ln": x.get("ln"), "stored": st["stored"], "param": param, "allowed": allowed,
                                    "via": st["via"] or g.name})
                    break
        f._c02_marker_stores = out
        return out

    n = 0
    counts = {}
    for st in marker_stores(gc):
        stored, allowed = st["stored"], st["allowed"]
        c = counts.get(stored, 0)
        counts[stored] = c + 1
        key = "C02/K/gc/marker-store-%s%s" % (stored, "" if c == 0 else "#%d" % c)
        n += 1
        via = " (in %s)" % st["via"] if st["via"] else ""
        if "Protected" in allowed and stored != "Protected":
            res.append(bad("C02.K", key, gc.loc(st["ln"]),
                           "gc stores GcMarker::%s into an object's marker%s without first excluding Protected: an object held by an "
                           "ObjectGcGuard that is reached here loses its protection, the unmark phase whitens it and the next collection "
                           "frees it while the guard is alive" % (stored, via)))
        else:
            res.append(ok("C02.K", key, gc.loc(st["ln"]), "store of %s%s only when the marker is in %s" % (stored, via, sorted(allowed))))
    if n < 4:
        raise AnchorMissing("stores to marker in RuntimeData::gc (found %d)" % n)
    return res


def rule_r(F):
    from cao import rooting
    res = []
    maygc = rooting.MayGc(F)
    # functions that receive an ObjectGcGuard through a generic `impl Into<Value>` parameter release the guard themselves
    gi = rooting.guard_instantiations(F)
    fns = [f for f in F.fns if f.mir and (vm_side(f) or f.short in gi)]
    # function -> the source its unrooted result is named after. A function of the public API is a source of its own
    # (`run_function`); a private wrapper that returns (on some path) the unrooted result of X is transparent: its callers
    # see an unrooted result of X, so extracting "push the arguments, call X" into a helper does not rename the origin.
    returns_unrooted = {}
    for _ in range(8):
        an = rooting.Analysis(F, maygc, returns_unrooted)
        new = {}
        for f in fns:
            if f.is_closure:
                continue
            _h, ru, _s = an.run(f, param_sources=native_params(f))
            if ru:
                private = f.raw.get("vis", "Public") != "Public"
                new[f.short] = an.last_return_source if private else None
        if new == returns_unrooted:
            break
        returns_unrooted = new
    an = rooting.Analysis(F, maygc, returns_unrooted)
    # Are the arguments of host functions rooted while the function runs? They are iff the VmFunctionN wrappers do not
    # hand popped values to the function pointer. Only if they are not, the natives' parameters are unrooted sources.
    wrappers = [f for f in fns if not f.is_closure and f.short.startswith("<") and "traits::VmFunction" in f.short]
    wrappers_pop = False
    for wf in wrappers:
        hz, _ru, _s = an.run(wf)
        if any(h["callee"].startswith("<fn pointer") for h in hz):
            wrappers_pop = True
    if len(wrappers) < 4:
        raise AnchorMissing("VmFunction impls for fn pointers (found %d)" % len(wrappers))
    native_params_eff = native_params if wrappers_pop else (lambda f: [])
    run_fn, arm_of = run_arm_of_block(F)
    exempt_ok = all(g for _e, g in emitter_copylast_before_register(F))
    seeds_all = {}
    results = {}
    order = [f for f in fns if not f.is_closure] + sorted([f for f in fns if f.is_closure], key=lambda f: f.short.count("{closure"))
    closure_arm = {}
    n_sources = 0
    for f in order:
        caps = seeds_all.get(f.short) if f.is_closure else None
        if f.is_closure and not caps:
            continue
        hz, _ru, seeds = an.run(f, param_sources=native_params_eff(f), capture_sources=caps)
        for k, v in seeds.items():
            seeds_all.setdefault(k, {}).update(v)
        results[f.short] = hz
        if f.short == run_fn.short:
            # which arm constructs which closure
            for bi, b in enumerate(f.blocks):
                for st in b["stmts"]:
                    if st["k"] == "assign" and st["rv"]["k"] == "agg" and st["rv"]["agg"]["k"] == "closure":
                        closure_arm[short(st["rv"]["agg"]["path"])] = arm_of.get(bi)
    res.append(ok("C02.R", "C02/R/native-arguments-rooted" if not wrappers_pop else "C02/R/native-arguments-popped", wrappers[0].loc(),
                  "the VmFunctionN wrappers keep the arguments on the value stack while the host function runs: parameters of "
                  "natives are rooted" if not wrappers_pop else
                  "the VmFunctionN wrappers pop the arguments before calling the host function: parameters of natives are unrooted sources",
                  wrappers=len(wrappers)))
    # a private helper that exactly one function calls is part of that function: its hazards are reported under the caller
    # (the registered native / public entry point), so flattening a native into helpers does not move a finding
    callers = {}
    for g_ in fns:
        owner = g_.root or g_.short
        for _bi, t_ in mu.calls(g_):
            for n_ in callee_names(t_["func"]):
                if n_ != owner:
                    callers.setdefault(n_, set()).add(owner)

    def attributed(name):
        seen_ = set()
        while name not in seen_:
            seen_.add(name)
            h_ = F.fn(name, required=False)
            if h_ is None or h_.raw.get("vis", "Public") == "Public" or len(callers.get(name, ())) != 1:
                break
            name = next(iter(callers[name]))
        return name
    for f in order:
        hz = results.get(f.short)
        if hz is None:
            continue
        fname = attributed(f.root or f.short)
        own = (f.root or f.short)
        own_base = own.rsplit("::", 1)[-1] if not own.startswith("<") else "VmFunction::call" + _arity(own)
        base = fname.rsplit("::", 1)[-1] if not fname.startswith("<") else "VmFunction::call" + _arity(fname)
        if f.is_closure:
            base += "{closure}"
        # one finding per (function/arm, unrooted origin): the earliest hazardous call is the representative, the others
        # are listed with it (taint through containers is field-insensitive, so later sites may repeat the same cause)
        groups = {}
        for h in sorted(hz, key=lambda h: (h["ln"] or 0)):
            arm = None
            if f.short == run_fn.short:
                for bi, b in enumerate(f.blocks):
                    t = b["term"]
                    if t.get("ln") == h["ln"] and t["k"] == "call":
                        arm = arm_of.get(bi)
                        break
            elif f.is_closure and f.root == run_fn.short:
                arm = closure_arm.get(f.short)
            where = "%s[%s]" % (base, arm) if arm else base
            groups.setdefault((where, h["origin"]), []).append(h)
        for (where, origin), hs in groups.items():
            h = hs[0]
            import re as _re
            sites = "; ".join("%s %s (line %s)" % (_re.sub(r"\{closure#\d+\}", "{closure}", x["callee"]), x["kind"], x["ln"]) for x in hs)
            key = "C02/R/%s/%s" % (where, origin)
            msg = ("%s value `%s` (line %s) is not reachable from any GC root while a call that may collect runs: %s — if the "
                   "object has no other reference it is freed while still in use" % (h["origin_kind"], origin, h["origin_ln"], sites))
            if f.short in gi and "[guard moved in by" in origin:
                # decided per caller by the capacity argument (cao/capacity.py)
                from cao import capacity
                by_caller = {}
                for _param, sites_ in gi[f.short].items():
                    for caller, ln in sites_:
                        by_caller.setdefault(caller, []).append(ln)
                for caller, lines in sorted(by_caller.items()):
                    cf = F.fn(caller)
                    good, why = capacity.decide_caller(F, maygc, cf, lines)
                    ckey = "C02/R/%s/guard-released-into-%s" % (caller.rsplit("::", 1)[-1], f.name)
                    if good:
                        res.append(ok("C02.R", ckey, cf.loc(lines[0]),
                                      "%s hands a guard to %s, which converts it to an unrooted Value before inserting; safe because the "
                                      "insertion cannot allocate: %s" % (cf.name, f.name, why)))
                    else:
                        res.append(bad("C02.R", ckey, cf.loc(lines[0]),
                                       "%s moves an ObjectGcGuard into %s (line %s): the guard is converted to a plain Value, then the hash "
                                       "part is extended while the object is referenced by nothing the collector sees (the key list is "
                                       "updated after the insertion) - %s" % (cf.name, f.name, lines, why)))
            elif f.short == "vm::instr_execution::register_upvalue" and origin == "closure" and exempt_ok:
                res.append(ok("C02.R", key, f.loc(h["ln"]), "exempt: every RegisterUpvalue emission is preceded by CopyLast (C02.X), the closure is still on the stack", exempt=True))
            else:
                res.append(bad("C02.R", key, f.loc(h["ln"]), msg))
        if not hz:
            res.append(ok("C02.R", "C02/R/%s/no-hazard" % (own_base if not f.is_closure else f.short.rsplit("::", 2)[-2] + "::" + f.short.rsplit("::", 1)[-1]),
                          f.loc(), "no unrooted value is passed into or live across a call that may collect"))
    return res


def _arity(path):
    # <fn(&mut vm::Vm<Aux>, T1, T2) -> ... as traits::VmFunction<Aux>>::call
    head = path.split(" as ")[0]
    n = head.count(", T")
    return str(n) if n else ""


RULES = [
    Rule("C02.V", rule_v, 1, "the mark phase enumerates children through complete views"),
    Rule("C02.B", rule_b, 1, "no scan of gc() stops early except a nested search for one root"),
    Rule("C02.U", rule_u, 1, "every exit of gc() after marking passes the unmark phase"),
    Rule("C02.K", rule_k, 9, "the collector never overwrites the Protected marker"),
    Rule("C02.Roots", rule_roots, 7, "gc's root set covers every reference-bearing field of RuntimeData/CallFrame"),
    Rule("C02.M", rule_m, 10, "the mark loop follows every reference-bearing field of every object kind, and every storage component of its sub-containers"),
    Rule("C02.P", rule_p, 2, "Protected objects are traced"),
    Rule("C02.R", rule_r, 20, "no unrooted value is passed into or live across a may-collect call"),
    Rule("C02.X", rule_x, 1, "emitter-side justification of the register_upvalue exemption"),
]
