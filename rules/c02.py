"""C02 — Garbage collection never invalidates a value the program can still use.

  C02.Roots  every field of RuntimeData (and of CallFrame, reachable through call_stack) whose type can hold an object
             reference is enumerated by RuntimeData::gc.
  C02.M      for every CaoLangObjectBody variant, every reference-bearing field of the payload is read by the
             variant's arm of the mark loop (or is covered by a stated derivation).
  C02.P      objects marked Protected (alive through an ObjectGcGuard) are traced, not merely kept.
  C02.R      rooting hazards: no value that left the root set (popped operand, native parameter, result of
             insert_value) is passed into, or live across, a call that may allocate (and therefore collect).
  C02.X      the emitter-side fact that justifies the single exemption of C02.R (RegisterUpvalue is preceded by CopyLast).
"""
from collections import defaultdict
from cao.facts import (AnchorMissing, callee_names, short, op_local, op_place, DefUse, hir_walk, hir_callee, rvalue_places,
                       hir_children, pat_bindings)
from cao.rules import Rule, ok, bad, undecided, note
from cao import mirutil as mu
from cao import hirutil as hu

EXPLANATION = (
    "The property quantifies over GC schedules, but the collector runs inside CaoLangAllocator::alloc, its root set is "
    "fixed in RuntimeData::gc, and an object is lost exactly when a pointer to it is held where the marker does not look "
    "while an allocation happens. C02.Roots/M are type-driven completeness checks: from rustc's type facts every field "
    "that can (transitively) hold a Value / object pointer is computed, and gc's MIR must read each root field and each "
    "payload field in the corresponding arm. C02.P requires a path in gc that pushes Protected objects on the gray "
    "worklist. C02.R is a forward dataflow over the MIR of every VM-side function: values returned by the pop family, "
    "native parameters and insert_value results are 'unrooted'; taint follows copies, borrows, field projections and "
    "calls whose result type can hold a reference; pushing a value back on the value stack re-roots its origin; a hazard "
    "is a call in the may-collect set (call-graph closure of the allocator) that receives a tainted operand or is "
    "followed by a use of one. Each hazard is a violation for some program and schedule (a temporary has no other "
    "reference). Not decided: the differential claim observe(run(P,S)) = observe(run(P,no-GC)) as such."
)
ASSUMPTIONS = [
    "a value popped from the value stack may be the only reference to its object (true for temporaries such as call results and inline closures)",
    "std collections (Vec, Rc) use the global allocator and never trigger a collection; only calls reaching CaoLangAllocator::alloc do",
    "an unknown callee that receives `&mut Vm` (fn pointer, dyn VmFunction) may allocate",
]

REF_MARKERS = ("value::Value", "CaoLangObject", "CaoLangClosure", "CaoLangTable", "CaoLangUpvalue", "CaoLangString")


def bearing(F, ty, seen):
    """Can a value of this type (transitively) hold a reference to a GC object? The allocator handle's
    back-pointer to the owning RuntimeData is not a reference to an object."""
    seen = set(seen) | {"vm::runtime::RuntimeData"}
    if any(m in ty for m in REF_MARKERS):
        return True
    for path, adt in F.adts.items():
        if path in seen:
            continue
        if path in ty or adt["path"] in ty:
            seen2 = seen | {path}
            for v in adt["variants"]:
                for f in v["fields"]:
                    if bearing(F, f["ty"], seen2):
                        return True
    return False


def self_fields_read(F, fn, with_closures=True):
    """Field paths (tuples of names) of `*self` read or borrowed anywhere in fn (+ its closures via captured self).
    Locals that alias self (copies, reborrows, the closure's captured `self`) are followed."""
    out = set()
    fns = [fn] + (F.closures_of.get(fn.short, []) if with_closures else [])
    for g in fns:
        if not g.mir:
            continue
        alias = set()
        if g is fn:
            alias.add(1)
        changed = True
        while changed:
            changed = False
            for b in g.blocks:
                for st in b["stmts"]:
                    if st["k"] != "assign" or st["place"]["p"]:
                        continue
                    dst = st["place"]["l"]
                    if dst in alias:
                        continue
                    rv = st["rv"]
                    src = None
                    if rv["k"] in ("use", "cast"):
                        src = op_place(rv["op"])
                    elif rv["k"] in ("ref", "rawptr"):
                        src = rv["place"]
                    if src is None:
                        continue
                    names = [e["name"] for e in src["p"] if e["k"] == "field"]
                    if src["l"] in alias and not names:
                        alias.add(dst)
                        changed = True
                    elif g is not fn and src["l"] == 1 and names == ["self"]:
                        alias.add(dst)
                        changed = True
        for b in g.blocks:
            places = []
            for st in b["stmts"]:
                if st["k"] == "assign":
                    places.extend(rvalue_places(st["rv"]))
                    places.append(st["place"])
            t = b["term"]
            if t["k"] == "call":
                for a in t["args"]:
                    p = op_place(a)
                    if p is not None:
                        places.append(p)
            for p in places:
                names = [e["name"] for e in p["p"] if e["k"] == "field"]
                if g is not fn and p["l"] == 1 and names[:1] == ["self"]:
                    names = names[1:]
                    if names:
                        out.add(tuple(names))
                elif p["l"] in alias and names:
                    out.add(tuple(names))
    return out


ROOT_EXEMPT = {
    "object_list": "the heap itself (the sweep set); membership does not make an object reachable",
}


def field_feeds_worklist(F, gc, field):
    """Does what gc reads from `self.<field>` reach the gray worklist? Either by data flow into an argument of the
    worklist push, or by control: the push is dominated by a branch decided by a value derived from the field."""
    tainted = set()
    blocks = gc.blocks
    changed = True
    def place_tainted(p):
        if p["l"] in tainted:
            return True
        if p["l"] == 1:
            names = [e["name"] for e in p["p"] if e["k"] == "field"]
            return bool(names) and names[0] == field
        return False
    while changed:
        changed = False
        for b in blocks:
            for st in b["stmts"]:
                if st["k"] != "assign":
                    continue
                if any(place_tainted(p) for p in rvalue_places(st["rv"])):
                    if st["place"]["l"] not in tainted:
                        tainted.add(st["place"]["l"])
                        changed = True
            t = b["term"]
            if t["k"] == "call":
                srcs = [op_place(a) for a in t["args"]]
                if any(p is not None and place_tainted(p) for p in srcs):
                    if t["dest"]["l"] not in tainted:
                        tainted.add(t["dest"]["l"])
                        changed = True
                    # &mut iterators handed to next(): the iterator local itself stays tainted
    cfg = gc.cfg
    pushes = []
    for bi, t in mu.calls(gc):
        if any(n.startswith("std::vec::Vec::") and n.endswith("::push") for n in callee_names(t["func"])) and "CaoLangObject" in "".join(t.get("arg_tys", [])):
            pushes.append((bi, t))
    for bi, t in pushes:
        for a in t["args"][1:]:
            p = op_place(a)
            if p is not None and place_tainted(p):
                return True
    # control: a switch on a tainted value whose (non-join) successor dominates a push
    for sb, b in enumerate(blocks):
        t = b["term"]
        if t["k"] != "switch":
            continue
        p = op_place(t["discr"])
        if p is None or not place_tainted(p):
            continue
        succs = [tb for _v, tb in t["targets"]] + [t["otherwise"]]
        for s_ in set(succs):
            for bi, _t in pushes:
                if cfg.dominates(s_, bi) and not all(cfg.dominates(x, bi) or x == s_ for x in set(succs)):
                    return True
    return False


def rule_roots(F):
    res = []
    rd = F.adt("vm::runtime::RuntimeData")
    gc = F.fn("vm::runtime::RuntimeData::gc")
    read = self_fields_read(F, gc)
    read_first = set(r[0] for r in read if field_feeds_worklist(F, gc, r[0]))
    all_fields_anywhere = set()
    for g in [gc] + F.closures_of.get(gc.short, []):
        for b in g.blocks:
            for st in b["stmts"]:
                if st["k"] == "assign":
                    for p in rvalue_places(st["rv"]) + [st["place"]]:
                        for e in p["p"]:
                            if e["k"] == "field":
                                all_fields_anywhere.add((e.get("owner", ""), e["name"]))
    for f in rd["variants"][0]["fields"]:
        name, ty = f["name"], f["ty"]
        b = bearing(F, ty, {"vm::runtime::RuntimeData"})
        key = "C02/Roots/RuntimeData.%s" % name
        if not b:
            res.append(ok("C02.Roots", key, gc.loc(), "type %s cannot hold an object reference" % ty, bearing=False))
            continue
        if name in ROOT_EXEMPT:
            res.append(ok("C02.Roots", key, gc.loc(), "exempt: " + ROOT_EXEMPT[name], bearing=True, exempt=True))
            continue
        if name in read_first:
            res.append(ok("C02.Roots", key, gc.loc(), "enumerated by gc (type %s)" % ty, bearing=True))
        else:
            res.append(bad("C02.Roots", key, gc.loc(),
                           "RuntimeData.%s : %s can hold object references but RuntimeData::gc never looks at it: an object "
                           "reachable only from there is swept while still in use" % (name, ty)))
    # CallFrame fields
    cf = F.adt("vm::runtime::CallFrame")
    for f in cf["variants"][0]["fields"]:
        if bearing(F, f["ty"], {"vm::runtime::RuntimeData", "vm::runtime::CallFrame"}):
            key = "C02/Roots/CallFrame.%s" % f["name"]
            seen = any(nm == f["name"] and "CallFrame" in owner for owner, nm in all_fields_anywhere) and "call_stack" in read_first
            if seen:
                res.append(ok("C02.Roots", key, gc.loc(), "read by gc"))
            else:
                res.append(bad("C02.Roots", key, gc.loc(),
                               "CallFrame.%s : %s refers to a heap object (the executing closure) but is not a root: a closure "
                               "called as a temporary is swept while its body runs" % (f["name"], f["ty"])))
    return res


# ---------------------------------------------------------------------------------------------------

BODY = "vm::runtime::cao_lang_object::CaoLangObjectBody"

DERIVED = {
    # field -> (reason, checker)
    ("Upvalue", "value"): "reached through `location` once the upvalue is closed (_close_upvalues sets location = &mut value)",
}


def check_value_derivation(F):
    """_close_upvalues stores &mut upvalue.value into upvalue.location"""
    f = mu.upvalue_closer(F)
    for bi, si, st in ((bi, si, st) for bi, b in enumerate(f.blocks) for si, st in enumerate(b["stmts"]) if st["k"] == "assign"):
        fp = mu.field_path(st["place"])
        if fp[-1:] == ["location"]:
            return True
    return False


def rule_m(F):
    res = []
    gc = F.fn("vm::runtime::RuntimeData::gc")
    body = F.adt(BODY)
    # the mark loop's switch on the discriminant of CaoLangObjectBody
    sw = None
    for bi, b in enumerate(gc.blocks):
        t = b["term"]
        if t["k"] != "switch":
            continue
        loc = op_local(t["discr"])
        for st in b["stmts"]:
            if st["k"] == "assign" and st["place"]["l"] == loc and st["rv"]["k"] == "discr" and short(st["rv"]["adt"]) == BODY:
                sw = (bi, t)
    if sw is None:
        raise AnchorMissing("match on CaoLangObjectBody in RuntimeData::gc")
    bi, t = sw
    by_discr = {v["discr"]: v["name"] for v in body["variants"]}
    targets = {by_discr[val]: tb for val, tb in t["targets"] if val in by_discr}
    missing = [v["name"] for v in body["variants"] if v["name"] not in targets]
    if len(missing) == 1 and gc.blocks[t["otherwise"]]["term"]["k"] != "unreachable":
        targets[missing[0]] = t["otherwise"]
    cfg = gc.cfg
    headers = [h for (_a, h) in cfg.back_edges() if cfg.dominates(h, bi)]
    header = max(headers, key=lambda h: len(cfg.dom[h])) if headers else None
    for v in body["variants"]:
        vname = v["name"]
        payload_ty = v["fields"][0]["ty"] if v["fields"] else ""
        padt = F.adts.get(short(payload_ty))
        if vname not in targets:
            res.append(bad("C02.M", "C02/M/%s/arm" % vname, gc.loc(), "the mark loop has no arm for %s" % vname))
            continue
        if padt is None:
            res.append(undecided("C02.M", "C02/M/%s" % vname, gc.loc(), "payload type %s unknown" % payload_ty))
            continue
        # region of the arm
        saved = cfg.succ[header] if header is not None else None
        if header is not None:
            cfg.succ[header] = []
        try:
            region = cfg.reachable_from(targets[vname])
        finally:
            if header is not None:
                cfg.succ[header] = saved
        # other arms' entry blocks are not part of this arm
        read = set()
        for b2 in region:
            blk = gc.blocks[b2]
            places = []
            for st in blk["stmts"]:
                if st["k"] == "assign":
                    places.extend(rvalue_places(st["rv"]))
            tt = blk["term"]
            if tt["k"] == "call":
                # a method call on the payload reads what the callee reads of self
                names = callee_names(tt["func"])
                for n in names:
                    callee = F.fn(n, required=False)
                    if callee is not None and callee.mir and callee.raw.get("impl_self") and short(callee.raw["impl_self"]) == short(payload_ty):
                        for r in self_fields_read(F, callee):
                            read.add(r[0])
                for a in tt["args"]:
                    p = op_place(a)
                    if p is not None:
                        places.append(p)
            for p in places:
                for e in p["p"]:
                    if e["k"] == "field" and short(e.get("owner", "")) == short(payload_ty):
                        read.add(e["name"])
        for f in padt["variants"][0]["fields"]:
            if not bearing(F, f["ty"], set()):
                continue
            key = "C02/M/%s.%s" % (vname, f["name"])
            if f["name"] in read:
                res.append(ok("C02.M", key, gc.loc(), "%s.%s : %s is traced" % (vname, f["name"], f["ty"])))
            elif (vname, f["name"]) in DERIVED and check_value_derivation(F):
                res.append(ok("C02.M", key, gc.loc(), "derived: " + DERIVED[(vname, f["name"])]))
            else:
                # a link field that the root enumeration walks counts as covered
                walked = any(f["name"] == r[-1] for r in self_fields_read(F, gc)) or any(
                    e.get("name") == f["name"] and short(e.get("owner", "")) == short(payload_ty)
                    for g2 in [gc] + F.closures_of.get(gc.short, [])
                    for b3 in g2.blocks for st in b3["stmts"] if st["k"] == "assign"
                    for p in rvalue_places(st["rv"]) for e in p["p"] if e["k"] == "field")
                if walked:
                    res.append(ok("C02.M", key, gc.loc(), "%s.%s is followed by gc outside the arm (root list walk)" % (vname, f["name"])))
                else:
                    res.append(bad("C02.M", key, gc.loc(),
                                   "%s.%s : %s can hold an object reference but the mark phase never follows it" % (vname, f["name"], f["ty"])))
        if not any(bearing(F, f["ty"], set()) for f in padt["variants"][0]["fields"]):
            res.append(ok("C02.M", "C02/M/%s" % vname, gc.loc(), "%s has no reference-bearing field" % vname))
    return res


# ---------------------------------------------------------------------------------------------------

MARKER = "vm::runtime::cao_lang_object::GcMarker"


def rule_b(F):
    """C02.B: the collector's scans run to completion. A user-written `break` / `return` inside a loop of gc() is accepted
    only as the end of a search for *one* root: the loop it leaves is nested in another loop and the condition that leads
    to the exit mentions that outer loop's item (frame -> its closure object). A scan over a whole set of roots or
    candidates that stops at the first hit leaves the remaining ones unmarked; the sweep then frees objects still in use."""
    res = []
    gc = F.fn("vm::runtime::RuntimeData::gc")
    inits = hu.let_inits(gc)
    parents = {}
    for x in hir_walk(gc.hir["body"]):
        for c in hir_children(x):
            parents[id(c)] = x
    exits = [x for x in hir_walk(gc.hir["body"]) if x.get("k") in ("break", "ret") and not x.get("exp")]
    loops_total = sum(1 for x in hir_walk(gc.hir["body"]) if x.get("k") == "loop")
    if loops_total < 8:
        raise AnchorMissing("loops of RuntimeData::gc (found %d)" % loops_total)

    def refs(e, depth=0, seen=None):
        seen = seen if seen is not None else set()
        out = set()
        for y in hir_walk(e):
            if y.get("k") == "path" and y["path"]["res"].get("k") == "local":
                lid = y["path"]["res"]["id"]
                out.add(lid)
                if lid not in seen and depth < 6:
                    seen.add(lid)
                    for i in inits.get(lid, []):
                        out |= refs(i, depth + 1, seen)
        return out

    def loop_bindings(lp):
        out = set()
        for y in hir_walk(lp):
            if y.get("k") == "match" and y.get("source") in ("ForLoopDesugar", "WhileLetDesugar") or y.get("k") == "match" and y.get("exp"):
                for a in y["arms"]:
                    out |= set(i for i, _ in pat_bindings(a["pat"]))
                break
        for st in lp["body"]["stmts"]:
            if st["k"] == "let":
                out |= set(i for i, _ in pat_bindings(st["pat"]))
        return out

    n = 0
    for ex in exits:
        chain = []
        p = parents.get(id(ex))
        while p is not None:
            chain.append(p)
            p = parents.get(id(p))
        loops = [c for c in chain if c.get("k") == "loop"]
        if not loops:
            continue   # an exit outside any loop (none today)
        n += 1
        inner = loops[0]
        conds = []
        for c in chain:
            if c is inner:
                break
            if c.get("k") == "if":
                conds.append(c["cond"])
            if c.get("k") == "match":
                conds.append(c.get("e") or c.get("scrut"))
        used = set()
        for c in conds:
            if c is not None:
                used |= refs(c)
        outer = loops[1:]
        key = "C02/B/gc/%s#%d-ends-a-search-for-one-root" % (ex["k"], n)
        if ex["k"] == "ret":
            res.append(bad("C02.B", key, gc.loc(ex.get("ln")), "gc() returns from inside a marking/sweeping loop: the rest of the roots are never marked"))
        elif any(used & loop_bindings(o) for o in outer):
            res.append(ok("C02.B", key, gc.loc(ex.get("ln")), "leaves the inner search once the outer loop's item is found; the outer loop goes on"))
        else:
            res.append(bad("C02.B", key, gc.loc(ex.get("ln")),
                           "gc() leaves a scan with `break` after the first hit, and the scan is not a per-item search nested in a loop over "
                           "the roots (the exit condition does not mention an enclosing loop's item): every root after the first match stays "
                           "unmarked - e.g. only the first call frame's closure is kept, the closures of the other active frames are freed "
                           "by the sweep while they are still executing"))
    if n == 0:
        res.append(ok("C02.B", "C02/B/gc/no-early-exit", gc.loc(), "no user-written break/return inside any of the %d loops of gc()" % loops_total))
    return res


def rule_u(F):
    """C02.U: every collection ends with the unmark phase. The mark phase only descends into White children, so an object
    left Gray by one collection is taken for 'already visited' by the next one and whatever was stored into it in between
    is never marked. Decided on the MIR of gc(): every path from a store of Gray into a marker to the return passes through
    the loop that stores White (its header, so that an empty object list still counts)."""
    res = []
    gc = F.fn("vm::runtime::RuntimeData::gc")
    cfg = gc.cfg
    du = DefUse(gc)

    def stored_variant(st):
        rv = st["rv"]
        if rv["k"] == "agg":
            return rv["agg"].get("variant")
        if rv["k"] == "use":
            v = mu.operand_variant(gc, du, rv["op"])
            return v.rsplit("::", 1)[-1] if isinstance(v, str) else None
        return None
    gray, white = [], []
    for bi, b in enumerate(gc.blocks):
        if bi not in cfg.reach:
            continue
        for st in b["stmts"]:
            if st["k"] == "assign" and mu.field_path(st["place"])[-1:] == ["marker"]:
                v = stored_variant(st)
                if v == "Gray":
                    gray.append(bi)
                elif v == "White":
                    white.append(bi)
    if not gray or not white:
        raise AnchorMissing("Gray / White marker stores in gc (found %d / %d)" % (len(gray), len(white)))
    back = cfg.back_edges()
    headers = set()
    for w in white:
        hs = [h for s_, h in back if cfg.dominates(h, w) and w in cfg.can_reach([s_], avoid=[])]
        if hs:
            headers.add(max(hs, key=lambda h: len(cfg.dom[h])))    # innermost
    key = "C02/U/gc/every-exit-passes-the-unmark-phase"
    if not headers:
        return [bad("C02.U", key, gc.loc(), "gc() stores White outside any loop: the survivors are not all unmarked")]
    rets = cfg.return_blocks()
    leak = [g for g in gray if not cfg.every_path_passes(g, rets, headers)]
    if leak:
        ln = None
        for st in gc.blocks[leak[0]]["stmts"]:
            ln = st.get("ln") or ln
        res.append(bad("C02.U", key, gc.loc(ln), "gc() can return after marking objects Gray without running the unmark loop (an early exit, e.g. "
                       "'nothing to collect'): the survivors stay Gray, the next collection takes them for already visited and does not look "
                       "at what was stored into them since - objects reachable only through such a container are freed while in use"))
    else:
        res.append(ok("C02.U", key, gc.loc(), "%d Gray stores, all of whose paths to the return pass the unmark loop" % len(gray)))
    return res


def rule_p(F):
    res = []
    gc = F.fn("vm::runtime::RuntimeData::gc")
    marker = F.adt(MARKER)
    prot = [v["discr"] for v in marker["variants"] if v["name"] == "Protected"]
    if not prot:
        raise AnchorMissing("GcMarker::Protected")
    prot = prot[0]
    cfg = gc.cfg
    found = False
    n_switch = 0
    for bi, b in enumerate(gc.blocks):
        t = b["term"]
        if t["k"] != "switch":
            continue
        loc = op_local(t["discr"])
        is_marker = any(st["k"] == "assign" and st["place"]["l"] == loc and st["rv"]["k"] == "discr" and short(st["rv"]["adt"]) == MARKER
                        for st in b["stmts"])
        if not is_marker:
            continue
        n_switch += 1
        only = mu.blocks_only_when(gc, bi, prot)
        for b2 in only:
            tt = gc.blocks[b2]["term"]
            if tt["k"] == "call" and any(n.startswith("std::vec::Vec::") and n.endswith("::push") for n in callee_names(tt["func"])):
                if "CaoLangObject" in "".join(tt.get("arg_tys", [])):
                    found = True
    if found:
        res.append(ok("C02.P", "C02/P/protected-objects-traced", gc.loc(), "gc pushes Protected objects on the gray worklist", marker_switches=n_switch))
    else:
        res.append(bad("C02.P", "C02/P/protected-objects-traced", gc.loc(),
                       "objects kept alive by an ObjectGcGuard (marker Protected) survive the sweep but are never traced: everything "
                       "only they refer to (entries already inserted into a guarded table) is freed under them", marker_switches=n_switch))
    # the guard protects on creation
    g = F.fn("vm::runtime::cao_lang_object::ObjectGcGuard::new")
    du = DefUse(g)
    sets = [st for b in g.blocks for st in b["stmts"] if st["k"] == "assign" and mu.field_path(st["place"])[-1:] == ["marker"]
            and st["rv"]["k"] == "use" and mu.operand_variant(g, du, st["rv"]["op"]) == "Protected"]
    if sets:
        res.append(ok("C02.P", "C02/P/guard-new-protects", g.loc(), "ObjectGcGuard::new marks the object Protected"))
    else:
        res.append(bad("C02.P", "C02/P/guard-new-protects", g.loc(), "ObjectGcGuard::new no longer marks the object Protected"))
    # sweep frees only White
    return res


# ---------------------------------------------------------------------------------------------------
# C02.R rooting hazards
# ---------------------------------------------------------------------------------------------------

def vm_side(f):
    s_ = f.short
    root = f.root or s_
    return (root.startswith("vm::Vm::") or root.startswith("vm::instr_execution::") or root.startswith("stdlib::")
            or (root.startswith("<") and "traits::VmFunction" in root))


def native_params(f):
    """reference-capable parameters of host-callable functions (their arguments were popped by the wrappers)"""
    from cao.rooting import ref_capable
    if f.is_closure or f.kind != "Fn":
        return []
    sig = f.raw.get("sig") or {}
    ins = sig.get("inputs", [])
    if not ins or not ins[0].startswith("&mut vm::Vm<"):
        return []
    return [i + 1 for i, t in enumerate(ins) if i > 0 and ref_capable(t)]


def run_arm_of_block(F):
    """block index of Vm::_run -> Instruction arm name"""
    from rules.c10 import run_dispatch
    fn, sw, targets, header = run_dispatch(F)
    cfg = fn.cfg
    saved = cfg.succ[header]
    cfg.succ[header] = []
    out = {}
    try:
        for v, tb in targets.items():
            for b in cfg.reachable_from(tb):
                out.setdefault(b, v)
    finally:
        cfg.succ[header] = saved
    return fn, out


def emitter_copylast_before_register(F):
    """C02.X: every RegisterUpvalue emission is immediately preceded by a CopyLast emission in the same block."""
    from rules.c10 import emitter_tables
    emissions, _o, _s = emitter_tables(F)
    seq = [(v, em) for v, em in emissions]
    sites = []
    for n, (v, em) in enumerate(seq):
        if v == "RegisterUpvalue":
            prev = seq[n - 1] if n > 0 else (None, None)
            sites.append((em, prev[0] == "CopyLast" and prev[1].fn is em.fn and prev[1].ln <= em.ln and not prev[1].ops))
    return sites


def rule_x(F):
    res = []
    sites = emitter_copylast_before_register(F)
    if not sites:
        raise AnchorMissing("emission of RegisterUpvalue")
    for n, (em, good) in enumerate(sites):
        key = "C02/X/RegisterUpvalue-after-CopyLast/%d" % n
        if good:
            res.append(ok("C02.X", key, em.fn.loc(em.ln), "RegisterUpvalue is emitted right after CopyLast: the closure stays on the value stack"))
        else:
            res.append(bad("C02.X", key, em.fn.loc(em.ln), "RegisterUpvalue is emitted without a preceding CopyLast: register_upvalue pops the only reference to the closure before allocating the upvalue"))
    return res


LOSSY_ADAPTERS = ("filter_map", "filter", "take_while", "skip_while", "map_while", "take", "skip", "step_by")


def rule_v(F):
    """C02.V: the mark phase enumerates an object's children through complete views only. A traversal helper that drops
    elements (filter_map over a lookup, filter, take ..) can skip children that the object still hands out: the collector
    then frees objects that for-each / nth-row / keys() still return."""
    from cao.facts import hir_walk, hir_callee, pat_variants
    res = []
    gc = F.fn("vm::runtime::RuntimeData::gc")
    arms = None
    for x in hir_walk(gc.hir["body"]):
        if x.get("k") == "match" and len(x["arms"]) >= 4 and any("CaoLangObjectBody" in n for a in x["arms"] for n, _s, _p in pat_variants(a["pat"])):
            arms = x["arms"]
    if arms is None:
        raise AnchorMissing("match on CaoLangObjectBody in the mark loop of gc")
    n = 0
    for a in arms:
        names = [nm.rsplit("::", 1)[-1] for nm, _s, _p in pat_variants(a["pat"]) if "::" in nm]
        calls = [y for y in hir_walk(a["body"]) if y.get("k") == "mcall"]
        trav = []
        for y in calls:
            for cn in hir_callee(y):
                g = F.fn(cn, required=False)
                if g is not None and g.hir is not None and cn.startswith(("vm::runtime::", "collections::")):
                    # an adapter drops elements *the object still holds* when its predicate depends on a lookup by value
                    # (selecting the occupied slots of a slot array is a complete view of the entries)
                    lossy = [z["name"] for z in hir_walk(g.hir["body"]) if z.get("k") == "mcall" and z["name"] in LOSSY_ADAPTERS
                             and any(c.startswith("std::iter::Iterator::") for c in hir_callee(z))
                             and any(w.get("k") == "mcall" and w["name"] in ("get", "get_mut", "contains", "contains_key", "get_with_hint")
                                     for a_ in z["args"] for w in hir_walk(a_))]
                    trav.append((cn, lossy, y.get("ln")))
        if not trav:
            continue
        n += 1
        key = "C02/V/%s/children-enumerated-through-complete-views" % "+".join(names)
        bad_t = [(cn, l, ln) for cn, l, ln in trav if l]
        if bad_t:
            cn, l, ln = bad_t[0]
            res.append(bad("C02.V", key, gc.loc(ln),
                           "the %s arm of the mark loop walks the object through %s, which drops elements (%s): children it skips are swept "
                           "although the object still refers to them (a table row whose key was mutated after insertion, a NaN key)"
                           % ("/".join(names), short(cn), ", ".join(l))))
        else:
            res.append(ok("C02.V", key, gc.loc(trav[0][2]), "traversals used: %s" % ", ".join(sorted(set(short(cn).rsplit("::", 2)[-2] + "::" + short(cn).rsplit("::", 1)[-1] for cn, _l, _ln in trav)))))
    if n < 1:
        raise AnchorMissing("traversal calls in the mark loop")
    return res


def rule_k(F):
    """C02.K: the collector never overwrites the Protected marker. Every store to `<obj>.marker` in RuntimeData::gc lies
    under a test of the same object's marker that excludes Protected (`if !matches!(m, Protected)`,
    `if matches!(m, White)`); an unconditional store would turn a guarded object gray/black, the unmark phase then whitens
    it and the next collection frees it although its guard is alive."""
    from cao.facts import hir_walk, hir_strip, hir_local_id, pat_variants
    from cao import hirutil as hu
    res = []
    gc = F.fn("vm::runtime::RuntimeData::gc")
    adt = F.adt("vm::runtime::cao_lang_object::GcMarker")
    ALL = set(v["name"] for v in adt["variants"])
    if "Protected" not in ALL:
        raise AnchorMissing("GcMarker::Protected")

    def base_of(e):
        e = hu.strip_all(e)
        while e is not None and e.get("k") == "field":
            e = hu.strip_all(e["e"])
        return hir_local_id(e) if e is not None else None

    def marker_test(c):
        """-> (base local, set of marker variants for which the condition is true) or None"""
        c = hu.strip_casts(c)
        if c is None:
            return None
        if c.get("k") == "un" and c["op"] == "Not":
            r = marker_test(c["e"])
            return (r[0], ALL - r[1]) if r else None
        if c.get("k") == "match":
            sc = hu.strip_all(c["scrut"])
            if sc.get("k") == "field" and sc["name"] == "marker":
                true_set, seen = set(), set()
                for a in c["arms"]:
                    b = hu.strip_casts(a["body"])
                    val = b["lit"]["v"] if b is not None and b.get("k") == "lit" and b["lit"]["k"] == "bool" else None
                    if val is None:
                        return None
                    names = set(n.rsplit("::", 1)[-1] for n, _s, _p in pat_variants(a["pat"]) if "::" in n)
                    if not names:
                        names = ALL - seen   # wildcard
                    names -= seen
                    seen |= names
                    if val:
                        true_set |= names
                return (base_of(sc["e"]), true_set)
        return None

    anc = hu.control_ancestors(gc.hir["body"])
    ifs = {id(x): x for x in hir_walk(gc.hir["body"]) if x.get("k") == "if"}
    n = 0
    counts = {}
    for x in hir_walk(gc.hir["body"]):
        if x.get("k") != "assign":
            continue
        l = hir_strip(x["l"])
        if l.get("k") != "field" or l["name"] != "marker":
            continue
        base = base_of(l["e"])
        r = hu.strip_all(x["r"])
        stored = short(r["path"]["res"].get("path", "")).rsplit("::", 1)[-1] if r.get("k") == "path" else "?"
        allowed = set(ALL)
        for kind, nid in anc.get(id(x), ()):
            node = ifs.get(nid)
            if node is None or kind not in ("then", "else"):
                continue
            t = marker_test(node["cond"])
            if t is None or t[0] != base or base is None:
                continue
            allowed &= t[1] if kind == "then" else (ALL - t[1])
        c = counts.get(stored, 0)
        counts[stored] = c + 1
        key = "C02/K/gc/marker-store-%s%s" % (stored, "" if c == 0 else "#%d" % c)
        n += 1
        if "Protected" in allowed and stored != "Protected":
            res.append(bad("C02.K", key, gc.loc(x["ln"]),
                           "gc stores GcMarker::%s into an object's marker without first excluding Protected: an object held by an "
                           "ObjectGcGuard that is reached here loses its protection, the unmark phase whitens it and the next collection "
                           "frees it while the guard is alive" % stored))
        else:
            res.append(ok("C02.K", key, gc.loc(x["ln"]), "store of %s only when the marker is in %s" % (stored, sorted(allowed))))
    if n < 4:
        raise AnchorMissing("stores to marker in RuntimeData::gc (found %d)" % n)
    return res


def rule_r(F):
    from cao import rooting
    res = []
    maygc = rooting.MayGc(F)
    # functions that receive an ObjectGcGuard through a generic `impl Into<Value>` parameter release the guard themselves
    gi = rooting.guard_instantiations(F)
    fns = [f for f in F.fns if f.mir and (vm_side(f) or f.short in gi)]
    returns_unrooted = set()
    for _ in range(4):
        an = rooting.Analysis(F, maygc, returns_unrooted)
        new = set()
        for f in fns:
            if f.is_closure:
                continue
            _h, ru, _s = an.run(f, param_sources=native_params(f))
            if ru:
                new.add(f.short)
        if new == returns_unrooted:
            break
        returns_unrooted = new
    an = rooting.Analysis(F, maygc, returns_unrooted)
    # Are the arguments of host functions rooted while the function runs? They are iff the VmFunctionN wrappers do not
    # hand popped values to the function pointer. Only if they are not, the natives' parameters are unrooted sources.
    wrappers = [f for f in fns if not f.is_closure and f.short.startswith("<") and "traits::VmFunction" in f.short]
    wrappers_pop = False
    for wf in wrappers:
        hz, _ru, _s = an.run(wf)
        if any(h["callee"].startswith("<fn pointer") for h in hz):
            wrappers_pop = True
    if len(wrappers) < 4:
        raise AnchorMissing("VmFunction impls for fn pointers (found %d)" % len(wrappers))
    native_params_eff = native_params if wrappers_pop else (lambda f: [])
    run_fn, arm_of = run_arm_of_block(F)
    exempt_ok = all(g for _e, g in emitter_copylast_before_register(F))
    seeds_all = {}
    results = {}
    order = [f for f in fns if not f.is_closure] + sorted([f for f in fns if f.is_closure], key=lambda f: f.short.count("{closure"))
    closure_arm = {}
    n_sources = 0
    for f in order:
        caps = seeds_all.get(f.short) if f.is_closure else None
        if f.is_closure and not caps:
            continue
        hz, _ru, seeds = an.run(f, param_sources=native_params_eff(f), capture_sources=caps)
        for k, v in seeds.items():
            seeds_all.setdefault(k, {}).update(v)
        results[f.short] = hz
        if f.short == run_fn.short:
            # which arm constructs which closure
            for bi, b in enumerate(f.blocks):
                for st in b["stmts"]:
                    if st["k"] == "assign" and st["rv"]["k"] == "agg" and st["rv"]["agg"]["k"] == "closure":
                        closure_arm[short(st["rv"]["agg"]["path"])] = arm_of.get(bi)
    res.append(ok("C02.R", "C02/R/native-arguments-rooted" if not wrappers_pop else "C02/R/native-arguments-popped", wrappers[0].loc(),
                  "the VmFunctionN wrappers keep the arguments on the value stack while the host function runs: parameters of "
                  "natives are rooted" if not wrappers_pop else
                  "the VmFunctionN wrappers pop the arguments before calling the host function: parameters of natives are unrooted sources",
                  wrappers=len(wrappers)))
    for f in order:
        hz = results.get(f.short)
        if hz is None:
            continue
        fname = (f.root or f.short)
        base = fname.rsplit("::", 1)[-1] if not fname.startswith("<") else "VmFunction::call" + _arity(fname)
        if f.is_closure:
            base += "{closure}"
        # one finding per (function/arm, unrooted origin): the earliest hazardous call is the representative, the others
        # are listed with it (taint through containers is field-insensitive, so later sites may repeat the same cause)
        groups = {}
        for h in sorted(hz, key=lambda h: (h["ln"] or 0)):
            arm = None
            if f.short == run_fn.short:
                for bi, b in enumerate(f.blocks):
                    t = b["term"]
                    if t.get("ln") == h["ln"] and t["k"] == "call":
                        arm = arm_of.get(bi)
                        break
            elif f.is_closure and f.root == run_fn.short:
                arm = closure_arm.get(f.short)
            where = "%s[%s]" % (base, arm) if arm else base
            groups.setdefault((where, h["origin"]), []).append(h)
        for (where, origin), hs in groups.items():
            h = hs[0]
            import re as _re
            sites = "; ".join("%s %s (line %s)" % (_re.sub(r"\{closure#\d+\}", "{closure}", x["callee"]), x["kind"], x["ln"]) for x in hs)
            key = "C02/R/%s/%s" % (where, origin)
            msg = ("%s value `%s` (line %s) is not reachable from any GC root while a call that may collect runs: %s — if the "
                   "object has no other reference it is freed while still in use" % (h["origin_kind"], origin, h["origin_ln"], sites))
            if f.short in gi and "[guard moved in by" in origin:
                # decided per caller by the capacity argument (cao/capacity.py)
                from cao import capacity
                by_caller = {}
                for _param, sites_ in gi[f.short].items():
                    for caller, ln in sites_:
                        by_caller.setdefault(caller, []).append(ln)
                for caller, lines in sorted(by_caller.items()):
                    cf = F.fn(caller)
                    good, why = capacity.decide_caller(F, maygc, cf, lines)
                    ckey = "C02/R/%s/guard-released-into-%s" % (caller.rsplit("::", 1)[-1], f.name)
                    if good:
                        res.append(ok("C02.R", ckey, cf.loc(lines[0]),
                                      "%s hands a guard to %s, which converts it to an unrooted Value before inserting; safe because the "
                                      "insertion cannot allocate: %s" % (cf.name, f.name, why)))
                    else:
                        res.append(bad("C02.R", ckey, cf.loc(lines[0]),
                                       "%s moves an ObjectGcGuard into %s (line %s): the guard is converted to a plain Value, then the hash "
                                       "part is extended while the object is referenced by nothing the collector sees (the key list is "
                                       "updated after the insertion) - %s" % (cf.name, f.name, lines, why)))
            elif f.short == "vm::instr_execution::register_upvalue" and origin == "closure" and exempt_ok:
                res.append(ok("C02.R", key, f.loc(h["ln"]), "exempt: every RegisterUpvalue emission is preceded by CopyLast (C02.X), the closure is still on the stack", exempt=True))
            else:
                res.append(bad("C02.R", key, f.loc(h["ln"]), msg))
        if not hz:
            res.append(ok("C02.R", "C02/R/%s/no-hazard" % (base if not f.is_closure else f.short.rsplit("::", 2)[-2] + "::" + f.short.rsplit("::", 1)[-1]),
                          f.loc(), "no unrooted value is passed into or live across a call that may collect"))
    return res


def _arity(path):
    # <fn(&mut vm::Vm<Aux>, T1, T2) -> ... as traits::VmFunction<Aux>>::call
    head = path.split(" as ")[0]
    n = head.count(", T")
    return str(n) if n else ""


RULES = [
    Rule("C02.V", rule_v, 1, "the mark phase enumerates children through complete views"),
    Rule("C02.B", rule_b, 1, "no scan of gc() stops early except a nested search for one root"),
    Rule("C02.U", rule_u, 1, "every exit of gc() after marking passes the unmark phase"),
    Rule("C02.K", rule_k, 9, "the collector never overwrites the Protected marker"),
    Rule("C02.Roots", rule_roots, 7, "gc's root set covers every reference-bearing field of RuntimeData/CallFrame"),
    Rule("C02.M", rule_m, 6, "the mark loop follows every reference-bearing field of every object kind"),
    Rule("C02.P", rule_p, 2, "Protected objects are traced"),
    Rule("C02.R", rule_r, 20, "no unrooted value is passed into or live across a may-collect call"),
    Rule("C02.X", rule_x, 1, "emitter-side justification of the register_upvalue exemption"),
]
