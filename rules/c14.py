"""C14 — The value stack and bounded stack are bounded LIFO stacks.

Only the boundedness clause is shape ("a write that must be bounded"):

  C14.B  guarded height changes: every store that raises the height field (ValueStack.count, BoundedStack.head) is
         dominated by a comparison of that field with the storage length whose taken edge implies room; every store that
         lowers it is saturating, min-bounded or dominated by a test that the height is large enough; every
         get_unchecked(_mut) index is the guarded field (push), the field minus one under a > 0 guard (pop/last), or a loop
         index below the field; unconditional stores are 0 (clear) or a caller-supplied height whose callers pass a call
         frame's stack_offset.
  C14.F  a failing push performs no store (contents unchanged).

LIFO order and the results of pop_n/set/get/peek against a model are behavioural and NOT claimed.
"""
from cao.facts import AnchorMissing, callee_names, short, op_local, op_place, DefUse, rvalue_places
from cao.rules import Rule, ok, bad, undecided, note
from cao import mirutil as mu

EXPLANATION = (
    "For both stacks the rules enumerate (from MIR, by field identity) every store to the height field and every "
    "unchecked element access, express the guarding comparison and the stored value as linear forms over the height h and "
    "the capacity L (h + a OP L + b), and check by exhaustive case split over small h, L that the edge leading to the "
    "store implies the needed bound (room for one element on push, h >= k on a decrement by k, index < L / index < h on an "
    "unchecked access). Comparisons are the only way the code touches these quantities, so the finite set of orderings is "
    "complete. Closures passed to bool::then inherit the receiver comparison as their guard. Decides: 'never holds more "
    "values than its capacity; a failing push leaves the contents unchanged'. Does not decide: LIFO order, pop_n/set/get "
    "results versus a model."
)
ASSUMPTIONS = [
    "BoundedStack.capacity == storage.len() (who-may-write: only BoundedStack::new, checked)",
    "safe slice indexing in ValueStack is bounds-checked by rustc (no unchecked access there, checked)",
]

STACKS = {
    "collections::value_stack::ValueStack": {"height": "count", "bound": ("len", "data"), "room": 2},
    "collections::bounded_stack::BoundedStack": {"height": "head", "bound": ("field", "capacity"), "room": 1},
}


class Lin:
    """value = base + off ; base in {('h',), ('L',), ('const',), ('other', id)}"""

    def __init__(self, base, off=0):
        self.base = base
        self.off = off

    def __repr__(self):
        return "%s%+d" % (self.base[0], self.off)


def field_names_of_place(fn, du, place, depth=0):
    """field names found when following a place back through copies/refs/pointer casts (closure captures self__x -> x)"""
    names = []
    for e in place["p"]:
        if e["k"] == "field":
            n = e["name"]
            if n.startswith("self__"):
                n = n[len("self__"):]
            names.append(n)
    if depth > 8:
        return names
    d = du.sole_def(place["l"])
    if d is not None and d[2] == "assign":
        rv = d[3]["rv"]
        src = None
        if rv["k"] in ("use", "cast"):
            src = op_place(rv["op"])
        elif rv["k"] in ("ref", "rawptr"):
            src = rv["place"]
        if src is not None:
            return field_names_of_place(fn, du, src, depth + 1) + names
    return names


def lin_of(fn, du, op, cfgd, depth=0):
    """linear form of an operand w.r.t. height field / bound"""
    h, bound = cfgd["height"], cfgd["bound"]
    if op.get("k") == "const":
        v = op.get("val")
        return Lin(("const",), v if isinstance(v, int) else 0)
    p = op_place(op)
    if p is None or depth > 10:
        return Lin(("other", id(op)))
    names = field_names_of_place(fn, du, p)
    meaningful = [n for n in names if n not in ("0", "1", "pointer")]
    if meaningful[-1:] == [h]:
        return Lin(("h",))
    if bound[0] == "field" and meaningful[-1:] == [bound[1]]:
        return Lin(("L",))
    if p["p"] and not all((e["k"] == "field" and e["name"] in ("0", "1")) or e["k"] == "downcast" for e in p["p"]):
        return Lin(("other", str(names)))
    d = du.sole_def(p["l"])
    if d is None:
        return Lin(("other", "multi%d" % p["l"]))
    if d[2] == "call":
        t = d[3]
        nm = callee_names(t["func"])
        last = nm[0].rsplit("::", 1)[-1]
        if last == "len" and bound[0] == "len":
            a0 = op_place(t["args"][0])
            if a0 is not None and bound[1] in field_names_of_place(fn, du, a0):
                return Lin(("L",))
        if last == "checked_sub" and any(e["k"] == "downcast" for e in p["p"]):
            # (checked_sub(a, k) as Some).0  ==  a - k, and being in the Some arm implies a >= k
            a = lin_of(fn, du, t["args"][0], cfgd, depth + 1)
            b = lin_of(fn, du, t["args"][1], cfgd, depth + 1)
            if b.base == ("const",) and a.base in (("h",), ("L",)):
                r = Lin(a.base, a.off - b.off)
                r.implied_ge = (a.base, b.off - a.off)   # base >= k
                return r
        if last == "saturating_sub":
            a = lin_of(fn, du, t["args"][0], cfgd, depth + 1)
            b = lin_of(fn, du, t["args"][1], cfgd, depth + 1)
            if b.base == ("const",):
                return Lin(("sat", a.base, a.off - b.off))
        if last == "min":
            a = lin_of(fn, du, t["args"][0], cfgd, depth + 1)
            b = lin_of(fn, du, t["args"][1], cfgd, depth + 1)
            return Lin(("min", (a.base, a.off), (b.base, b.off)))
        return Lin(("other", last))
    rv = d[3]["rv"]
    k = rv["k"]
    if k in ("use", "cast"):
        return lin_of(fn, du, rv["op"], cfgd, depth + 1)
    if k == "bin" and rv["op"] in ("Add", "AddWithOverflow", "Sub", "SubWithOverflow", "AddUnchecked", "SubUnchecked"):
        return lin_bin(fn, du, rv, cfgd, depth)
    if k == "un" and rv["op"] == "PtrMetadata" and bound[0] == "len":
        p2 = op_place(rv["x"])
        if p2 is not None and bound[1] in field_names_of_place(fn, du, p2):
            return Lin(("L",))
    return Lin(("other", k))


def lin_bin(fn, du, rv, cfgd, depth=0):
    a = lin_of(fn, du, rv["l"], cfgd, depth + 1)
    b = lin_of(fn, du, rv["r"], cfgd, depth + 1)
    sign = 1 if rv["op"].startswith("Add") else -1
    if b.base == ("const",):
        return Lin(a.base, a.off + sign * b.off)
    if a.base == ("const",) and sign == 1:
        return Lin(b.base, b.off + a.off)
    if sign == -1 and a.base == ("h",) and b.base[0] == "min" and (("h",), 0) in b.base[1:]:
        return Lin(("h_minus_min",))
    return Lin(("other", "bin"))


def evalv(lin, h, L):
    if lin.base == ("h",):
        return h + lin.off
    if lin.base == ("L",):
        return L + lin.off
    if lin.base == ("const",):
        return lin.off
    return None


CMP = {"Lt": lambda a, b: a < b, "Le": lambda a, b: a <= b, "Gt": lambda a, b: a > b, "Ge": lambda a, b: a >= b,
       "Eq": lambda a, b: a == b, "Ne": lambda a, b: a != b}


def guards_on_path(fn, du, block, cfgd):
    """comparisons that dominate `block` together with the edge taken: list of (op, linL, linR, truth)"""
    cfg = fn.cfg
    out = []
    for g in cfg.dom.get(block, ()):
        if g == block:
            continue
        t = fn.blocks[g]["term"]
        if t["k"] != "switch":
            continue
        cond = op_local(t["discr"])
        st = None
        for s_ in fn.blocks[g]["stmts"]:
            if s_["k"] == "assign" and s_["place"]["l"] == cond and s_["rv"]["k"] == "bin" and s_["rv"]["op"] in CMP:
                st = s_
        if st is None:
            continue
        zero = dict((v, bb) for v, bb in t["targets"]).get(0)
        if zero is None:
            continue
        true_t = t["otherwise"]
        # which edge dominates block?
        if cfg.dominates(true_t, block) and not cfg.dominates(zero, block):
            truth = True
        elif cfg.dominates(zero, block) and not cfg.dominates(true_t, block):
            truth = False
        else:
            continue
        out.append((st["rv"]["op"], lin_of(fn, du, st["rv"]["l"], cfgd), lin_of(fn, du, st["rv"]["r"], cfgd), truth))
    return out


def implied(guards, pred, hmax=7, lmax=7):
    """do the guards imply pred(h, L) for all small h, L with 0 <= h <= L? (guards with unknown sides are ignored)"""
    usable = [g for g in guards if evalv(g[1], 0, 0) is not None and evalv(g[2], 0, 0) is not None]
    if not usable:
        return False
    for L in range(0, lmax):
        for h in range(0, L + 1):
            if all(CMP[op](evalv(a, h, L), evalv(b, h, L)) == truth for op, a, b, truth in usable):
                if not pred(h, L):
                    return False
    return True


def admitted(guards, lmax=7):
    """the small states (h, L), 0 <= h <= L, consistent with the guards (None when no guard is understood)"""
    usable = [g for g in guards if evalv(g[1], 0, 0) is not None and evalv(g[2], 0, 0) is not None]
    if not usable:
        return None
    out = set()
    for L in range(0, lmax):
        for h in range(0, L + 1):
            if all(CMP[op](evalv(a, h, L), evalv(b, h, L)) == truth for op, a, b, truth in usable):
                out.add((h, L))
    return out


def stack_fns(F, adt):
    prefix = adt + "::"
    return [f for f in F.fns if f.mir and ((f.root or f.short).startswith(prefix) or ((f.root or f.short).startswith("<" + adt)))]


def closure_guard(F, f, cfgd):
    """guards inherited by a closure passed to bool::then in its parent"""
    if not f.is_closure:
        return []
    parent = F.fn(f.parent, required=False)
    if parent is None or not parent.mir:
        return []
    du = DefUse(parent)
    for bi, t in mu.calls(parent):
        if any(n.endswith("bool::then") for n in callee_names(t["func"])):
            cl = op_local(t["args"][1])
            d = du.sole_def(cl) if cl is not None else None
            if d is not None and d[2] == "assign" and d[3]["rv"]["k"] == "agg" and short(d[3]["rv"]["agg"].get("path", "")) == f.short:
                c = op_local(t["args"][0])
                dc = du.sole_def(c) if c is not None else None
                if dc is not None and dc[2] == "assign" and dc[3]["rv"]["k"] == "bin" and dc[3]["rv"]["op"] in CMP:
                    rv = dc[3]["rv"]
                    g = [(rv["op"], lin_of(parent, du, rv["l"], cfgd), lin_of(parent, du, rv["r"], cfgd), True)]
                    return g + guards_on_path(parent, du, bi, cfgd)
    return []


def aff_of(fn, du, op, cfgd, depth=0):
    """affine form {h, L, p<n> (parameter n), 1: const} of an operand, or None"""
    if op.get("k") == "const":
        v = op.get("val")
        return {1: v} if isinstance(v, int) else None
    p = op_place(op)
    if p is None or depth > 12:
        return None
    names = [n for n in field_names_of_place(fn, du, p) if n not in ("0", "1", "pointer")]
    if names[-1:] == [cfgd["height"]]:
        return {"h": 1}
    if p["p"] and not all(e["k"] == "field" and e["name"] in ("0", "1") for e in p["p"]):
        return None
    l = p["l"]
    if 1 <= l <= fn.mir["arg_count"] and not [d for d in du.defs.get(l, []) if not d[3].get("place", d[3].get("dest"))["p"]]:
        return {"p%d" % l: 1}
    d = du.sole_def(l)
    if d is None:
        return None
    if d[2] == "call":
        t = d[3]
        last = callee_names(t["func"])[0].rsplit("::", 1)[-1]
        if last == "len" and cfgd["bound"][0] == "len":
            a0 = op_place(t["args"][0])
            if a0 is not None and cfgd["bound"][1] in field_names_of_place(fn, du, a0):
                return {"L": 1}
        return None
    rv = d[3]["rv"]
    k = rv["k"]
    if k in ("use", "cast"):
        return aff_of(fn, du, rv["op"], cfgd, depth + 1)
    if k == "bin" and rv["op"] in ("Add", "AddWithOverflow", "Sub", "SubWithOverflow", "AddUnchecked", "SubUnchecked"):
        a = aff_of(fn, du, rv["l"], cfgd, depth + 1)
        b = aff_of(fn, du, rv["r"], cfgd, depth + 1)
        if a is None or b is None:
            return None
        sign = 1 if rv["op"].startswith("Add") else -1
        out = dict(a)
        for kk, v in b.items():
            out[kk] = out.get(kk, 0) + sign * v
        return out
    if k == "un" and rv["op"] == "PtrMetadata" and cfgd["bound"][0] == "len":
        p2 = op_place(rv["x"])
        if p2 is not None and cfgd["bound"][1] in field_names_of_place(fn, du, p2):
            return {"L": 1}
    return None


def aff_guards(fn, du, block, cfgd):
    cfg = fn.cfg
    out = []
    for g in cfg.dom.get(block, ()):
        if g == block:
            continue
        t = fn.blocks[g]["term"]
        if t["k"] != "switch":
            continue
        cond = op_local(t["discr"])
        st = None
        for s_ in fn.blocks[g]["stmts"]:
            if s_["k"] == "assign" and s_["place"]["l"] == cond and s_["rv"]["k"] == "bin" and s_["rv"]["op"] in CMP:
                st = s_
        if st is None:
            continue
        zero = dict((v, bb) for v, bb in t["targets"]).get(0)
        if zero is None:
            continue
        true_t = t["otherwise"]
        if cfg.dominates(true_t, block) and not cfg.dominates(zero, block):
            truth = True
        elif cfg.dominates(zero, block) and not cfg.dominates(true_t, block):
            truth = False
        else:
            continue
        a = aff_of(fn, du, st["rv"]["l"], cfgd)
        b = aff_of(fn, du, st["rv"]["r"], cfgd)
        if a is not None and b is not None:
            out.append((st["rv"]["op"], a, b, truth))
    return out


def aff_eval(a, env):
    return sum(v * (env[k] if k != 1 else 1) for k, v in a.items())


def aff_implied(guards, idx, hmax=6, pmax=7):
    """for all small heights, capacities and parameter values consistent with the guards: 0 <= idx < height ?"""
    params = sorted(set(k for g in guards for a in (g[1], g[2]) for k in a if isinstance(k, str) and k.startswith("p")) |
                    set(k for k in idx if isinstance(k, str) and k.startswith("p")))
    import itertools
    seen_state = False
    for L in range(0, hmax):
        for h in range(0, L + 1):
            for pv in itertools.product(range(0, pmax), repeat=len(params)):
                env = {"h": h, "L": L}
                env.update(dict(zip(params, pv)))
                if all(CMP[op](aff_eval(a, env), aff_eval(b, env)) == truth for op, a, b, truth in guards):
                    seen_state = True
                    v = aff_eval(idx, env)
                    if not (0 <= v < h):
                        return False, env
    return seen_state, None


def rule_n(F):
    """C14.N: every element the value stack hands out is a live one: an indexed read of `data` at height+off happens only
    where the guards imply 0 <= height+off < height (a read at or beyond the height must produce nil instead: pop_n and
    clear_until lower the height without clearing the slots, so the slots above it hold stale values)."""
    res = []
    adt = "collections::value_stack::ValueStack"
    cfgd = STACKS[adt]
    n = 0
    for f in stack_fns(F, adt):
        du = DefUse(f)
        fname = (f.root or f.short).rsplit("::", 1)[-1] + ("{closure}" if f.is_closure else "")
        inherited = closure_guard(F, f, cfgd)
        k = 0
        # `mem::replace(&mut data[i], v)` / `mem::take` / `ptr::read` hand the old element out as well
        taken_refs = set()
        for _bi, t in mu.calls(f):
            if any(n_.endswith("mem::replace") or n_.endswith("mem::take") or n_.endswith("ptr::read") or n_.endswith("mem::swap")
                   for n_ in callee_names(t["func"])) and t["args"]:
                l0 = op_local(t["args"][0])
                seen0 = set()
                while l0 is not None and l0 not in seen0:
                    seen0.add(l0)
                    taken_refs.add(l0)
                    d0 = du.sole_def(l0)
                    if d0 is None or d0[2] != "assign" or d0[3]["rv"]["k"] not in ("ref", "rawptr", "use"):
                        break
                    pl0 = d0[3]["rv"].get("place") or op_place(d0[3]["rv"].get("op"))
                    if pl0 is None or [e for e in pl0["p"] if e["k"] == "index"]:
                        break
                    l0 = pl0["l"] if all(e["k"] == "deref" for e in pl0["p"]) else None
        for bi, b in enumerate(f.blocks):
            for st in b["stmts"]:
                if st["k"] != "assign":
                    continue
                if st["rv"]["k"] == "use":
                    pl = op_place(st["rv"]["op"])
                elif st["rv"]["k"] in ("ref", "rawptr") and st["place"]["l"] in taken_refs and not st["place"]["p"]:
                    pl = st["rv"]["place"]
                else:
                    continue
                if pl is None:
                    continue
                idx = [e for e in pl["p"] if e["k"] == "index"]
                if not idx:
                    continue
                base_names = field_names_of_place(f, du, {"l": pl["l"], "p": []})
                if cfgd["bound"][1] not in base_names:
                    continue
                lin = lin_of(f, du, {"k": "copy", "place": {"l": idx[0]["local"], "p": []}}, cfgd)
                guards = guards_on_path(f, du, bi, cfgd) + inherited
                ig = getattr(lin, "implied_ge", None)
                if ig is not None and ig[0] == ("h",):
                    guards = guards + [("Ge", Lin(("h",)), Lin(("const",), ig[1]), True)]
                key = "C14/N/ValueStack::%s/read%s-is-below-height" % (fname, "" if k == 0 else "#%d" % k)
                k += 1
                loc = f.loc(st.get("ln"))
                if lin.base == ("h",):
                    off = lin.off
                    n += 1
                    if off < 0 and implied(guards, lambda h, L, off=off: h + off >= 0):
                        res.append(ok("C14.N", key, loc, "reads slot height%+d under a guard that implies height >= %d" % (off, -off)))
                    else:
                        res.append(bad("C14.N", key, loc, "ValueStack::%s reads slot height%+d without a guard that keeps it below the height: "
                                       "a stale value left by pop_n / clear_until is returned where nil is due" % (fname, off)))
                elif lin.base[0] == "sat" and lin.base[1] == ("h",):
                    off = lin.base[2]
                    n += 1
                    if implied(guards, lambda h, L, off=off: h + off >= 0):
                        res.append(ok("C14.N", key, loc, "reads slot max(height%+d, 0) where the guard implies height >= %d" % (off, -off)))
                    else:
                        res.append(bad("C14.N", key, loc,
                                       "ValueStack::%s reads slot max(height%+d, 0): on an empty stack that is slot 0, which holds whatever "
                                       "pop_n / clear_until left there - a read at or beyond the height must be nil" % (fname, off)))
                else:
                    aff = aff_of(f, du, {"k": "copy", "place": {"l": idx[0]["local"], "p": []}}, cfgd)
                    if aff is None:
                        res.append(note("C14.N", key, loc, "index is not an affine form of height and parameters (loop index): not decided here"))
                    else:
                        n += 1
                        good, cex = aff_implied(aff_guards(f, du, bi, cfgd), aff)
                        if good:
                            res.append(ok("C14.N", key, loc, "index %s is below the height in every state the guards admit" % aff))
                        else:
                            res.append(bad("C14.N", key, loc, "ValueStack::%s reads slot %s which can be at or beyond the height (%s): a stale value "
                                           "is returned where nil is due" % (fname, aff, cex)))
    if n < 2:
        raise AnchorMissing("height-relative reads of ValueStack.data (found %d)" % n)
    return res


def rule_b(F):
    res = []
    for adt, cfgd in STACKS.items():
        sname = adt.rsplit("::", 1)[-1]
        fns = stack_fns(F, adt)
        if len(fns) < 5:
            raise AnchorMissing("methods of %s" % adt)
        n_stores = 0
        raises = []
        for f in fns:
            du = DefUse(f)
            fname = (f.root or f.short).rsplit("::", 1)[-1] + ("{closure}" if f.is_closure else "")
            inherited = closure_guard(F, f, cfgd)
            counters = {}
            for bi, b in enumerate(f.blocks):
                for st in b["stmts"]:
                    if st["k"] != "assign":
                        continue
                    names = field_names_of_place(f, du, st["place"])
                    meaningful = [n for n in names if n not in ("0", "1", "pointer")]
                    is_height = meaningful[-1:] == [cfgd["height"]] and (st["place"]["p"] and st["place"]["p"][-1]["k"] in ("field", "deref"))
                    if not is_height:
                        continue
                    if st["rv"]["k"] == "agg":
                        continue
                    n_stores += 1
                    if st["rv"]["k"] == "use":
                        val = lin_of(f, du, st["rv"]["op"], cfgd)
                    elif st["rv"]["k"] == "bin" and st["rv"]["op"] in ("Add", "Sub", "AddUnchecked", "SubUnchecked"):
                        # overflow checks off: `(*self).count = Add(copy (*self).count, const 1)` in one statement
                        val = lin_bin(f, du, st["rv"], cfgd)
                    else:
                        val = Lin(("other", st["rv"]["k"]))
                    guards = guards_on_path(f, du, bi, cfgd) + inherited
                    ig = getattr(val, "implied_ge", None)
                    if ig is not None and ig[0] == ("h",):
                        # value taken from the Some arm of checked_sub(height, k): height >= k holds there
                        guards = guards + [("Ge", Lin(("h",)), Lin(("const",), ig[1]), True)]
                    n = counters.get("s", 0)
                    counters["s"] = n + 1
                    key = "C14/B/%s::%s/height-store#%d" % (sname, fname, n)
                    loc = f.loc(st.get("ln"))
                    if val.base == ("h",) and val.off > 0:
                        raises.append((fname, admitted(guards), loc, f))
                        need = lambda h, L, k=val.off: h + k <= L
                        if implied(guards, need):
                            res.append(ok("C14.B", key, loc, "height += %d is guarded: the taken edge implies room" % val.off, guards=str(guards)))
                        else:
                            res.append(bad("C14.B", key, loc,
                                           "%s::%s raises the height by %d without a dominating comparison against the capacity that implies "
                                           "room: the stack can hold more values than its storage (out-of-bounds write / panic instead of a "
                                           "stack-full error)" % (sname, fname, val.off), guards=str(guards)))
                    elif val.base == ("h",) and val.off < 0:
                        k = -val.off
                        if implied(guards, lambda h, L, k=k: h >= k):
                            res.append(ok("C14.B", key, loc, "height -= %d is guarded by a test that implies height >= %d" % (k, k)))
                        else:
                            res.append(bad("C14.B", key, loc, "%s::%s lowers the height by %d without a guard that implies height >= %d: popping an "
                                           "empty stack underflows the height" % (sname, fname, k, k)))
                    elif val.base[0] == "sat":
                        res.append(ok("C14.B", key, loc, "height is lowered with saturating_sub"))
                    elif val.base[0] == "min" and (("h",), 0) in val.base[1:]:
                        res.append(ok("C14.B", key, loc, "height set to min(height, ..): the store can only lower it"))
                    elif val.base == ("h_minus_min",):
                        res.append(ok("C14.B", key, loc, "height is lowered by min(height, n)"))
                    elif val.base == ("const",) and val.off == 0:
                        res.append(ok("C14.B", key, loc, "height reset to 0"))
                    elif val.base == ("h",) and val.off == 0:
                        res.append(ok("C14.B", key, loc, "height unchanged"))
                    else:
                        # caller supplied height
                        pl = op_place(st["rv"]["op"]) if st["rv"]["k"] == "use" else None
                        param = None
                        if pl is not None and not pl["p"]:
                            kind, payload = du.trace_back(pl["l"])
                            if kind == "arg" and 1 <= payload <= f.mir["arg_count"]:
                                param = payload
                        lowering = False
                        if param is not None:
                            # the store sits under a comparison of the parameter with the height that only admits p <= h
                            import itertools
                            ag = aff_guards(f, du, bi, cfgd)
                            pk = "p%d" % param
                            if any(pk in a or pk in b for _op, a, b, _t in ag):
                                lowering = True
                                for L in range(0, 6):
                                    for h in range(0, L + 1):
                                        for pv in range(0, 8):
                                            env = {"h": h, "L": L, pk: pv}
                                            try:
                                                adm = all(CMP[op](aff_eval(a, env), aff_eval(b, env)) == truth for op, a, b, truth in ag)
                                            except KeyError:
                                                adm = True
                                            if adm and pv > h:
                                                lowering = False
                        if lowering:
                            res.append(ok("C14.B", key, loc, "height set to a parameter only where the guards imply parameter <= height: the store can only lower it"))
                        elif param is not None:
                            res.extend(check_set_height_callers(F, f, param, key, loc, sname, fname))
                        else:
                            res.append(undecided("C14.B", key, loc, "stored height expression not recognised: %r" % val))
            # unchecked accesses
            for bi, t in mu.calls(f):
                nm = callee_names(t["func"])
                if not any(n.endswith("get_unchecked") or n.endswith("get_unchecked_mut") for n in nm):
                    continue
                idx = lin_of(f, du, t["args"][1], cfgd)
                guards = guards_on_path(f, du, bi, cfgd) + inherited
                n = counters.get("u", 0)
                counters["u"] = n + 1
                key = "C14/B/%s::%s/unchecked-access#%d" % (sname, fname, n)
                loc = f.loc(t.get("ln"))
                # a height store that dominates the access changes what the field holds
                cfg = f.cfg
                for b2, blk2 in enumerate(f.blocks):
                    for st2 in blk2["stmts"]:
                        if st2["k"] == "assign" and st2["rv"]["k"] in ("use", "bin") and st2["place"]["p"]:
                            nm2 = [n for n in field_names_of_place(f, du, st2["place"]) if n not in ("0", "1", "pointer")]
                            if nm2[-1:] == [cfgd["height"]] and (cfg.dominates(b2, bi) and b2 != bi or (b2 == bi)):
                                stored = lin_of(f, du, st2["rv"]["op"], cfgd) if st2["rv"]["k"] == "use" else lin_bin(f, du, st2["rv"], cfgd)
                                if idx.base == ("h",) and stored.base == ("h",):
                                    idx = Lin(("h",), idx.off + stored.off)
                if idx.base == ("h",):
                    off = idx.off
                    # index h+off must be a valid storage slot: 0 <= h+off < L, and for reads below the height
                    if implied(guards, lambda h, L, off=off: 0 <= h + off < L):
                        res.append(ok("C14.B", key, loc, "unchecked index height%+d is within the storage under the dominating guard" % off))
                    else:
                        res.append(bad("C14.B", key, loc, "%s::%s indexes the storage unchecked at height%+d without a guard that keeps it in bounds" % (sname, fname, off)))
                elif loop_index_below_height(f, du, t["args"][1], cfgd):
                    res.append(ok("C14.B", key, loc, "unchecked index is a loop variable of 0..height"))
                else:
                    res.append(undecided("C14.B", key, loc, "unchecked index expression not recognised: %r" % idx))
        if n_stores < 3:
            raise AnchorMissing("stores to %s.%s (found %d)" % (sname, cfgd["height"], n_stores))
        # one push policy: every site that raises the height admits exactly the states `push` admits ("a write at the
        # current height pushes": same stack-full behaviour whichever way a value gets on top)
        ref = [r for r in raises if r[0] == "push"]
        if not ref:
            raise AnchorMissing("%s::push raising the height" % sname)
        for fname, adm, loc, f in raises:
            if fname == "push":
                continue
            key = "C14/B/%s::%s/raises-height-like-push" % (sname, fname)
            if adm is None or ref[0][1] is None:
                res.append(undecided("C14.B", key, loc, "guards of the height increment not understood"))
            elif adm == ref[0][1]:
                res.append(ok("C14.B", key, loc, "%s raises the height under exactly push's condition" % fname))
            else:
                diff = sorted(adm ^ ref[0][1])[:3]
                res.append(bad("C14.B", key, loc,
                               "%s::%s raises the height under a different condition than push (e.g. height, capacity = %s: %s accepts, "
                               "push %s): a write at the current height is not the same as a push, the stack-full behaviour depends on "
                               "how a value gets on top" % (sname, fname, diff[0], fname if diff[0] in adm else "push rejects; " + fname,
                                                           "rejects" if diff[0] in adm else "accepts")))
    # capacity == storage.len(): who writes BoundedStack.capacity
    writers = set()
    for f in F.fns:
        if not f.mir:
            continue
        for b in f.blocks:
            for st in b["stmts"]:
                if st["k"] == "assign":
                    if mu.field_path(st["place"])[-1:] == ["capacity"] and st["place"]["p"] and "BoundedStack" in st["place"]["p"][-1].get("owner", ""):
                        writers.add(f.short)
                    if st["rv"]["k"] == "agg" and short(st["rv"]["agg"].get("path", "")).endswith("bounded_stack::BoundedStack"):
                        writers.add(f.short)
    if writers <= {"collections::bounded_stack::BoundedStack::new"}:
        res.append(ok("C14.B", "C14/B/BoundedStack/capacity-writers", "", "capacity is set only by BoundedStack::new (together with the storage)"))
    else:
        res.append(bad("C14.B", "C14/B/BoundedStack/capacity-writers", "", "BoundedStack.capacity is written by %s" % sorted(writers)))
    return res


def loop_index_below_height(f, du, op, cfgd):
    """index operand comes out of Iterator::next over a Range whose end derives from the height field"""
    l = op_local(op)
    seen = set()
    while l is not None and l not in seen:
        seen.add(l)
        ds = du.defs.get(l, [])
        if len(ds) != 1:
            return False
        d = ds[0]
        if d[2] == "call":
            nm = callee_names(d[3]["func"])
            if any(n.endswith("Iterator::next") for n in nm):
                # the iterator: Range { start: 0, end: height }
                for b in f.blocks:
                    for st in b["stmts"]:
                        if st["k"] == "assign" and st["rv"]["k"] == "agg" and short(st["rv"]["agg"].get("path", "")).endswith("ops::Range"):
                            end = lin_of(f, du, st["rv"]["ops"][1], cfgd)
                            start = lin_of(f, du, st["rv"]["ops"][0], cfgd)
                            if end.base == ("h",) and end.off == 0 and start.base == ("const",) and start.off == 0:
                                return True
                return False
            return False
        rv = d[3]["rv"]
        if rv["k"] in ("use", "cast"):
            p = op_place(rv["op"])
            if p is None:
                return False
            l = p["l"]
            continue
        return False
    return False


def check_set_height_callers(F, f, param_local, key, loc, sname, fname):
    """clear_until(index): every caller passes a call frame's stack_offset (computed as len - arity <= len)"""
    res = []
    callers = []
    for g in F.fns:
        if not g.mir:
            continue
        for bi, t in mu.calls(g):
            if f.short in callee_names(t["func"]):
                callers.append((g, t))
    if not callers:
        res.append(note("C14.B", key, loc, "%s::%s sets the height to its argument; no caller in the crate" % (sname, fname)))
        return res
    bad_callers = []
    for g, t in callers:
        du = DefUse(g)
        a = t["args"][param_local - 1]
        p = op_place(a)
        names = field_names_of_place(g, du, p) if p is not None else []
        if "stack_offset" not in names:
            bad_callers.append((g, t))
    if bad_callers:
        g, t = bad_callers[0]
        res.append(bad("C14.B", key, g.loc(t.get("ln")), "%s::%s sets the height to a caller-supplied value and %s passes something other than a "
                       "call frame's stack_offset: the height may exceed the number of stored values" % (sname, fname, g.short)))
    else:
        res.append(ok("C14.B", key, loc, "height set to a caller-supplied value; every caller (%d) passes a call frame's stack_offset" % len(callers)))
    return res


def rule_f(F):
    """a failing push performs no store: the Err(Full) exit is not reachable from any store into the storage/height"""
    res = []
    for adt, cfgd in STACKS.items():
        sname = adt.rsplit("::", 1)[-1]
        f = F.fn(adt + "::push")
        cfg = f.cfg
        du = DefUse(f)
        err = [b for b in range(len(f.blocks)) if any(st["k"] == "assign" and st["place"]["l"] == 0 and mu.is_err_aggregate(st["rv"]) for st in f.blocks[b]["stmts"])]
        stores = []
        for bi, b in enumerate(f.blocks):
            for st in b["stmts"]:
                if st["k"] == "assign" and st["place"]["p"] and st["place"]["l"] != 0:
                    names = field_names_of_place(f, du, st["place"])
                    if cfgd["height"] in names or "data" in names or "storage" in names:
                        stores.append(bi)
            t = b["term"]
            if t["k"] == "call" and any(n.endswith("ptr::write") for n in callee_names(t["func"])):
                stores.append(bi)
        key = "C14/F/%s::push/failure-stores-nothing" % sname
        if not err:
            res.append(undecided("C14.F", key, f.loc(), "push has no failure exit"))
            continue
        leak = [e for e in err if any(e in cfg.reachable_from(s_) for s_ in stores)]
        if leak:
            res.append(bad("C14.F", key, f.loc(), "%s::push can report failure after it has already modified the stack" % sname))
        else:
            res.append(ok("C14.F", key, f.loc(), "the stack-full exit is reached without any store (%d store sites)" % len(set(stores))))
        # push is refused only when fewer than `room` slots are free (documented: 2 for the value stack, 1 for the bounded stack)
        room = cfgd["room"]
        key2 = "C14/F/%s::push/refused-only-when-full" % sname
        g = guards_on_path(f, du, err[0], cfgd)
        if implied(g, lambda h, L, room=room: L - h < room):
            res.append(ok("C14.F", key2, f.loc(), "the stack-full edge implies fewer than %d free slot(s)" % room))
        else:
            res.append(bad("C14.F", key2, f.loc(), "%s::push can refuse a value although %d slot(s) are free (guards %s)" % (sname, room, g)))
    return res


def rule_t(F):
    """C14.T: truncation. clear_until(index) with index <= height leaves exactly `index` values and reports the value that
    was on top before (last()); decided by evaluating the body for every small (height, capacity, index) with
    index <= height. index > height is outside the property and not judged."""
    from cao import mirexec as mx
    res = []
    f = F.fn("collections::value_stack::ValueStack::clear_until")
    if not f.mir or f.mir["arg_count"] != 2:
        raise AnchorMissing("MIR of ValueStack::clear_until(&mut self, index)")
    key = "C14/T/ValueStack::clear_until/truncates-and-reports-the-old-top"

    def calls(names, argv, st):
        last = names[0].rsplit("::", 1)[-1] if names else "?"
        if names and names[0].endswith("ValueStack::last") and argv and argv[0] == ("self",):
            h = st.fields["count"]
            return ("top", h) if h > 0 else ("nil",)
        if last == "len" and argv and argv[0] == ("ref", ("data",)):
            return st.fields["__L"]
        if last in ("min", "max") and len(argv) == 2 and all(isinstance(a, int) for a in argv):
            return min(argv) if last == "min" else max(argv)
        if last == "saturating_sub" and len(argv) == 2 and all(isinstance(a, int) for a in argv):
            return max(argv[0] - argv[1], 0)
        raise mx.Unknown("call %s" % (names[0] if names else "?"))

    def is_nil(v):
        return v == ("nil",) or (isinstance(v, tuple) and v[:1] == ("agg",) and v[2] == "Nil")

    cases = 0
    for L in range(1, 6):
        for h in range(0, L + 1):
            for idx in range(0, h + 1):
                try:
                    o = mx.run(f, {1: ("self",), 2: idx}, {"count": h, "data": ("data",), "__L": L}, calls)
                except mx.Unknown as e:
                    return [undecided("C14.T", key, f.loc(), "clear_until could not be evaluated over the small domain: %s" % e)]
                cases += 1
                want = ("top", h) if h > 0 else ("nil",)
                got_h = o.fields["count"]
                if o.panicked:
                    return [bad("C14.T", key, f.loc(), "ValueStack::clear_until(%d) panics (%s) on a stack of height %d, capacity %d: truncating "
                                "to a height at or below the current one must succeed" % (idx, o.panicked, h, L))]
                if got_h != idx:
                    return [bad("C14.T", key, f.loc(), "ValueStack::clear_until(%d) on a stack of height %d (capacity %d) leaves height %s: "
                                "truncating to a height at or below the current one must leave exactly that many values" % (idx, h, L, got_h))]
                if not (o.ret == want or (is_nil(o.ret) and want == ("nil",))):
                    return [bad("C14.T", key, f.loc(), "ValueStack::clear_until(%d) on a stack of height %d (capacity %d) returns %s where "
                                "the value on top before the truncation (last()) is due: the caller (Return) loses its result"
                                % (idx, h, L, "nil" if is_nil(o.ret) else o.ret))]
    # an index above the height: a truncation never raises the height (the slots above it hold stale values, and beyond
    # the capacity there is no slot at all)
    for L in range(1, 6):
        for h in range(0, L + 1):
            for idx in range(h + 1, L + 3):
                try:
                    o = mx.run(f, {1: ("self",), 2: idx}, {"count": h, "data": ("data",), "__L": L}, calls)
                except mx.Unknown as e:
                    return [undecided("C14.T", key, f.loc(), "clear_until could not be evaluated over the small domain: %s" % e)]
                cases += 1
                if not o.panicked and isinstance(o.fields["count"], int) and o.fields["count"] > h:
                    return [bad("C14.T", key, f.loc(), "ValueStack::clear_until(%d) on a stack of height %d (capacity %d) raises the height to %d: "
                                "the stack then reports values it never stored (stale slots) and, past the capacity, more values than "
                                "it has slots - the next pop indexes out of bounds" % (idx, h, L, o.fields["count"]))]
    return [ok("C14.T", key, f.loc(), "evaluated for %d (height, capacity, index) cases: height becomes index, result is the old top" % cases)]


RULES = [
    Rule("C14.T", rule_t, 1, "clear_until truncates to the given height and reports the old top (all small cases)"),
    Rule("C14.N", rule_n, 4, "elements handed out are below the height (reads at or beyond it are nil)"),
    Rule("C14.B", rule_b, 12, "guarded height changes and unchecked accesses of both stacks"),
    Rule("C14.F", rule_f, 4, "a failing push leaves the contents unchanged and happens only when the stack is full"),
]
