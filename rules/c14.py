"""C14 — The value stack and bounded stack are bounded LIFO stacks.

Only the boundedness clause is shape ("a write that must be bounded"):

  C14.B  guarded height changes: every store that raises the height field (ValueStack.count, BoundedStack.head) is
         dominated by a comparison of that field with the storage length whose taken edge implies room; every store that
         lowers it is saturating, min-bounded or dominated by a test that the height is large enough; every
         get_unchecked(_mut) index is the guarded field (push), the field minus one under a > 0 guard (pop/last), or a loop
         index below the field; unconditional stores are 0 (clear) or a caller-supplied height whose callers pass a call
         frame's stack_offset.
         A sub-slice taken from the storage (storage[a..b], get(a..b)) ends at or below the height.
         The height may be compared with `<`/`>=`.., `a.lt(&b)`.., or a match on `a.cmp(&b)`; an index may come from
         `checked_sub` directly, through `?` / unwrap, or through a helper method of the stack that takes only `self`.
  C14.N  every read of ValueStack's storage hands out live elements only: `data[i]`, `&data[i]` that is read through,
         get / get_unchecked / index / first, sub-ranges, and the storage pointer (`as_ptr().add(i)`, `*ptr`,
         from_raw_parts) are decided against the guards (index < height, range end <= height); a use of the whole storage
         whose accesses are not modelled (iter(), last(), split_at(), ..) is undecided.
  C14.F  a failing push performs no store (contents unchanged).

LIFO order and the results of pop_n/set/get/peek against a model are behavioural and NOT claimed.
"""
from cao.facts import AnchorMissing, callee_names, short, op_local, op_place, DefUse, rvalue_places
from cao.rules import Rule, ok, bad, undecided, note
from cao import mirutil as mu

EXPLANATION = (
    "For both stacks the rules enumerate (from MIR, by field identity) every store to the height field and every "
    "unchecked element access, express the guarding comparison and the stored value as linear forms over the height h and "
    "the capacity L (h + a OP L + b), and check by exhaustive case split over small h, L that the edge leading to the "
    "store implies the needed bound (room for one element on push, h >= k on a decrement by k, index < L / index < h on an "
    "unchecked access). Comparisons are the only way the code touches these quantities, so the finite set of orderings is "
    "complete. Closures passed to bool::then inherit the receiver comparison as their guard. Decides: 'never holds more "
    "values than its capacity; a failing push leaves the contents unchanged'. Does not decide: LIFO order, pop_n/set/get "
    "results versus a model."
)
ASSUMPTIONS = [
    "BoundedStack.capacity == storage.len() (who-may-write: only BoundedStack::new, checked)",
    "safe slice indexing in ValueStack is bounds-checked by rustc (no unchecked access there, checked)",
]

STACKS = {
    "collections::value_stack::ValueStack": {"height": "count", "bound": ("len", "data"), "room": 2, "store": "data"},
    "collections::bounded_stack::BoundedStack": {"height": "head", "bound": ("field", "capacity"), "room": 1, "store": "storage"},
}


def ctx(F, adt):
    """per-stack description plus the facts (needed to follow calls into the stack's own helpers / a closure's parent)"""
    d = dict(STACKS[adt])
    d["F"] = F
    d["adt"] = adt
    return d


class Lin:
    """value = base + off ; base in {('h',), ('L',), ('const',), ('other', id)}"""

    def __init__(self, base, off=0):
        self.base = base
        self.off = off

    def __repr__(self):
        return "%s%+d" % (self.base[0], self.off)


def field_names_of_place(fn, du, place, depth=0):
    """field names found when following a place back through copies/refs/pointer casts (closure captures self__x -> x)"""
    names = []
    for e in place["p"]:
        if e["k"] == "field":
            n = e["name"]
            if n.startswith("self__"):
                n = n[len("self__"):]
            names.append(n)
    if depth > 8:
        return names
    d = du.sole_def(place["l"])
    if d is not None and d[2] == "assign":
        rv = d[3]["rv"]
        src = None
        if rv["k"] in ("use", "cast"):
            src = op_place(rv["op"])
        elif rv["k"] in ("ref", "rawptr"):
            src = rv["place"]
        if src is not None:
            return field_names_of_place(fn, du, src, depth + 1) + names
    return names


def is_self_arg(fn, du, op, cfgd):
    """does the operand denote the stack the enclosing method works on (`self`, `&*self`, a closure's captured `self`)?"""
    l = op_local(op)
    if l is None:
        return False
    adt = cfgd.get("adt", "")
    if not fn.is_closure:
        kind, payload = du.trace_back(l)
        # ("multi", 1): `self` is stored through (`(*self).count = ..`) but never re-assigned as a whole
        reassigned = [d for d in du.defs.get(1, []) if not d[3].get("place", d[3].get("dest"))["p"]]
        return kind in ("arg", "multi") and payload == 1 and not reassigned and fn.mir["locals"][1].get("adt", "") == adt
    names = field_names_of_place(fn, du, {"l": l, "p": []})
    return names == ["self"] and any(c.get("name") == "self" and adt in c.get("ty", "") for c in fn.captures)


def call_passthrough(fn, du, t, p, cfgd):
    """A call whose result (projected by `p`) is a value computed elsewhere: returns (fn2, du2, operand) denoting that value.
      - `?`:  (Try::branch(x) as Continue).0  ==  (x as Some|Ok).0
      - Option::unwrap/expect(x)  ==  (x as Some).0   (the call diverges otherwise)
      - a method of the same stack that takes only `self`, called on the caller's own `self`: its return place"""
    nm = callee_names(t["func"])
    last = nm[0].rsplit("::", 1)[-1] if nm else ""
    args = t.get("args") or []
    a0 = op_local(args[0]) if args else None
    ty0 = (t.get("arg_tys") or [""])[0]
    proj = p["p"]
    if a0 is not None and any(n.endswith("Try::branch") for n in nm) and proj and proj[0]["k"] == "downcast" and proj[0].get("variant") == "Continue":
        variant = "Some" if ty0.startswith("std::option::Option<") else "Ok" if ty0.startswith("std::result::Result<") else None
        if variant is not None:
            return fn, du, {"k": "copy", "place": {"l": a0, "p": [dict(proj[0], variant=variant)] + list(proj[1:])}}
    if a0 is not None and last in ("unwrap", "expect", "unwrap_unchecked") and ty0.startswith("std::option::Option<"):
        return fn, du, {"k": "copy", "place": {"l": a0, "p": [{"k": "downcast", "variant": "Some"}, {"k": "field", "name": "0"}] + list(proj)}}
    F = cfgd.get("F")
    if F is not None and len(args) == 1 and (t["func"].get("local") or t["func"].get("resolved_local")) and is_self_arg(fn, du, args[0], cfgd):
        mine = set(id(x) for x in stack_fns(F, cfgd["adt"]))
        for n in nm:
            g = F.fn(n, required=False)
            # `&self` only: the helper cannot change the height between its read and the caller's use
            if g is not None and g.mir and not g.is_closure and g.mir["arg_count"] == 1 and id(g) in mine and g is not fn \
                    and g.mir["locals"][1]["ty"].startswith("&") and not g.mir["locals"][1]["ty"].startswith("&mut"):
                return g, DefUse(g), {"k": "copy", "place": {"l": 0, "p": list(proj)}}
    return None


def deref_operand(du, op):
    """the operand a reference-valued operand points at (`&x`, `&*r`, copies of such a borrow); None when not a plain borrow"""
    l = op_local(op)
    seen = set()
    while l is not None and l not in seen:
        seen.add(l)
        d = du.sole_def(l)
        if d is None or d[2] != "assign":
            return None
        rv = d[3]["rv"]
        if rv["k"] == "use":
            l = op_local(rv["op"])
            continue
        if rv["k"] == "ref":
            pl = rv["place"]
            if pl["p"] and all(e["k"] == "deref" for e in pl["p"]):
                l = pl["l"]
                continue
            return {"k": "copy", "place": pl}
        return None
    return None


def through_deref(du, p):
    """`(*r)` with r = &place (a by-reference match binding): the place itself; other places unchanged"""
    for _ in range(4):
        if len(p["p"]) >= 1 and p["p"][0]["k"] == "deref":
            d = du.sole_def(p["l"])
            if d is not None and d[2] == "assign" and d[3]["rv"]["k"] == "ref" and not any(e["k"] == "index" for e in d[3]["rv"]["place"]["p"]):
                src = d[3]["rv"]["place"]
                p = {"l": src["l"], "p": list(src["p"]) + list(p["p"][1:])}
                continue
        break
    return p


OPTION_PAYLOAD_ADAPTORS = {"map": 1, "and_then": 1, "is_some_and": 1, "map_or": 2, "map_or_else": 2}


def closure_param_source(F, f):
    """a closure handed to Option::map / and_then / map_or.. in its parent receives the Some payload of the receiver:
    returns (parent, du, operand denoting `(receiver as Some).0`) or None"""
    if F is None or not f.is_closure:
        return None
    parent = F.fn(f.parent, required=False)
    if parent is None or not parent.mir:
        return None
    du = DefUse(parent)
    mine = [st["place"]["l"] for b in parent.blocks for st in b["stmts"]
            if st["k"] == "assign" and not st["place"]["p"] and st["rv"]["k"] == "agg" and short(st["rv"]["agg"].get("path", "")) == f.short]
    for _bi, t in mu.calls(parent):
        nm = callee_names(t["func"])
        last = nm[0].rsplit("::", 1)[-1] if nm else ""
        pos = OPTION_PAYLOAD_ADAPTORS.get(last)
        if pos is None or not any("Option::" + last in n for n in nm) or len(t["args"]) <= pos:
            continue
        c = op_local(t["args"][pos])
        seen = set()
        while c is not None and c not in mine and c not in seen:
            seen.add(c)
            d = du.sole_def(c)
            c = op_local(d[3]["rv"]["op"]) if d is not None and d[2] == "assign" and d[3]["rv"]["k"] == "use" else None
        recv = op_local(t["args"][0])
        if c is None or c not in mine or recv is None:
            continue
        return parent, du, {"k": "copy", "place": {"l": recv, "p": [{"k": "downcast", "variant": "Some"}, {"k": "field", "name": "0"}]}}
    return None


def lin_of(fn, du, op, cfgd, depth=0):
    """linear form of an operand w.r.t. height field / bound"""
    h, bound = cfgd["height"], cfgd["bound"]
    if op.get("k") == "const":
        v = op.get("val")
        if not isinstance(v, int):
            return Lin(("other", "const without value (const generic / non-integer)"))
        return Lin(("const",), v)
    p = op_place(op)
    if p is None or depth > 10:
        return Lin(("other", id(op)))
    p = through_deref(du, p)
    names = field_names_of_place(fn, du, p)
    meaningful = [n for n in names if n not in ("0", "1", "pointer")]
    if meaningful[-1:] == [h]:
        return Lin(("h",))
    if bound[0] == "field" and meaningful[-1:] == [bound[1]]:
        return Lin(("L",))
    if p["p"] and not all((e["k"] == "field" and e["name"] in ("0", "1")) or e["k"] == "downcast" for e in p["p"]):
        return Lin(("other", str(names)))
    d = du.sole_def(p["l"])
    if d is None:
        if fn.is_closure and p["l"] == 2 and not p["p"] and not du.defs.get(2):
            src = closure_param_source(cfgd.get("F"), fn)
            if src is not None:
                return lin_of(src[0], src[1], src[2], cfgd, depth + 1)
        return Lin(("other", "multi%d" % p["l"]))
    if d[2] == "call":
        t = d[3]
        nm = callee_names(t["func"])
        last = nm[0].rsplit("::", 1)[-1]
        if last == "len" and bound[0] == "len":
            a0 = op_place(t["args"][0])
            if a0 is not None and bound[1] in field_names_of_place(fn, du, a0):
                return Lin(("L",))
        if last == "checked_sub" and any(e["k"] == "downcast" for e in p["p"]):
            # (checked_sub(a, k) as Some).0  ==  a - k, and being in the Some arm implies a >= k
            a = lin_of(fn, du, t["args"][0], cfgd, depth + 1)
            b = lin_of(fn, du, t["args"][1], cfgd, depth + 1)
            if b.base == ("const",) and a.base in (("h",), ("L",)):
                r = Lin(a.base, a.off - b.off)
                r.implied_ge = (a.base, b.off - a.off)   # base >= k
                return r
        if last == "saturating_sub":
            a = lin_of(fn, du, t["args"][0], cfgd, depth + 1)
            b = lin_of(fn, du, t["args"][1], cfgd, depth + 1)
            if b.base == ("const",):
                return Lin(("sat", a.base, a.off - b.off))
        if last == "min":
            a = lin_of(fn, du, t["args"][0], cfgd, depth + 1)
            b = lin_of(fn, du, t["args"][1], cfgd, depth + 1)
            return Lin(("min", (a.base, a.off), (b.base, b.off)))
        through = call_passthrough(fn, du, t, p, cfgd)
        if through is not None:
            fn2, du2, op2 = through
            return lin_of(fn2, du2, op2, cfgd, depth + 1)
        return Lin(("other", last))
    rv = d[3]["rv"]
    k = rv["k"]
    if k in ("use", "cast"):
        return lin_of(fn, du, rv["op"], cfgd, depth + 1)
    if k == "bin" and rv["op"] in ("Add", "AddWithOverflow", "Sub", "SubWithOverflow", "AddUnchecked", "SubUnchecked"):
        return lin_bin(fn, du, rv, cfgd, depth)
    if k == "un" and rv["op"] == "PtrMetadata" and bound[0] == "len":
        p2 = op_place(rv["x"])
        if p2 is not None and bound[1] in field_names_of_place(fn, du, p2):
            return Lin(("L",))
    return Lin(("other", k))


def lin_bin(fn, du, rv, cfgd, depth=0):
    a = lin_of(fn, du, rv["l"], cfgd, depth + 1)
    b = lin_of(fn, du, rv["r"], cfgd, depth + 1)
    sign = 1 if rv["op"].startswith("Add") else -1
    if b.base == ("const",):
        return Lin(a.base, a.off + sign * b.off)
    if a.base == ("const",) and sign == 1:
        return Lin(b.base, b.off + a.off)
    if sign == -1 and a.base == ("h",) and b.base[0] == "min" and (("h",), 0) in b.base[1:]:
        return Lin(("h_minus_min",))
    return Lin(("other", "bin"))


def evalv(lin, h, L):
    if lin.base == ("h",):
        return h + lin.off
    if lin.base == ("L",):
        return L + lin.off
    if lin.base == ("const",):
        return lin.off
    return None


CMP = {"Lt": lambda a, b: a < b, "Le": lambda a, b: a <= b, "Gt": lambda a, b: a > b, "Ge": lambda a, b: a >= b,
       "Eq": lambda a, b: a == b, "Ne": lambda a, b: a != b}


ORD_VALUE = {255: -1, -1: -1, 0: 0, 1: 1, 18446744073709551615: -1}
ORD_REL = {frozenset([-1]): "Lt", frozenset([0]): "Eq", frozenset([1]): "Gt", frozenset([-1, 0]): "Le", frozenset([0, 1]): "Ge",
           frozenset([-1, 1]): "Ne"}
UNSIGNED_TYPES = ("usize", "u8", "u16", "u32", "u64", "u128")
INT_TYPES = ("usize", "u8", "u16", "u32", "u64", "u128", "isize", "i8", "i16", "i32", "i64", "i128")
METHOD_CMP = {"lt": "Lt", "le": "Le", "gt": "Gt", "ge": "Ge", "eq": "Eq", "ne": "Ne"}


def _bool_edge(cfg, t, block):
    """which edge of a two-way switch on a bool dominates `block`: True / False / None"""
    zero = dict((v, bb) for v, bb in t["targets"]).get(0)
    if zero is None:
        return None
    true_t = t["otherwise"]
    if cfg.dominates(true_t, block) and not cfg.dominates(zero, block):
        return True
    if cfg.dominates(zero, block) and not cfg.dominates(true_t, block):
        return False
    return None


def cond_guards(fn, du, block):
    """comparisons that dominate `block` together with the edge taken, as operands: list of (op, left, right, truth, guard
    block). Understood: a SwitchInt on `a OP b`; on `a.lt(&b)` (le, gt, ge, eq, ne); a match on `a.cmp(&b)` (the set of
    Ordering values whose arms lead to `block` is turned into the relation it stands for); a match on an integer value."""
    cfg = fn.cfg
    out = []
    for g in cfg.dom.get(block, ()):
        if g == block:
            continue
        t = fn.blocks[g]["term"]
        if t["k"] != "switch":
            continue
        cond = op_local(t["discr"])
        st = None
        for s_ in fn.blocks[g]["stmts"]:
            if s_["k"] == "assign" and s_["place"]["l"] == cond and s_["rv"]["k"] == "bin" and s_["rv"]["op"] in CMP:
                st = s_
        if st is not None:
            truth = _bool_edge(cfg, t, block)
            if truth is not None:
                out.append((st["rv"]["op"], st["rv"]["l"], st["rv"]["r"], truth, g))
            continue
        d = du.sole_def(cond) if cond is not None else None
        if not (d is not None and d[2] == "assign" and d[3]["rv"]["k"] == "discr"):
            # a match on an integer value itself (`Some(0) => ..`, `0 => ..`): equal to the one value whose arm leads here, or
            # different from every listed value when only the default arm does
            dp = op_place(t["discr"])
            ty = None
            if dp is not None:
                fields = [e for e in dp["p"] if e["k"] == "field"]
                ty = fields[-1].get("ty") if dp["p"] and dp["p"][-1]["k"] == "field" and fields else (fn.local_ty(dp["l"]) if not dp["p"] else None)
            if ty in INT_TYPES:
                def reaches(tgt):
                    return tgt == block or block in cfg.reachable_from(tgt, avoid={g})
                hit = [v for v, tgt in t["targets"] if reaches(tgt)]
                if reaches(t["otherwise"]):
                    if not hit:
                        for v, _tgt in t["targets"]:
                            out.append(("Ne", t["discr"], {"k": "const", "ty": ty, "val": v}, True, g))
                elif len(hit) == 1:
                    out.append(("Eq", t["discr"], {"k": "const", "ty": ty, "val": hit[0]}, True, g))
                continue
        if d is None:
            continue
        if d[2] == "call":
            nm = callee_names(d[3]["func"])
            last = nm[0].rsplit("::", 1)[-1] if nm else ""
            if last in METHOD_CMP and any(n.endswith("PartialOrd::" + last) or n.endswith("PartialEq::" + last) for n in nm) and len(d[3]["args"]) == 2:
                a, b = deref_operand(du, d[3]["args"][0]), deref_operand(du, d[3]["args"][1])
                truth = _bool_edge(cfg, t, block)
                if a is not None and b is not None and truth is not None:
                    out.append((METHOD_CMP[last], a, b, truth, g))
            continue
        rv = d[3]["rv"]
        if rv["k"] == "discr" and not rv["place"]["p"]:
            dc = du.sole_def(rv["place"]["l"])
            if dc is None or dc[2] != "call" or len(dc[3]["args"]) != 2 or not any(n.endswith("Ord::cmp") for n in callee_names(dc[3]["func"])):
                continue
            a, b = deref_operand(du, dc[3]["args"][0]), deref_operand(du, dc[3]["args"][1])
            tm = {}
            for v, tgt in t["targets"]:
                tm[ORD_VALUE.get(v)] = tgt
            if a is None or b is None or None in tm:
                continue
            vals = set()
            for v in (-1, 0, 1):
                tgt = tm.get(v, t["otherwise"])
                if tgt == block or block in cfg.reachable_from(tgt, avoid={g}):
                    vals.add(v)
            rel = ORD_REL.get(frozenset(vals))
            if rel is not None:
                out.append((rel, a, b, True, g))
    return out


def guards_on_path(fn, du, block, cfgd):
    """comparisons that dominate `block` together with the edge taken: list of (op, linL, linR, truth)"""
    return [(op, lin_of(fn, du, a, cfgd), lin_of(fn, du, b, cfgd), truth) for op, a, b, truth, _g in cond_guards(fn, du, block)]


def implied(guards, pred, hmax=7, lmax=7):
    """do the guards imply pred(h, L) for all small h, L with 0 <= h <= L? (guards with unknown sides are ignored)"""
    usable = [g for g in guards if evalv(g[1], 0, 0) is not None and evalv(g[2], 0, 0) is not None]
    if not usable:
        return False
    for L in range(0, lmax):
        for h in range(0, L + 1):
            if all(CMP[op](evalv(a, h, L), evalv(b, h, L)) == truth for op, a, b, truth in usable):
                if not pred(h, L):
                    return False
    return True


def admitted(guards, lmax=7):
    """the small states (h, L), 0 <= h <= L, consistent with the guards (None when no guard is understood)"""
    usable = [g for g in guards if evalv(g[1], 0, 0) is not None and evalv(g[2], 0, 0) is not None]
    if not usable:
        return None
    out = set()
    for L in range(0, lmax):
        for h in range(0, L + 1):
            if all(CMP[op](evalv(a, h, L), evalv(b, h, L)) == truth for op, a, b, truth in usable):
                out.add((h, L))
    return out


def stack_fns(F, adt):
    prefix = adt + "::"
    return [f for f in F.fns if f.mir and ((f.root or f.short).startswith(prefix) or ((f.root or f.short).startswith("<" + adt)))]


def closure_guard(F, f, cfgd):
    """guards inherited by a closure passed to bool::then in its parent"""
    if not f.is_closure:
        return []
    parent = F.fn(f.parent, required=False)
    if parent is None or not parent.mir:
        return []
    du = DefUse(parent)
    for bi, t in mu.calls(parent):
        if any(n.endswith("bool::then") for n in callee_names(t["func"])):
            cl = op_local(t["args"][1])
            d = du.sole_def(cl) if cl is not None else None
            if d is not None and d[2] == "assign" and d[3]["rv"]["k"] == "agg" and short(d[3]["rv"]["agg"].get("path", "")) == f.short:
                c = op_local(t["args"][0])
                dc = du.sole_def(c) if c is not None else None
                if dc is not None and dc[2] == "assign" and dc[3]["rv"]["k"] == "bin" and dc[3]["rv"]["op"] in CMP:
                    rv = dc[3]["rv"]
                    g = [(rv["op"], lin_of(parent, du, rv["l"], cfgd), lin_of(parent, du, rv["r"], cfgd), True)]
                    return g + guards_on_path(parent, du, bi, cfgd)
    return []


def range_of_iterator(fn, du, op):
    """(start operand, end operand) when the operand is (a borrow of) an iterator over `start..end`, forwards or reversed"""
    l = op_local(op)
    seen = set()
    while l is not None and l not in seen:
        seen.add(l)
        d = du.sole_def(l)
        if d is None:
            return None
        if d[2] == "call":
            t = d[3]
            nm = callee_names(t["func"])
            last = nm[0].rsplit("::", 1)[-1] if nm else ""
            if last in ("into_iter", "rev", "by_ref") and t["args"] and any("iter::" in n for n in nm):
                l = op_local(t["args"][0])
                continue
            return None
        rv = d[3]["rv"]
        if rv["k"] == "use":
            l = op_local(rv["op"])
        elif rv["k"] == "ref" and (not rv["place"]["p"] or all(e["k"] == "deref" for e in rv["place"]["p"])):
            l = rv["place"]["l"]
        elif rv["k"] == "agg" and rv["agg"].get("k") == "adt" and short(rv["agg"].get("path", "")) in ("std::ops::Range", "core::ops::Range") \
                and len(rv["ops"]) == 2:
            return rv["ops"][0], rv["ops"][1]
        else:
            return None
    return None


BY_VALUE_ADAPTORS = ("map", "for_each", "filter_map", "flat_map", "map_while")


def closure_param_range(F, f, cfgd):
    """a closure that is handed to Iterator::map / for_each / .. over `start..end` in its parent receives start <= x < end:
    returns (parent, du, start operand, end operand) or None"""
    if F is None or not f.is_closure:
        return None
    parent = F.fn(f.parent, required=False)
    if parent is None or not parent.mir:
        return None
    du = DefUse(parent)
    mine = [st["place"]["l"] for b in parent.blocks for st in b["stmts"]
            if st["k"] == "assign" and not st["place"]["p"] and st["rv"]["k"] == "agg" and short(st["rv"]["agg"].get("path", "")) == f.short]
    for _bi, t in mu.calls(parent):
        nm = callee_names(t["func"])
        last = nm[0].rsplit("::", 1)[-1] if nm else ""
        if last not in BY_VALUE_ADAPTORS or not any("Iterator::" + last in n for n in nm) or len(t["args"]) != 2:
            continue
        c = op_local(t["args"][1])
        seen = set()
        while c is not None and c not in mine and c not in seen:
            # a moved copy of the closure value
            seen.add(c)
            d = du.sole_def(c)
            c = op_local(d[3]["rv"]["op"]) if d is not None and d[2] == "assign" and d[3]["rv"]["k"] == "use" else None
        if c is None or c not in mine:
            continue
        rng = range_of_iterator(parent, du, t["args"][0])
        if rng is not None:
            return parent, du, rng[0], rng[1]
    return None


def aff_of(fn, du, op, cfgd, depth=0, side=None):
    """affine form {h, L, p<n> (parameter n), 1: const} of an operand, or None.
    With `side` (a list) given, bounded unknowns are admitted as extra variables whose bounds are appended to it as guards
    (op, affL, affR, truth): i<n> a loop variable of `start..end` (start <= i < end), m<n> a minimum (m <= each known
    argument), and a closure parameter fed from a range by its parent."""
    if op.get("k") == "const":
        v = op.get("val")
        return {1: v} if isinstance(v, int) else None
    p = op_place(op)
    if p is None or depth > 12:
        return None
    p = through_deref(du, p)
    names = [n for n in field_names_of_place(fn, du, p) if n not in ("0", "1", "pointer")]
    if names[-1:] == [cfgd["height"]]:
        return {"h": 1}
    l = p["l"]
    if side is not None and [e["k"] for e in p["p"]] == ["downcast", "field"] and p["p"][0].get("variant") == "Some":
        # x = (Iterator::next(&mut it) as Some).0 with `it` iterating start..end
        d = du.sole_def(l)
        if d is not None and d[2] == "call" and len(d[3]["args"]) == 2 and (callee_names(d[3]["func"]) or [""])[0].rsplit("::", 1)[-1] == "checked_sub":
            # (checked_sub(a, b) as Some).0 == a - b, and a >= b in that arm
            a = aff_of(fn, du, d[3]["args"][0], cfgd, depth + 1, side)
            b = aff_of(fn, du, d[3]["args"][1], cfgd, depth + 1, side)
            if a is None or b is None:
                return None
            side.append(("Ge", a, b, True))
            out = dict(a)
            for kk, v in b.items():
                out[kk] = out.get(kk, 0) - v
            return out
        if d is not None and d[2] == "call" and d[3]["args"] and \
                any(n.endswith("Iterator::next") or n.endswith("DoubleEndedIterator::next_back") for n in callee_names(d[3]["func"])):
            rng = range_of_iterator(fn, du, d[3]["args"][0])
            if rng is not None:
                lo = aff_of(fn, du, rng[0], cfgd, depth + 1, side)
                hi = aff_of(fn, du, rng[1], cfgd, depth + 1, side)
                if lo is not None and hi is not None:
                    var = "i%d" % l
                    side.append(("Ge", {var: 1}, lo, True))
                    side.append(("Lt", {var: 1}, hi, True))
                    return {var: 1}
        return None
    if p["p"] and not all(e["k"] == "field" and e["name"] in ("0", "1") for e in p["p"]):
        return None
    first_param = 2 if fn.is_closure else 1
    if first_param <= l <= fn.mir["arg_count"] and not [d for d in du.defs.get(l, []) if not d[3].get("place", d[3].get("dest"))["p"]]:
        var = "p%d" % l
        if side is not None and fn.is_closure and l == 2 and not p["p"]:
            pr = closure_param_range(cfgd.get("F"), fn, cfgd)
            if pr is not None:
                parent, pdu, lo_op, hi_op = pr
                lo = aff_of(parent, pdu, lo_op, cfgd, depth + 1)
                hi = aff_of(parent, pdu, hi_op, cfgd, depth + 1)
                if lo is not None and hi is not None and all(k in ("h", "L", 1) for k in list(lo) + list(hi)):
                    side.append(("Ge", {var: 1}, lo, True))
                    side.append(("Lt", {var: 1}, hi, True))
        return {var: 1}
    d = du.sole_def(l)
    if d is None:
        whole = [x for x in du.defs.get(l, []) if not x[3].get("place", x[3].get("dest"))["p"]]
        if side is not None and not p["p"] and len(whole) >= 2 and fn.local_ty(l) in UNSIGNED_TYPES:
            # a re-assigned unsigned local (a hand-written loop counter): an unknown >= 0; only guards between which and
            # the use it is not re-assigned may speak about it (aff_guards checks that)
            return {"v%d" % l: 1}
        return None
    if d[2] == "call":
        t = d[3]
        last = callee_names(t["func"])[0].rsplit("::", 1)[-1]
        if last == "len" and cfgd["bound"][0] == "len":
            a0 = op_place(t["args"][0])
            if a0 is not None and cfgd["bound"][1] in field_names_of_place(fn, du, a0):
                return {"L": 1}
        if last == "min" and side is not None and len(t["args"]) == 2 and not p["p"]:
            a = aff_of(fn, du, t["args"][0], cfgd, depth + 1, side)
            b = aff_of(fn, du, t["args"][1], cfgd, depth + 1, side)
            if a is None and b is None:
                return None
            var = "m%d" % l
            for x in (a, b):
                if x is not None:
                    side.append(("Le", {var: 1}, x, True))
            return {var: 1}
        return None
    rv = d[3]["rv"]
    k = rv["k"]
    if k in ("use", "cast"):
        return aff_of(fn, du, rv["op"], cfgd, depth + 1, side)
    if k == "bin" and rv["op"] in ("Add", "AddWithOverflow", "Sub", "SubWithOverflow", "AddUnchecked", "SubUnchecked"):
        a = aff_of(fn, du, rv["l"], cfgd, depth + 1, side)
        b = aff_of(fn, du, rv["r"], cfgd, depth + 1, side)
        if a is None or b is None:
            return None
        sign = 1 if rv["op"].startswith("Add") else -1
        out = dict(a)
        for kk, v in b.items():
            out[kk] = out.get(kk, 0) + sign * v
        return out
    if k == "un" and rv["op"] == "PtrMetadata" and cfgd["bound"][0] == "len":
        p2 = op_place(rv["x"])
        if p2 is not None and cfgd["bound"][1] in field_names_of_place(fn, du, p2):
            return {"L": 1}
    return None


def aff_guards(fn, du, block, cfgd, side=None):
    out = []
    for op, l, r, truth, g in cond_guards(fn, du, block):
        a = aff_of(fn, du, l, cfgd, side=side)
        b = aff_of(fn, du, r, cfgd, side=side)
        if a is not None and b is not None:
            vs = [int(k[1:]) for k in list(a) + list(b) if isinstance(k, str) and k.startswith("v") and k[1:].isdigit()]
            if all(unchanged_between(fn, du, v, g, block) for v in vs):
                out.append((op, a, b, truth))
    return out


def unchanged_between(fn, du, l, g, b):
    """is local l never re-assigned between its test in guard block g and its use in block b (g dominates b)?"""
    cfg = fn.cfg
    after_g = set()
    for s_ in cfg.succ[g]:
        after_g |= cfg.reachable_from(s_, avoid={g})
    for d in du.defs.get(l, []):
        if d[3].get("place", d[3].get("dest"))["p"]:
            continue
        bd = d[0]
        if bd == g or bd == b:
            return False
        if bd in after_g and b in cfg.reachable_from(bd, avoid={g}):
            return False
    return True


def aff_eval(a, env):
    return sum(v * (env[k] if k != 1 else 1) for k, v in a.items())


def aff_implied(guards, idx, hmax=6, pmax=7, pred=None):
    """for all small heights, capacities and values of the other variables consistent with the guards: 0 <= idx < height ?
    (`pred(value, height, capacity)` replaces that requirement when given)"""
    import itertools
    if pred is None:
        pred = lambda v, h, L: 0 <= v < h
    params = sorted(set(k for g in guards for a in (g[1], g[2]) for k in a if isinstance(k, str) and k not in ("h", "L")) |
                    set(k for k in idx if isinstance(k, str) and k not in ("h", "L")))
    seen_state = False
    fallback = None
    for L in range(0, hmax):
        for h in range(0, L + 1):
            for pv in itertools.product(range(0, pmax), repeat=len(params)):
                env = {"h": h, "L": L}
                env.update(dict(zip(params, pv)))
                if all(CMP[op](aff_eval(a, env), aff_eval(b, env)) == truth for op, a, b, truth in guards):
                    seen_state = True
                    v = aff_eval(idx, env)
                    if not pred(v, h, L):
                        if L >= 2:
                            return False, env
                        fallback = fallback or env      # keep looking for a less degenerate capacity to show
    if fallback is not None:
        return False, fallback
    return seen_state, None


S_PASSTHROUGH = ("deref", "deref_mut", "as_ref", "as_mut", "borrow", "borrow_mut", "as_slice", "as_mut_slice")
S_TO_POINTER = ("as_ptr", "as_mut_ptr")
S_NO_ELEMENT = ("len", "is_empty") + S_PASSTHROUGH + S_TO_POINTER
S_WRITE_ONLY = ("fill", "fill_with")
S_ELEMENT = ("get", "get_mut", "get_unchecked", "get_unchecked_mut", "index", "index_mut")
S_FIRST = ("first", "first_mut", "split_first", "split_first_mut")
P_STEP = ("add", "offset", "wrapping_add", "wrapping_offset")
P_READ = ("read", "read_volatile", "read_unaligned")
P_SLICE = ("from_raw_parts", "from_raw_parts_mut")
P_NO_ELEMENT = ("is_null", "is_aligned")


def height_stores_before(f, du, cfgd, site):
    """net change of the height field made by the stores that execute before program point `site` on every path to it:
    (offset, exact) - exact is False when one of them is not of the form height +/- k"""
    cfg = f.cfg
    total, exact = 0, True
    for b2, blk in enumerate(f.blocks):
        for s2, st in enumerate(blk["stmts"]):
            if st["k"] != "assign" or not st["place"]["p"] or st["place"]["p"][-1]["k"] not in ("field", "deref") or st["rv"]["k"] == "agg":
                continue
            names = [n for n in field_names_of_place(f, du, st["place"]) if n not in ("0", "1", "pointer")]
            if names[-1:] != [cfgd["height"]] or not site_precedes(cfg, (b2, s2), site):
                continue
            if st["rv"]["k"] == "use":
                stored = lin_of(f, du, st["rv"]["op"], cfgd)
            elif st["rv"]["k"] == "bin" and st["rv"]["op"] in ("Add", "Sub", "AddUnchecked", "SubUnchecked"):
                stored = lin_bin(f, du, st["rv"], cfgd)
            else:
                stored = Lin(("other", "store"))
            if stored.base == ("h",):
                total += stored.off
            else:
                exact = False
    return total, exact


def at_entry(f, du, op, cfgd, site):
    """linear form of `op` (used at `site`) over the height the method was entered with: a value that reads the height field
    after the method itself has stored height +/- k into it is shifted by that k. None when such a store is not understood."""
    lin = lin_of(f, du, op, cfgd)
    if lin.base != ("h",) and not (lin.base[0] == "sat" and lin.base[1] == ("h",)):
        return lin
    rsite = height_read_site(f, du, op, cfgd, site)
    if rsite is None:
        return lin
    shift, exact = height_stores_before(f, du, cfgd, rsite)
    if not exact:
        return None
    if shift == 0:
        return lin
    if lin.base == ("h",):
        out = Lin(("h",), lin.off + shift)
        if getattr(lin, "implied_ge", None) is not None:
            out.implied_ge = (lin.implied_ge[0], lin.implied_ge[1] - shift)
        return out
    return None


def entry_guards(f, du, block, cfgd):
    """guards_on_path with both sides expressed over the height at entry (see at_entry); a guard that cannot be is dropped"""
    out = []
    for op, a, b, truth, g in cond_guards(f, du, block):
        la, lb = at_entry(f, du, a, cfgd, (g, "term")), at_entry(f, du, b, cfgd, (g, "term"))
        if la is not None and lb is not None:
            out.append((op, la, lb, truth))
    return out


def storage_kind(F, f, du, l, cfgd, depth=0):
    """'S' when local l holds the stack's whole storage (the box, a reference or raw pointer to the slice), 'P' when it holds
    a pointer to slot 0 of it (`as_ptr()`), None otherwise. Followed through copies, casts, (re)borrows, Deref/AsRef calls and
    - in a closure - through the captured variables into the function that built the closure."""
    store = cfgd["store"]
    seen = set()
    while l is not None and l not in seen and depth < 6:
        seen.add(l)
        d = du.sole_def(l)
        if d is None:
            return None
        if d[2] == "call":
            t = d[3]
            nm = callee_names(t["func"])
            last = nm[0].rsplit("::", 1)[-1] if nm else ""
            a0 = op_local(t["args"][0]) if t["args"] else None
            if a0 is None or last not in S_PASSTHROUGH + S_TO_POINTER:
                return None
            k = storage_kind(F, f, du, a0, cfgd, depth + 1)
            if k == "S":
                return "P" if last in S_TO_POINTER else "S"
            return None
        rv = d[3]["rv"]
        if rv["k"] in ("use", "cast"):
            pl = op_place(rv["op"])
        elif rv["k"] in ("ref", "rawptr"):
            pl = rv["place"]
        else:
            return None
        if pl is None or any(e["k"] not in ("deref", "field", "downcast") for e in pl["p"]):
            return None
        fields = [e["name"][len("self__"):] if e["name"].startswith("self__") else e["name"] for e in pl["p"] if e["k"] == "field"]
        if store in fields:
            return "S"
        if f.is_closure and pl["l"] == 1 and fields:
            # a captured variable: what did the parent put there?
            idx = [i for i, c in enumerate(f.captures) if c.get("name") == fields[0]]
            parent = F.fn(f.parent, required=False) if F is not None else None
            if not idx or parent is None or not parent.mir:
                return None
            pdu = DefUse(parent)
            for b in parent.blocks:
                for st in b["stmts"]:
                    if st["k"] == "assign" and st["rv"]["k"] == "agg" and short(st["rv"]["agg"].get("path", "")) == f.short \
                            and idx[0] < len(st["rv"]["ops"]):
                        cl = op_local(st["rv"]["ops"][idx[0]])
                        return storage_kind(F, parent, pdu, cl, cfgd, depth + 1) if cl is not None else None
            return None
        if fields and [n for n in fields if n not in ("0", "pointer")]:
            return None
        l = pl["l"]
    return None


def ref_is_read(f, l, seen=None):
    """can the element behind the reference / pointer held in local l be read, or the reference leave the function?
    False: it is only stored through (`*r = v`, `ptr::write(r, v)`), directly or through reborrows and moved copies."""
    seen = set() if seen is None else seen
    if l in seen:
        return False
    seen.add(l)
    for b in f.blocks:
        for st in b["stmts"]:
            if st["k"] != "assign":
                continue
            dest, rv = st["place"], st["rv"]
            for pl in rvalue_places(rv):
                if pl["l"] != l:
                    continue
                if rv["k"] == "discr":
                    continue        # which variant an Option<&mut T> is: no element read
                reborrow = rv["k"] in ("ref", "rawptr") and len(pl["p"]) == 1 and pl["p"][0]["k"] == "deref"
                # moved as a whole, or taken out of the Some(..) / Ok(..) it was returned in
                moved = rv["k"] in ("use", "cast") and all(e["k"] in ("downcast", "field") for e in pl["p"])
                if (reborrow or moved) and not dest["p"] and dest["l"] != 0:
                    if ref_is_read(f, dest["l"], seen):
                        return True
                else:
                    return True
        t = b["term"]
        if t["k"] == "call":
            nm = callee_names(t["func"])
            last = nm[0].rsplit("::", 1)[-1] if nm else ""
            for ai, a in enumerate(t["args"]):
                pl = op_place(a)
                if pl is not None and pl["l"] == l:
                    if ai == 0 and not pl["p"] and last in ("write", "write_volatile", "write_unaligned"):
                        continue
                    return True
        elif t["k"] == "switch":
            pl = op_place(t["discr"])
            if pl is not None and pl["l"] == l:
                return True
    return False


def range_end(f, du, op, ty):
    """the upper end of a range-typed index operand: ('end', operand, inclusive) | ('open',) | None (not understood)"""
    if op.get("k") == "const":
        return ("open",) if "RangeFull" in ty else None
    l = op_local(op)
    d = du.sole_def(l) if l is not None else None
    if d is None:
        return None
    if d[2] == "call":
        if any(n.endswith("RangeInclusive::new") for n in callee_names(d[3]["func"])) and len(d[3]["args"]) == 2:
            return ("end", d[3]["args"][1], True)
        return None
    rv = d[3]["rv"]
    if rv["k"] == "use":
        return range_end(f, du, rv["op"], ty)
    if rv["k"] != "agg" or rv["agg"].get("k") != "adt":
        return None
    name = short(rv["agg"].get("path", "")).rsplit("::", 1)[-1]
    ops = rv["ops"]
    if name == "Range" and len(ops) == 2:
        return ("end", ops[1], False)
    if name == "RangeTo" and len(ops) == 1:
        return ("end", ops[0], False)
    if name == "RangeToInclusive" and len(ops) == 1:
        return ("end", ops[0], True)
    if name in ("RangeFrom", "RangeFull"):
        return ("open",)
    return None


def storage_reads(F, f, du, cfgd):
    """Every point of f where elements of the stack's storage are read or handed out, in program order. Each entry is
    (block, line, spec):
      ('elem', index operand, how)         one slot: `data[i]`, `&data[i]` (unless only stored through), get/get_unchecked/
                                           index(i), first(), `ptr.add(i)` / `*ptr` / ptr.read() on the storage pointer
      ('range', end operand, inclusive, how)  the slots below an end: data[a..b], get(a..b), from_raw_parts(ptr, n)
      ('open', how)                        all slots up to the end of the storage: data[a..], data[..]
      ('whole', how)                       the storage is passed to something whose element accesses are not modelled
      ('fmt', how)                         the storage is passed to a formatter (derived Debug): diagnostics, not a stack read"""
    out = []
    kinds = {}

    def kind(l):
        if l not in kinds:
            kinds[l] = storage_kind(F, f, du, l, cfgd)
        return kinds[l]

    def place_sink(pl, bi, ln, as_ref_into=None):
        base = kind(pl["l"])
        if base is None:
            return
        if base == "S":
            idx = [e for e in pl["p"] if e["k"] == "index"]
            odd = [e for e in pl["p"] if e["k"] not in ("deref", "field", "downcast", "index")]
            if odd:
                out.append((bi, ln, ("whole", "a %s projection" % odd[0]["k"])))
            elif idx:
                if as_ref_into is not None and not ref_is_read(f, as_ref_into):
                    return
                out.append((bi, ln, ("elem", {"k": "copy", "place": {"l": idx[0]["local"], "p": []}}, "data[i]")))
        elif base == "P" and as_ref_into is None and pl["p"] and pl["p"][0]["k"] == "deref":
            out.append((bi, ln, ("elem", {"k": "const", "val": 0, "ty": "usize"}, "*ptr")))

    for bi, b in enumerate(f.blocks):
        for st in b["stmts"]:
            if st["k"] != "assign":
                continue
            rv = st["rv"]
            for pl in rvalue_places(rv):
                if not pl["p"]:
                    continue
                if rv["k"] in ("ref", "rawptr"):
                    if [e for e in pl["p"] if e["k"] == "index"]:
                        place_sink(pl, bi, st.get("ln"), as_ref_into=st["place"]["l"] if not st["place"]["p"] else None)
                else:
                    place_sink(pl, bi, st.get("ln"))
        t = b["term"]
        if t["k"] != "call":
            continue
        nm = callee_names(t["func"])
        last = nm[0].rsplit("::", 1)[-1] if nm else "?"
        tys = t.get("arg_tys") or []
        for ai, a in enumerate(t["args"]):
            pl = op_place(a)
            if pl is None:
                continue
            if pl["p"]:
                place_sink(pl, bi, t.get("ln"))
                continue
            k = kind(pl["l"])
            if k is None:
                continue
            how = "%s()" % last
            if any(n.startswith("std::fmt::") or n.startswith("core::fmt::") for n in nm):
                out.append((bi, t.get("ln"), ("fmt", how)))
            elif k == "S":
                if ai == 0 and last in S_NO_ELEMENT + S_WRITE_ONLY:
                    continue
                if ai == 0 and last in S_ELEMENT + S_FIRST and last.endswith("_mut") and not t["dest"]["p"] and t["dest"]["l"] != 0 \
                        and not ref_is_read(f, t["dest"]["l"]):
                    continue        # the slot(s) are only stored into
                if ai == 0 and last in S_ELEMENT and len(t["args"]) == 2:
                    ty = tys[1] if len(tys) > 1 else ""
                    if ty == "usize":
                        out.append((bi, t.get("ln"), ("elem", t["args"][1], how)))
                        continue
                    r = range_end(f, du, t["args"][1], ty) if "Range" in ty else None
                    if r is not None and r[0] == "end":
                        out.append((bi, t.get("ln"), ("range", r[1], r[2], how)))
                        continue
                    if r is not None:
                        out.append((bi, t.get("ln"), ("open", how)))
                        continue
                if ai == 0 and last in S_FIRST:
                    out.append((bi, t.get("ln"), ("elem", {"k": "const", "val": 0, "ty": "usize"}, how)))
                    continue
                out.append((bi, t.get("ln"), ("whole", how)))
            else:
                if ai == 0 and last in P_NO_ELEMENT:
                    continue
                if ai == 0 and last in P_STEP and len(t["args"]) == 2:
                    out.append((bi, t.get("ln"), ("elem", t["args"][1], "ptr.%s" % how)))
                elif ai == 0 and last in P_READ:
                    out.append((bi, t.get("ln"), ("elem", {"k": "const", "val": 0, "ty": "usize"}, "ptr.%s" % how)))
                elif ai == 0 and last in P_SLICE and len(t["args"]) == 2:
                    out.append((bi, t.get("ln"), ("range", t["args"][1], False, how)))
                else:
                    out.append((bi, t.get("ln"), ("whole", "ptr -> %s" % how)))
    # the storage itself as the function's result
    if kind(0) is not None:
        out.append((len(f.blocks) - 1, None, ("whole", "returned to the caller")))
    return out


def aff_text(f, aff):
    """an affine form in words: {'h': 1, 'p2': -1, 1: -1} -> 'height - n - 1'"""
    def name(k):
        if k == "h":
            return "height"
        if k == "L":
            return "capacity"
        if k.startswith("p") and k[1:].isdigit():
            return f.local_name(int(k[1:])) or "argument %s" % k[1:]
        if k.startswith("i") and k[1:].isdigit():
            return "loop variable %s" % (f.local_name(int(k[1:])) or k)
        return k
    terms = []
    for k in sorted((k for k in aff if k != 1), key=lambda k: (aff[k] < 0, str(k))):
        if aff[k]:
            terms.append((aff[k], name(k) if abs(aff[k]) == 1 else "%d*%s" % (abs(aff[k]), name(k))))
    if aff.get(1, 0) or not terms:
        terms.append((aff.get(1, 0), "%d" % abs(aff.get(1, 0))))
    out = ""
    for c, t in terms:
        out += (" - " if c < 0 else " + ") + t if out else ("-" if c < 0 else "") + t
    return out


def state_text(f, env):
    """a counterexample state of aff_implied in words"""
    if not env:
        return "no admitted state"
    parts = ["height %d" % env["h"], "capacity %d" % env["L"]]
    for k in sorted(k for k in env if k not in ("h", "L")):
        if k.startswith("p") and k[1:].isdigit():
            parts.append("%s = %d" % (f.local_name(int(k[1:])) or "argument %s" % k[1:], env[k]))
        else:
            parts.append("%s = %d" % (k, env[k]))
    return ", ".join(parts)


def rule_n(F):
    """C14.N: every element the value stack hands out is a live one. Every way the storage `data` is read - `data[i]`,
    `&data[i]` that is read through, get / get_unchecked / index with an index or a range, first(), the storage pointer
    (`as_ptr().add(i)`, `*ptr`, from_raw_parts) - happens only where the guards imply that the slot(s) lie below the height
    (a read at or beyond the height must produce nil instead: pop_n and clear_until lower the height without clearing the
    slots, so the slots above it hold stale values). A use of the storage whose element accesses are not modelled is
    undecided, never ok."""
    res = []
    adt = "collections::value_stack::ValueStack"
    cfgd = ctx(F, adt)
    n = 0
    fns = stack_fns(F, adt)
    dus = dict((id(f), DefUse(f)) for f in fns)
    reads = dict((id(f), storage_reads(F, f, dus[id(f)], cfgd)) for f in fns)
    # methods (with their closures) that read the storage themselves
    readers = set()
    for f in fns:
        if [r for r in reads[id(f)] if r[2][0] != "fmt"]:
            readers.add(f.root if f.is_closure else f.short)
    # .. or get their elements from such a method called on the same stack (transitively)
    self_calls = {}
    for f in fns:
        me = f.root if f.is_closure else f.short
        for bi, t in mu.calls(f):
            if t["args"] and is_self_arg(f, dus[id(f)], t["args"][0], cfgd):
                for x in callee_names(t["func"]):
                    if x != me and F.fn(x, required=False) is not None:
                        self_calls.setdefault(id(f), []).append((bi, t, x))
    grew = True
    while grew:
        grew = False
        for f in fns:
            me = f.root if f.is_closure else f.short
            if me not in readers and any(x in readers for _bi, _t, x in self_calls.get(id(f), [])):
                readers.add(me)
                grew = True
    for f in fns:
        du = dus[id(f)]
        fname = (f.root or f.short).rsplit("::", 1)[-1] + ("{closure}" if f.is_closure else "")
        inherited = closure_guard(F, f, cfgd)
        k = 0
        # elements obtained through another method of the stack (last() = peek_last(0), Display over as_slice()): that
        # method's own reads are decided where they happen; the call site stands for the read it replaced
        delegated = []
        for bi, t, x in self_calls.get(id(f), []):
            if x in readers and not [d for d in delegated if d[3] is t]:
                delegated.append((bi, t.get("ln"), ("delegated", x.rsplit("::", 1)[-1]), t))
        delegated = [d[:3] for d in delegated]
        for bi, ln, spec in reads[id(f)] + delegated:
            loc = f.loc(ln)
            if spec[0] == "delegated":
                key = "C14/N/ValueStack::%s/read%s-is-below-height" % (fname, "" if k == 0 else "#%d" % k)
                k += 1
                n += 1
                res.append(ok("C14.N", key, loc, "takes its elements from ValueStack::%s on the same stack, whose reads of the storage are "
                              "decided there" % spec[1]))
                continue
            if spec[0] == "fmt":
                res.append(note("C14.N", "C14/N/ValueStack::%s/storage-formatted" % fname, loc,
                                "the storage is handed to a formatter (%s): diagnostic output, not a stack read" % spec[1]))
                continue
            key = "C14/N/ValueStack::%s/read%s-is-below-height" % (fname, "" if k == 0 else "#%d" % k)
            k += 1
            if spec[0] == "whole":
                res.append(undecided("C14.N", key, loc, "ValueStack::%s passes the whole storage, slots above the height included, on (%s): "
                                     "which elements are read there is not modelled" % (fname, spec[1])))
                continue
            if spec[0] == "open":
                n += 1
                res.append(bad("C14.N", key, loc, "ValueStack::%s takes the storage up to its end (%s), not up to the height: the slots at and "
                               "above the height hold the stale values pop_n / clear_until left there" % (fname, spec[1])))
                continue
            if spec[0] == "range":
                _tag, end_op, inclusive, how = spec
                side = []
                aff = aff_of(f, du, end_op, cfgd, side=side)
                lin = lin_of(f, du, end_op, cfgd)
                limit = -1 if inclusive else 0
                pred = (lambda v, h, L: v < h) if inclusive else (lambda v, h, L: v <= h)
                if aff is not None:
                    n += 1
                    good, cex = aff_implied(aff_guards(f, du, bi, cfgd, side=side) + side, aff, pred=pred)
                    if good:
                        res.append(ok("C14.N", key, loc, "%s hands out slots below %s, which is at most the height" % (how, aff)))
                    else:
                        res.append(bad("C14.N", key, loc, "ValueStack::%s hands out the slots below %s (%s), which can reach beyond the height "
                                       "(%s): stale values left by pop_n / clear_until are handed out" % (fname, aff_text(f, aff), how, state_text(f, cex))))
                elif (lin.base == ("h",) and lin.off <= limit) or (lin.base[0] == "sat" and lin.base[1] == ("h",) and lin.base[2] <= limit) \
                        or (lin.base[0] == "min" and (("h",), 0) in lin.base[1:] and not inclusive):
                    n += 1
                    res.append(ok("C14.N", key, loc, "%s hands out slots below %r, which is at most the height" % (how, lin)))
                else:
                    res.append(undecided("C14.N", key, loc, "end of the range of slots handed out (%s) is not an affine form of height and "
                                         "parameters" % how))
                continue
            _tag, idx_op, how = spec
            via = "" if how == "data[i]" else " (%s)" % how
            # the slot must have been live when the method was entered: index and guards are taken over the height at entry
            # (`count -= 1; data[count]` reads slot entry-height - 1)
            lin = at_entry(f, du, idx_op, cfgd, (bi, "term"))
            if lin is None:
                res.append(undecided("C14.N", key, loc, "index of the slot read%s follows a store to the height that is not of the form "
                                     "height +/- k: not decided" % via))
                continue
            guards = entry_guards(f, du, bi, cfgd) + inherited
            ig = getattr(lin, "implied_ge", None)
            if ig is not None and ig[0] == ("h",):
                guards = guards + [("Ge", Lin(("h",)), Lin(("const",), ig[1]), True)]
            if lin.base == ("h",):
                off = lin.off
                n += 1
                if off < 0 and implied(guards, lambda h, L, off=off: h + off >= 0):
                    res.append(ok("C14.N", key, loc, "reads slot height%+d%s under a guard that implies height >= %d" % (off, via, -off)))
                else:
                    res.append(bad("C14.N", key, loc, "ValueStack::%s reads slot height%+d%s without a guard that keeps it below the height: "
                                   "a stale value left by pop_n / clear_until is returned where nil is due" % (fname, off, via)))
            elif lin.base[0] == "sat" and lin.base[1] == ("h",):
                off = lin.base[2]
                n += 1
                if implied(guards, lambda h, L, off=off: h + off >= 0):
                    res.append(ok("C14.N", key, loc, "reads slot max(height%+d, 0)%s where the guard implies height >= %d" % (off, via, -off)))
                else:
                    res.append(bad("C14.N", key, loc,
                                   "ValueStack::%s reads slot max(height%+d, 0)%s: on an empty stack that is slot 0, which holds whatever "
                                   "pop_n / clear_until left there - a read at or beyond the height must be nil" % (fname, off, via)))
            else:
                side = []
                aff = aff_of(f, du, idx_op, cfgd, side=side)
                if aff is None:
                    res.append(undecided("C14.N", key, loc, "index of the slot read%s is not an affine form of height, parameters and loop "
                                         "variables: not decided" % via))
                else:
                    n += 1
                    good, cex = aff_implied(aff_guards(f, du, bi, cfgd, side=side) + side, aff)
                    if good:
                        res.append(ok("C14.N", key, loc, "index %s%s is below the height in every state the guards admit" % (aff, via)))
                    elif any(isinstance(k_, str) and k_.startswith("v") for k_ in aff):
                        n -= 1
                        res.append(undecided("C14.N", key, loc, "index of the slot read%s is a re-assigned local whose bound by the guards is "
                                             "not established" % via))
                    else:
                        res.append(bad("C14.N", key, loc, "ValueStack::%s reads slot `%s`%s which can be at or beyond the height (%s): a stale value "
                                       "is returned where nil is due" % (fname, aff_text(f, aff), via, state_text(f, cex))))
    if n < 2:
        raise AnchorMissing("height-relative reads of ValueStack.data (found %d)" % n)
    return res


def height_read_site(fn, du, op, cfgd, site, depth=0):
    """where the height field is read from memory for the value of `op`: (block, statement index | 'term'), None if it is not
    derived from the height. `site` is where `op` itself is used."""
    p = op_place(op)
    if p is None or depth > 12:
        return None
    if p["p"]:
        names = [n for n in field_names_of_place(fn, du, p) if n not in ("0", "1", "pointer")]
        if names[-1:] == [cfgd["height"]]:
            return site
    d = du.sole_def(p["l"])
    if d is None:
        return None
    here = (d[0], d[1])
    if d[2] == "call":
        t = d[3]
        if call_passthrough(fn, du, t, {"l": p["l"], "p": []}, cfgd) is not None and \
                (t["func"].get("local") or t["func"].get("resolved_local")):
            return here         # read inside the stack's own helper
        for a in t["args"]:
            r = height_read_site(fn, du, a, cfgd, here, depth + 1)
            if r is not None:
                return r
        return None
    rv = d[3]["rv"]
    if rv["k"] in ("use", "cast"):
        return height_read_site(fn, du, rv["op"], cfgd, here, depth + 1)
    if rv["k"] == "bin":
        return height_read_site(fn, du, rv["l"], cfgd, here, depth + 1) or height_read_site(fn, du, rv["r"], cfgd, here, depth + 1)
    return None


def site_precedes(cfg, a, b):
    """does program point a = (block, index) execute before point b on every path to b?"""
    if a[0] == b[0]:
        return b[1] == "term" or (a[1] != "term" and a[1] < b[1])
    return cfg.dominates(a[0], b[0])


ITER_ADAPTORS = ("into_iter", "rev", "by_ref", "zip", "enumerate", "take", "skip", "copied", "cloned", "peekable", "map", "inspect",
                 "step_by", "take_while", "skip_while", "filter", "fuse")


def yields_at_most_height(F, f, du, op, cfgd, depth=0):
    """does the iterator operand yield at most `height` items? It does when it is (an adaptor that cannot lengthen) an
    iterator over a sub-slice of the storage that ends at or below the height, or over a range 0..e with e <= height;
    for zip one side suffices."""
    l = op_local(op)
    seen = set()
    while l is not None and l not in seen and depth < 8:
        seen.add(l)
        d = du.sole_def(l)
        if d is None:
            return False
        if d[2] == "call":
            t = d[3]
            nm = callee_names(t["func"])
            last = nm[0].rsplit("::", 1)[-1] if nm else ""
            if last in ITER_ADAPTORS and t["args"] and any("iter::" in x for x in nm):
                sides = t["args"][:2] if last == "zip" else t["args"][:1]
                return any(yields_at_most_height(F, f, du, a, cfgd, depth + 1) for a in sides)
            if last in ("iter", "iter_mut") and t["args"] and any("slice::" in x for x in nm):
                return live_subslice(F, f, du, t["args"][0], cfgd)
            return False
        rv = d[3]["rv"]
        if rv["k"] == "use":
            l = op_local(rv["op"])
        elif rv["k"] == "ref" and (not rv["place"]["p"] or all(e["k"] == "deref" for e in rv["place"]["p"])):
            l = rv["place"]["l"]
        elif rv["k"] == "agg":
            rng = range_of_iterator(f, du, {"k": "copy", "place": {"l": l, "p": []}})
            if rng is None:
                return False
            side = []
            lo, hi = aff_of(f, du, rng[0], cfgd, side=side), aff_of(f, du, rng[1], cfgd, side=side)
            return lo is not None and hi is not None and not [k for k in lo if k != 1] and lo.get(1, 0) >= 0 and \
                aff_implied(side, hi, pred=lambda v, h, L: v <= h)[0]
        else:
            return False
    return False


def live_subslice(F, f, du, op, cfgd, depth=0):
    """is the operand (a reborrow of) `storage[a..b]` / get(a..b) with b at or below the height?"""
    l = op_local(op)
    seen = set()
    while l is not None and l not in seen:
        seen.add(l)
        d = du.sole_def(l)
        if d is None:
            return False
        if d[2] == "call":
            t = d[3]
            nm = callee_names(t["func"])
            last = nm[0].rsplit("::", 1)[-1] if nm else ""
            a0 = op_local(t["args"][0]) if t["args"] else None
            if len(t["args"]) == 1 and depth < 3 and (t["func"].get("local") or t["func"].get("resolved_local")) and is_self_arg(f, du, t["args"][0], cfgd):
                # the result of a `&self` method of the same stack (as_slice()): judged in that method
                mine = set(id(x) for x in stack_fns(F, cfgd["adt"]))
                for x in nm:
                    g = F.fn(x, required=False)
                    if g is not None and g.mir and not g.is_closure and g.mir["arg_count"] == 1 and id(g) in mine and g is not f \
                            and g.mir["locals"][1]["ty"].startswith("&") and not g.mir["locals"][1]["ty"].startswith("&mut"):
                        return live_subslice(F, g, DefUse(g), {"k": "copy", "place": {"l": 0, "p": []}}, cfgd, depth + 1)
                return False
            if last not in S_ELEMENT or len(t["args"]) != 2 or a0 is None or storage_kind(F, f, du, a0, cfgd) != "S":
                return False
            r = range_end(f, du, t["args"][1], ((t.get("arg_tys") or ["", ""]) + [""])[1])
            if r is None or r[0] != "end":
                return False
            side = []
            aff = aff_of(f, du, r[1], cfgd, side=side)
            return aff is not None and aff_implied(side, aff, pred=(lambda v, h, L: v < h) if r[2] else (lambda v, h, L: v <= h))[0]
        rv = d[3]["rv"]
        if rv["k"] == "use":
            l = op_local(rv["op"])
        elif rv["k"] == "ref" and rv["place"]["p"] and all(e["k"] == "deref" for e in rv["place"]["p"]):
            l = rv["place"]["l"]
        else:
            return False
    return False


def counts_live_iterations(F, f, du, op, cfgd):
    """is the operand a counter - 0 before a loop, +1 at most once per item - of a loop over an iterator that yields at most
    `height` items (see yields_at_most_height)? Then its value never exceeds the height."""
    cfg = f.cfg
    l = op_local(op)
    seen = set()
    while l is not None and l not in seen:
        seen.add(l)
        defs = [d for d in du.defs.get(l, []) if not d[3].get("place", d[3].get("dest"))["p"]]
        if len(defs) == 1 and defs[0][2] == "assign" and defs[0][3]["rv"]["k"] == "use":
            l = op_local(defs[0][3]["rv"]["op"])
            continue
        break
    if l is None:
        return False
    defs = [d for d in du.defs.get(l, []) if not d[3].get("place", d[3].get("dest"))["p"]]
    if len(defs) != 2 or any(d[2] != "assign" for d in defs):
        return False
    zero = [d for d in defs if d[3]["rv"]["k"] == "use" and d[3]["rv"]["op"].get("k") == "const" and d[3]["rv"]["op"].get("val") == 0]
    inc = [d for d in defs if d not in zero]
    if len(zero) != 1 or len(inc) != 1:
        return False
    rv = inc[0][3]["rv"]
    if rv["k"] == "use":
        pl = op_place(rv["op"])
        dd = du.sole_def(pl["l"]) if pl is not None and [e.get("name") for e in pl["p"]] == ["0"] else None
        rv = dd[3]["rv"] if dd is not None and dd[2] == "assign" else None
    if rv is None or rv["k"] != "bin" or rv["op"] not in ("Add", "AddWithOverflow", "AddUnchecked") or op_local(rv["l"]) != l \
            or rv["r"].get("k") != "const" or rv["r"].get("val") != 1:
        return False
    b_inc, b_zero = inc[0][0], zero[0][0]
    for bn, t in mu.calls(f):
        if not any(x.endswith("Iterator::next") for x in callee_names(t["func"])) or t["target"] is None or not t["args"]:
            continue
        sw = f.blocks[t["target"]]["term"]
        some = dict((v, b) for v, b in sw["targets"]).get(1) if sw["k"] == "switch" else None
        if some is None or not cfg.dominates(some, b_inc):
            continue
        if any(b_inc == s_ or b_inc in cfg.reachable_from(s_, avoid={bn}) for s_ in cfg.succ[b_inc]):
            continue        # more than one increment per item is possible
        if not cfg.dominates(b_zero, bn) or b_zero in cfg.reachable_from(t["target"]):
            continue        # the counter is reset inside the loop
        if yields_at_most_height(F, f, du, t["args"][0], cfgd):
            return True
    return False


def height_minus(f, du, st, cfgd):
    """the operand x when the statement stores `height - x` into the height field, else None"""
    rv = st["rv"]
    if rv["k"] == "use":
        pl = op_place(rv["op"])
        if pl is None or [e.get("name") for e in pl["p"]] not in ([], ["0"]):
            return None
        d = du.sole_def(pl["l"])
        rv = d[3]["rv"] if d is not None and d[2] == "assign" else None
    if rv is None or rv["k"] != "bin" or rv["op"] not in ("Sub", "SubWithOverflow", "SubUnchecked"):
        return None
    a = lin_of(f, du, rv["l"], cfgd)
    return rv["r"] if a.base == ("h",) and a.off == 0 else None


def rule_b(F):
    res = []
    for adt in STACKS:
        cfgd = ctx(F, adt)
        sname = adt.rsplit("::", 1)[-1]
        fns = stack_fns(F, adt)
        if len(fns) < 5:
            raise AnchorMissing("methods of %s" % adt)
        n_stores = 0
        raises = []
        for f in fns:
            du = DefUse(f)
            fname = (f.root or f.short).rsplit("::", 1)[-1] + ("{closure}" if f.is_closure else "")
            inherited = closure_guard(F, f, cfgd)
            counters = {}
            for bi, b in enumerate(f.blocks):
                for st in b["stmts"]:
                    if st["k"] != "assign":
                        continue
                    names = field_names_of_place(f, du, st["place"])
                    meaningful = [n for n in names if n not in ("0", "1", "pointer")]
                    is_height = meaningful[-1:] == [cfgd["height"]] and (st["place"]["p"] and st["place"]["p"][-1]["k"] in ("field", "deref"))
                    if not is_height:
                        continue
                    if st["rv"]["k"] == "agg":
                        continue
                    n_stores += 1
                    if st["rv"]["k"] == "use":
                        val = lin_of(f, du, st["rv"]["op"], cfgd)
                    elif st["rv"]["k"] == "bin" and st["rv"]["op"] in ("Add", "Sub", "AddUnchecked", "SubUnchecked"):
                        # overflow checks off: `(*self).count = Add(copy (*self).count, const 1)` in one statement
                        val = lin_bin(f, du, st["rv"], cfgd)
                    else:
                        val = Lin(("other", st["rv"]["k"]))
                    guards = guards_on_path(f, du, bi, cfgd) + inherited
                    ig = getattr(val, "implied_ge", None)
                    if ig is not None and ig[0] == ("h",):
                        # value taken from the Some arm of checked_sub(height, k): height >= k holds there
                        guards = guards + [("Ge", Lin(("h",)), Lin(("const",), ig[1]), True)]
                    n = counters.get("s", 0)
                    counters["s"] = n + 1
                    key = "C14/B/%s::%s/height-store#%d" % (sname, fname, n)
                    loc = f.loc(st.get("ln"))
                    if val.base == ("h",) and val.off > 0:
                        raises.append((fname, admitted(guards), loc, f))
                        need = lambda h, L, k=val.off: h + k <= L
                        if implied(guards, need):
                            res.append(ok("C14.B", key, loc, "height += %d is guarded: the taken edge implies room" % val.off, guards=str(guards)))
                        else:
                            res.append(bad("C14.B", key, loc,
                                           "%s::%s raises the height by %d without a dominating comparison against the capacity that implies "
                                           "room: the stack can hold more values than its storage (out-of-bounds write / panic instead of a "
                                           "stack-full error)" % (sname, fname, val.off), guards=str(guards)))
                    elif val.base == ("h",) and val.off < 0:
                        k = -val.off
                        if implied(guards, lambda h, L, k=k: h >= k):
                            res.append(ok("C14.B", key, loc, "height -= %d is guarded by a test that implies height >= %d" % (k, k)))
                        else:
                            res.append(bad("C14.B", key, loc, "%s::%s lowers the height by %d without a guard that implies height >= %d: popping an "
                                           "empty stack underflows the height" % (sname, fname, k, k)))
                    elif val.base[0] == "sat":
                        res.append(ok("C14.B", key, loc, "height is lowered with saturating_sub"))
                    elif val.base[0] == "min" and (("h",), 0) in val.base[1:]:
                        res.append(ok("C14.B", key, loc, "height set to min(height, ..): the store can only lower it"))
                    elif val.base == ("h_minus_min",):
                        res.append(ok("C14.B", key, loc, "height is lowered by min(height, n)"))
                    elif val.base == ("const",) and val.off == 0:
                        res.append(ok("C14.B", key, loc, "height reset to 0"))
                    elif val.base == ("h",) and val.off == 0:
                        res.append(ok("C14.B", key, loc, "height unchanged"))
                    elif height_minus(f, du, st, cfgd) is not None and counts_live_iterations(F, f, du, height_minus(f, du, st, cfgd), cfgd):
                        res.append(ok("C14.B", key, loc, "height is lowered by a count of the live elements a loop went through (at most "
                                      "the height)"))
                    else:
                        # caller supplied height
                        pl = op_place(st["rv"]["op"]) if st["rv"]["k"] == "use" else None
                        param = None
                        if pl is not None and not pl["p"]:
                            kind, payload = du.trace_back(pl["l"])
                            if kind == "arg" and 1 <= payload <= f.mir["arg_count"]:
                                param = payload
                        lowering = False
                        if param is not None:
                            # the store sits under a comparison of the parameter with the height that only admits p <= h
                            import itertools
                            ag = aff_guards(f, du, bi, cfgd)
                            pk = "p%d" % param
                            if any(pk in a or pk in b for _op, a, b, _t in ag):
                                lowering = True
                                for L in range(0, 6):
                                    for h in range(0, L + 1):
                                        for pv in range(0, 8):
                                            env = {"h": h, "L": L, pk: pv}
                                            try:
                                                adm = all(CMP[op](aff_eval(a, env), aff_eval(b, env)) == truth for op, a, b, truth in ag)
                                            except KeyError:
                                                adm = True
                                            if adm and pv > h:
                                                lowering = False
                        if lowering:
                            res.append(ok("C14.B", key, loc, "height set to a parameter only where the guards imply parameter <= height: the store can only lower it"))
                        elif param is not None:
                            res.extend(check_set_height_callers(F, f, param, key, loc, sname, fname))
                        else:
                            res.append(undecided("C14.B", key, loc, "stored height expression not recognised: %r" % val))
            # unchecked accesses
            for bi, t in mu.calls(f):
                nm = callee_names(t["func"])
                if not any(n.endswith("get_unchecked") or n.endswith("get_unchecked_mut") for n in nm):
                    continue
                if "Range" in ((t.get("arg_tys") or ["", ""])[1:2] or [""])[0]:
                    continue        # a range of slots: decided with the other sub-slices below
                idx = lin_of(f, du, t["args"][1], cfgd)
                guards = guards_on_path(f, du, bi, cfgd) + inherited
                ig = getattr(idx, "implied_ge", None)
                if ig is not None and ig[0] == ("h",):
                    # index taken from the Some arm of checked_sub(height, k): height >= k holds there
                    guards = guards + [("Ge", Lin(("h",)), Lin(("const",), ig[1]), True)]
                n = counters.get("u", 0)
                counters["u"] = n + 1
                key = "C14/B/%s::%s/unchecked-access#%d" % (sname, fname, n)
                loc = f.loc(t.get("ln"))
                # a height store that dominates the access changes what the field holds - for an index that reads the field
                # after the store; an index computed from the field before the store keeps its value
                cfg = f.cfg
                rsite = height_read_site(f, du, t["args"][1], cfgd, (bi, "term"))
                for b2, blk2 in enumerate(f.blocks):
                    for s2, st2 in enumerate(blk2["stmts"]):
                        if st2["k"] == "assign" and st2["rv"]["k"] in ("use", "bin") and st2["place"]["p"]:
                            nm2 = [n for n in field_names_of_place(f, du, st2["place"]) if n not in ("0", "1", "pointer")]
                            if rsite is not None and not site_precedes(cfg, (b2, s2), rsite):
                                continue
                            if nm2[-1:] == [cfgd["height"]] and (cfg.dominates(b2, bi) and b2 != bi or (b2 == bi)):
                                stored = lin_of(f, du, st2["rv"]["op"], cfgd) if st2["rv"]["k"] == "use" else lin_bin(f, du, st2["rv"], cfgd)
                                if idx.base == ("h",) and stored.base == ("h",):
                                    idx = Lin(("h",), idx.off + stored.off)
                if idx.base == ("h",):
                    off = idx.off
                    # index h+off must be a valid storage slot: 0 <= h+off < L, and for reads below the height
                    if implied(guards, lambda h, L, off=off: 0 <= h + off < L):
                        res.append(ok("C14.B", key, loc, "unchecked index height%+d is within the storage under the dominating guard" % off))
                    else:
                        res.append(bad("C14.B", key, loc, "%s::%s indexes the storage unchecked at height%+d without a guard that keeps it in bounds" % (sname, fname, off)))
                elif loop_index_below_height(f, du, t["args"][1], cfgd):
                    res.append(ok("C14.B", key, loc, "unchecked index is a loop variable of 0..height"))
                else:
                    side = []
                    aff = aff_of(f, du, t["args"][1], cfgd, side=side)
                    if aff is not None:
                        good, cex = aff_implied(aff_guards(f, du, bi, cfgd, side=side) + side, aff, pred=lambda v, h, L: 0 <= v < L)
                        if good:
                            res.append(ok("C14.B", key, loc, "unchecked index %s is within the storage in every state the guards admit" % aff))
                        elif any(isinstance(k_, str) and k_.startswith("v") for k_ in aff):
                            res.append(undecided("C14.B", key, loc, "unchecked index is a re-assigned local whose bound by the guards is not "
                                                 "established"))
                        else:
                            res.append(bad("C14.B", key, loc, "%s::%s indexes the storage unchecked at %s, which can lie outside it (%s)"
                                           % (sname, fname, aff_text(f, aff), state_text(f, cex))))
                    else:
                        res.append(undecided("C14.B", key, loc, "unchecked index expression not recognised: %r" % idx))
            # sub-slices of the storage (storage[a..b], get(a..b), get_unchecked(a..b)): they end at or below the height, so
            # what is iterated / dropped / handed out through them are live elements only
            kr = 0
            for bi, ln, spec in storage_reads(F, f, du, cfgd):
                if spec[0] not in ("range", "open"):
                    continue
                key = "C14/B/%s::%s/storage-range#%d" % (sname, fname, kr)
                kr += 1
                loc = f.loc(ln)
                if spec[0] == "open":
                    res.append(undecided("C14.B", key, loc, "%s::%s takes the storage up to its end (%s), beyond the height: what happens to "
                                         "the dead slots is not modelled" % (sname, fname, spec[1])))
                    continue
                _tag, end_op, inclusive, how = spec
                side = []
                aff = aff_of(f, du, end_op, cfgd, side=side)
                lin = lin_of(f, du, end_op, cfgd)
                limit = -1 if inclusive else 0
                if aff is not None:
                    good, cex = aff_implied(aff_guards(f, du, bi, cfgd, side=side) + side, aff,
                                            pred=(lambda v, h, L: v < h) if inclusive else (lambda v, h, L: v <= h))
                    if good:
                        res.append(ok("C14.B", key, loc, "%s takes the slots below %s, at most the height" % (how, aff)))
                    else:
                        res.append(bad("C14.B", key, loc, "%s::%s takes the slots below %s (%s), which can reach beyond the height (%s): slots "
                                       "that hold no value are treated as elements" % (sname, fname, aff_text(f, aff), how, state_text(f, cex))))
                elif (lin.base == ("h",) and lin.off <= limit) or (lin.base[0] == "min" and (("h",), 0) in lin.base[1:] and not inclusive):
                    res.append(ok("C14.B", key, loc, "%s takes the slots below %r, at most the height" % (how, lin)))
                else:
                    res.append(undecided("C14.B", key, loc, "end of the storage range (%s) not recognised" % how))
        if n_stores < 3:
            raise AnchorMissing("stores to %s.%s (found %d)" % (sname, cfgd["height"], n_stores))
        # one push policy: every site that raises the height admits exactly the states `push` admits ("a write at the
        # current height pushes": same stack-full behaviour whichever way a value gets on top)
        ref = [r for r in raises if r[0] == "push"]
        if not ref:
            raise AnchorMissing("%s::push raising the height" % sname)
        for fname, adm, loc, f in raises:
            if fname == "push":
                continue
            key = "C14/B/%s::%s/raises-height-like-push" % (sname, fname)
            if adm is None or ref[0][1] is None:
                res.append(undecided("C14.B", key, loc, "guards of the height increment not understood"))
            elif adm == ref[0][1]:
                res.append(ok("C14.B", key, loc, "%s raises the height under exactly push's condition" % fname))
            else:
                diff = sorted(adm ^ ref[0][1])[:3]
                res.append(bad("C14.B", key, loc,
                               "%s::%s raises the height under a different condition than push (e.g. height, capacity = %s: %s accepts, "
                               "push %s): a write at the current height is not the same as a push, the stack-full behaviour depends on "
                               "how a value gets on top" % (sname, fname, diff[0], fname if diff[0] in adm else "push rejects; " + fname,
                                                           "rejects" if diff[0] in adm else "accepts")))
    # capacity == storage.len(): who writes BoundedStack.capacity
    writers = set()
    for f in F.fns:
        if not f.mir:
            continue
        for b in f.blocks:
            for st in b["stmts"]:
                if st["k"] == "assign":
                    if mu.field_path(st["place"])[-1:] == ["capacity"] and st["place"]["p"] and "BoundedStack" in st["place"]["p"][-1].get("owner", ""):
                        writers.add(f.short)
                    if st["rv"]["k"] == "agg" and short(st["rv"]["agg"].get("path", "")).endswith("bounded_stack::BoundedStack"):
                        writers.add(f.short)
    if writers <= {"collections::bounded_stack::BoundedStack::new"}:
        res.append(ok("C14.B", "C14/B/BoundedStack/capacity-writers", "", "capacity is set only by BoundedStack::new (together with the storage)"))
    else:
        res.append(bad("C14.B", "C14/B/BoundedStack/capacity-writers", "", "BoundedStack.capacity is written by %s" % sorted(writers)))
    return res


def loop_index_below_height(f, du, op, cfgd):
    """index operand comes out of Iterator::next over a Range whose end derives from the height field"""
    l = op_local(op)
    seen = set()
    while l is not None and l not in seen:
        seen.add(l)
        ds = du.defs.get(l, [])
        if len(ds) != 1:
            return False
        d = ds[0]
        if d[2] == "call":
            nm = callee_names(d[3]["func"])
            if any(n.endswith("Iterator::next") for n in nm):
                # the iterator: Range { start: 0, end: height }
                for b in f.blocks:
                    for st in b["stmts"]:
                        if st["k"] == "assign" and st["rv"]["k"] == "agg" and short(st["rv"]["agg"].get("path", "")).endswith("ops::Range"):
                            end = lin_of(f, du, st["rv"]["ops"][1], cfgd)
                            start = lin_of(f, du, st["rv"]["ops"][0], cfgd)
                            if end.base == ("h",) and end.off == 0 and start.base == ("const",) and start.off == 0:
                                return True
                return False
            return False
        rv = d[3]["rv"]
        if rv["k"] in ("use", "cast"):
            p = op_place(rv["op"])
            if p is None:
                return False
            l = p["l"]
            continue
        return False
    return False


def check_set_height_callers(F, f, param_local, key, loc, sname, fname):
    """clear_until(index): every caller passes a call frame's stack_offset (computed as len - arity <= len)"""
    res = []
    callers = []
    for g in F.fns:
        if not g.mir:
            continue
        for bi, t in mu.calls(g):
            if f.short in callee_names(t["func"]):
                callers.append((g, t))
    if not callers:
        res.append(note("C14.B", key, loc, "%s::%s sets the height to its argument; no caller in the crate" % (sname, fname)))
        return res
    bad_callers = []
    for g, t in callers:
        du = DefUse(g)
        a = t["args"][param_local - 1]
        p = op_place(a)
        names = field_names_of_place(g, du, p) if p is not None else []
        if "stack_offset" not in names:
            bad_callers.append((g, t))
    if bad_callers:
        g, t = bad_callers[0]
        res.append(bad("C14.B", key, g.loc(t.get("ln")), "%s::%s sets the height to a caller-supplied value and %s passes something other than a "
                       "call frame's stack_offset: the height may exceed the number of stored values" % (sname, fname, g.short)))
    else:
        res.append(ok("C14.B", key, loc, "height set to a caller-supplied value; every caller (%d) passes a call frame's stack_offset" % len(callers)))
    return res


def rule_f(F):
    """a failing push performs no store: the Err(Full) exit is not reachable from any store into the storage/height"""
    res = []
    for adt in STACKS:
        cfgd = ctx(F, adt)
        sname = adt.rsplit("::", 1)[-1]
        f = F.fn(adt + "::push")
        cfg = f.cfg
        du = DefUse(f)
        err = [b for b in range(len(f.blocks)) if any(st["k"] == "assign" and st["place"]["l"] == 0 and mu.is_err_aggregate(st["rv"]) for st in f.blocks[b]["stmts"])]
        stores = []
        for bi, b in enumerate(f.blocks):
            for st in b["stmts"]:
                if st["k"] == "assign" and st["place"]["p"] and st["place"]["l"] != 0:
                    names = field_names_of_place(f, du, st["place"])
                    if cfgd["height"] in names or "data" in names or "storage" in names:
                        stores.append(bi)
            t = b["term"]
            if t["k"] == "call" and any(n.endswith("ptr::write") for n in callee_names(t["func"])):
                stores.append(bi)
        key = "C14/F/%s::push/failure-stores-nothing" % sname
        if not err:
            res.append(undecided("C14.F", key, f.loc(), "push has no failure exit"))
            continue
        leak = [e for e in err if any(e in cfg.reachable_from(s_) for s_ in stores)]
        if leak:
            res.append(bad("C14.F", key, f.loc(), "%s::push can report failure after it has already modified the stack" % sname))
        else:
            res.append(ok("C14.F", key, f.loc(), "the stack-full exit is reached without any store (%d store sites)" % len(set(stores))))
        # push is refused only when fewer than `room` slots are free (documented: 2 for the value stack, 1 for the bounded stack)
        room = cfgd["room"]
        key2 = "C14/F/%s::push/refused-only-when-full" % sname
        g = guards_on_path(f, du, err[0], cfgd)
        if implied(g, lambda h, L, room=room: L - h < room):
            res.append(ok("C14.F", key2, f.loc(), "the stack-full edge implies fewer than %d free slot(s)" % room))
        else:
            res.append(bad("C14.F", key2, f.loc(), "%s::push can refuse a value although %d slot(s) are free (guards %s)" % (sname, room, g)))
    return res


def rule_t(F):
    """C14.T: truncation. clear_until(index) with index <= height leaves exactly `index` values and reports the value that
    was on top before (last()); decided by evaluating the body for every small (height, capacity, index) with
    index <= height. index > height is outside the property and not judged."""
    from cao import mirexec as mx
    res = []
    f = F.fn("collections::value_stack::ValueStack::clear_until")
    if not f.mir or f.mir["arg_count"] != 2:
        raise AnchorMissing("MIR of ValueStack::clear_until(&mut self, index)")
    key = "C14/T/ValueStack::clear_until/truncates-and-reports-the-old-top"

    def calls(names, argv, st):
        last = names[0].rsplit("::", 1)[-1] if names else "?"
        if names and names[0].endswith("ValueStack::last") and argv and argv[0] == ("self",):
            h = st.fields["count"]
            return ("top", h) if h > 0 else ("nil",)
        if last == "len" and argv and argv[0] == ("ref", ("data",)):
            return st.fields["__L"]
        if last in ("min", "max") and len(argv) == 2 and all(isinstance(a, int) for a in argv):
            return min(argv) if last == "min" else max(argv)
        if last == "saturating_sub" and len(argv) == 2 and all(isinstance(a, int) for a in argv):
            return max(argv[0] - argv[1], 0)
        raise mx.Unknown("call %s" % (names[0] if names else "?"))

    def is_nil(v):
        return v == ("nil",) or (isinstance(v, tuple) and v[:1] == ("agg",) and v[2] == "Nil")

    cases = 0
    for L in range(1, 6):
        for h in range(0, L + 1):
            for idx in range(0, h + 1):
                try:
                    o = mx.run(f, {1: ("self",), 2: idx}, {"count": h, "data": ("data",), "__L": L}, calls)
                except mx.Unknown as e:
                    return [undecided("C14.T", key, f.loc(), "clear_until could not be evaluated over the small domain: %s" % e)]
                cases += 1
                want = ("top", h) if h > 0 else ("nil",)
                got_h = o.fields["count"]
                if o.panicked:
                    return [bad("C14.T", key, f.loc(), "ValueStack::clear_until(%d) panics (%s) on a stack of height %d, capacity %d: truncating "
                                "to a height at or below the current one must succeed" % (idx, o.panicked, h, L))]
                if got_h != idx:
                    return [bad("C14.T", key, f.loc(), "ValueStack::clear_until(%d) on a stack of height %d (capacity %d) leaves height %s: "
                                "truncating to a height at or below the current one must leave exactly that many values" % (idx, h, L, got_h))]
                if not (o.ret == want or (is_nil(o.ret) and want == ("nil",))):
                    return [bad("C14.T", key, f.loc(), "ValueStack::clear_until(%d) on a stack of height %d (capacity %d) returns %s where "
                                "the value on top before the truncation (last()) is due: the caller (Return) loses its result"
                                % (idx, h, L, "nil" if is_nil(o.ret) else o.ret))]
    # an index above the height: a truncation never raises the height (the slots above it hold stale values, and beyond
    # the capacity there is no slot at all)
    for L in range(1, 6):
        for h in range(0, L + 1):
            for idx in range(h + 1, L + 3):
                try:
                    o = mx.run(f, {1: ("self",), 2: idx}, {"count": h, "data": ("data",), "__L": L}, calls)
                except mx.Unknown as e:
                    return [undecided("C14.T", key, f.loc(), "clear_until could not be evaluated over the small domain: %s" % e)]
                cases += 1
                if not o.panicked and isinstance(o.fields["count"], int) and o.fields["count"] > h:
                    return [bad("C14.T", key, f.loc(), "ValueStack::clear_until(%d) on a stack of height %d (capacity %d) raises the height to %d: "
                                "the stack then reports values it never stored (stale slots) and, past the capacity, more values than "
                                "it has slots - the next pop indexes out of bounds" % (idx, h, L, o.fields["count"]))]
    return [ok("C14.T", key, f.loc(), "evaluated for %d (height, capacity, index) cases: height becomes index, result is the old top" % cases)]


RULES = [
    Rule("C14.T", rule_t, 1, "clear_until truncates to the given height and reports the old top (all small cases)"),
    Rule("C14.N", rule_n, 10, "elements handed out are below the height (reads at or beyond it are nil): every read of the storage, "
                              "by index, slice method, sub-range or storage pointer"),
    Rule("C14.B", rule_b, 14, "guarded height changes, unchecked accesses and storage sub-ranges of both stacks"),
    Rule("C14.F", rule_f, 4, "a failing push leaves the contents unchanged and happens only when the stack is full"),
]
