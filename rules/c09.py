"""C09 — Standard-library functions meet their contracts.

The contracts (filter/map/any/min/max/sorted/to_array results) are behavioural over tables and callbacks and are NOT
decided. Claimed, as necessary structural conditions:

  C09.T  wiring table: every "__name" used by a Card::call_native in stdlib.rs is registered by register_native_stdlib with
         a wrapper of the same arity as the number of argument cards; __min / __max are native_minmax::<_, true/false>
         and inside it LESS selects `<` on the true edge and `>` on the false edge; every library function is part of
         standard_library().
  C09.N  inputs are not mutated: no native derives a mutable table reference from its `iterable` parameter.
  C09.G  the natives' rooting hazards (callbacks that allocate) are the C02.R instances located in stdlib.rs.
"""
from cao.facts import (AnchorMissing, callee_names, short, op_local, op_place, DefUse, hir_walk, hir_callee, hir_strip, hir_local_id)
from cao.rules import Rule, ok, bad, undecided, note, R
from cao import mirutil as mu
from cao import hirutil as hu

EXPLANATION = (
    "Only the wiring of the library is shape: C09.T joins three tables read from the resolved HIR — the native names "
    "referenced by the library's card programs (string literals of Card::call_native with their argument counts), the "
    "names registered in Vm::register_native_stdlib with the arity of the into_fK wrapper and the resolved function "
    "(including the const generic of native_minmax), and the functions added to standard_library(). C09.N is a taint "
    "rule: no &mut CaoLangTable / as_table_mut / get_table_mut / TryFrom<Value> for &mut CaoLangTable is applied to a "
    "value derived from the `iterable` parameter of a native. C09.G re-reports the rooting hazards of C02.R that lie in "
    "stdlib.rs. The functional contracts (which rows filter keeps, stability of sorted, ties in min/max) are NOT decided."
)
ASSUMPTIONS = ["C18.O (the wrappers pass arguments in declaration order)"]


def rule_t(F):
    res = []
    # 1. names used by the card programs
    used = {}
    for f in F.fns:
        if not f.hir or f.is_closure or not f.short.startswith("stdlib::"):
            continue
        for x in hir_walk(f.hir["body"]):
            if x.get("k") == "call" and any(n.endswith("Card::call_native") for n in hir_callee(x)):
                a0 = hir_strip(x["args"][0])
                if a0.get("k") == "lit" and a0["lit"]["k"] == "str":
                    name = a0["lit"]["v"]
                    nargs = None
                    a1 = hir_strip(x["args"][1])
                    # vec![..] expands to into_vec(box [..]) / array literal: count the elements of the innermost array
                    for y in hir_walk(a1):
                        if y.get("k") == "array":
                            nargs = len(y["elems"])
                    used[name] = (f, nargs, x["ln"])
    # 2. registered names
    reg = {}
    rf = F.fn("vm::Vm::register_native_stdlib")
    for x in hir_walk(rf.hir["body"]):
        if x.get("k") == "mcall" and x["name"] == "_register_native_function":
            a0 = hir_strip(x["args"][0])
            if a0.get("k") == "lit":
                name = a0["lit"]["v"]
                wrap = hir_strip(x["args"][1])
                arity = None
                target = None
                targs = None
                if wrap.get("k") == "call":
                    wn = (hir_callee(wrap) or [""])[0]
                    if wn.startswith("traits::into_f"):
                        arity = int(wn[len("traits::into_f"):])
                    inner = hir_strip(wrap["args"][0])
                    if inner.get("k") == "path":
                        target = short(inner["path"]["res"].get("path", ""))
                        targs = inner["path"].get("args")
                reg[name] = (arity, target, targs, x["ln"])
    if not used or not reg:
        raise AnchorMissing("native names in stdlib.rs / register_native_stdlib")
    for name, (f, nargs, ln) in sorted(used.items()):
        key = "C09/T/%s/registered-with-matching-arity" % name
        if name not in reg:
            res.append(bad("C09.T", key, f.loc(ln), "std.%s calls native `%s`, which register_native_stdlib never registers: every call fails with ProcedureNotFound" % (f.name, name)))
        elif reg[name][0] != nargs:
            res.append(bad("C09.T", key, f.loc(ln), "std.%s passes %s argument(s) to `%s`, which is registered with a %s-ary wrapper" % (f.name, nargs, name, reg[name][0])))
        else:
            res.append(ok("C09.T", key, f.loc(ln), "`%s`: %d argument card(s), registered as %s (arity %d)" % (name, nargs, reg[name][1], reg[name][0])))
    for name in sorted(set(reg) - set(used)):
        res.append(note("C09.T", "C09/T/%s/unused" % name, rf.loc(reg[name][3]), "registered native `%s` is not used by the library" % name))
    # 3. min / max polarity
    want = {"__min": "true", "__max": "false"}
    for name, pol in want.items():
        key = "C09/T/%s/polarity" % name
        if name not in reg:
            continue
        arity, target, targs, ln = reg[name]
        if target == "stdlib::native_minmax" and targs and targs[-1] == pol:
            res.append(ok("C09.T", key, rf.loc(ln), "%s = native_minmax::<_, %s>" % (name, pol)))
        else:
            res.append(bad("C09.T", key, rf.loc(ln), "%s is registered as %s::<%s>, expected native_minmax::<_, %s>" % (name, target, targs, pol)))
    mm = F.fn("stdlib::native_minmax")
    sel = None
    for x in hir_walk(mm.hir["body"]):
        if x.get("k") == "if":
            c = hu.strip_casts(x["cond"])
            if c.get("k") == "path" and c["path"]["res"].get("k") == "def" and short(c["path"]["res"].get("path", "")).endswith("LESS"):
                t = [y for y in hir_walk(x["then"]) if y.get("k") == "bin"]
                e = [y for y in hir_walk(x["else"]) if y.get("k") == "bin"] if x.get("else") else []
                if t and e:
                    sel = (t[0]["op"], e[0]["op"], x["ln"],
                           hu.local_name(t[0]["l"]), hu.local_name(t[0]["r"]), hu.local_name(e[0]["l"]), hu.local_name(e[0]["r"]))
    if sel is None:
        res.append(undecided("C09.T", "C09/T/native_minmax/less-selects-lt", mm.loc(), "selection on LESS not recognised"))
    elif sel[0] == "Lt" and sel[1] == "Gt" and sel[3] == sel[5] and sel[4] == sel[6]:
        res.append(ok("C09.T", "C09/T/native_minmax/less-selects-lt", mm.loc(sel[2]), "LESS => candidate < best, otherwise candidate > best (strict: the first extreme entry wins)"))
    else:
        res.append(bad("C09.T", "C09/T/native_minmax/less-selects-lt", mm.loc(sel[2]), "native_minmax compares with %s when LESS and %s otherwise (operands %s): min/max are swapped or ties no longer keep the first entry" % (sel[0], sel[1], sel[3:])))
    # 4. every library function is exported
    lib = F.fn("stdlib::standard_library")
    exported = {}
    for x in hir_walk(lib.hir["body"]):
        if x.get("k") == "mcall" and x["name"] == "push":
            for y in hir_walk(x["args"][0]):
                if y.get("k") == "lit" and y["lit"]["k"] == "str":
                    nm = y["lit"]["v"]
                if y.get("k") == "call":
                    c = hir_callee(y)
                    if c and c[0].startswith("stdlib::"):
                        exported[nm] = c[0]
    expected = {"filter": "stdlib::filter", "any": "stdlib::any", "map": "stdlib::map", "min": "stdlib::min", "max": "stdlib::max",
                "sorted": "stdlib::sorted", "to_array": "stdlib::to_array", "min_by_key": "stdlib::min_by_key", "max_by_key": "stdlib::max_by_key",
                "sorted_by_key": "stdlib::sorted_by_key"}
    for nm, fn in expected.items():
        key = "C09/T/std.%s/exported" % nm
        if exported.get(nm):
            res.append(ok("C09.T", key, lib.loc(), "std.%s = %s()" % (nm, exported[nm])))
        else:
            res.append(bad("C09.T", key, lib.loc(), "the documented library function std.%s is not part of standard_library()" % nm))
    return res


def rule_n(F):
    res = []
    MUTATORS = ("as_table_mut", "get_table_mut", "keys_mut", "insert", "append", "pop", "remove")
    for f in F.fns:
        if not f.mir or f.is_closure or not f.short.startswith("stdlib::native_"):
            continue
        du = DefUse(f)
        # taint from parameter `iterable` (local 2)
        names = [f.local_name(l) for l in range(len(f.mir["locals"]))]
        if "iterable" not in names:
            res.append(undecided("C09.N", "C09/N/%s/input-not-mutated" % f.name, f.loc(), "no `iterable` parameter"))
            continue
        src = names.index("iterable")
        tainted = {src}
        changed = True
        while changed:
            changed = False
            for b in f.blocks:
                for st in b["stmts"]:
                    if st["k"] == "assign" and not st["place"]["p"]:
                        from cao.facts import rvalue_places
                        if any(p["l"] in tainted for p in rvalue_places(st["rv"])) and st["place"]["l"] not in tainted:
                            tainted.add(st["place"]["l"])
                            changed = True
                t = b["term"]
                if t["k"] == "call" and not t["dest"]["p"]:
                    nm = callee_names(t["func"])
                    if any((op_place(a) or {}).get("l") in tainted for a in t["args"]) and t["dest"]["l"] not in tainted:
                        if any(n.rsplit("::", 1)[-1] in ("as_ref", "as_table", "iter", "next", "enumerate", "skip", "branch", "into_iter", "unwrap", "nth_key", "get",
                                                          "deref", "map", "copied", "len") for n in nm):
                            tainted.add(t["dest"]["l"])
                            changed = True
        bad_calls = []
        for bi, t in mu.calls(f):
            nm = callee_names(t["func"])
            last = nm[0].rsplit("::", 1)[-1]
            if last in MUTATORS and t["args"] and (op_place(t["args"][0]) or {}).get("l") in tainted:
                recv_ty = t.get("arg_tys", [""])[0]
                if "CaoLangTable" in recv_ty or "CaoLangObject" in recv_ty or "value::Value" in recv_ty:
                    bad_calls.append((last, t.get("ln")))
            if any("TryFrom<value::Value>" in n and "&mut" in n for n in nm) and any((op_place(a) or {}).get("l") in tainted for a in t["args"]):
                bad_calls.append(("try_from(&mut CaoLangTable)", t.get("ln")))
        key = "C09/N/%s/input-not-mutated" % f.name
        if bad_calls:
            res.append(bad("C09.N", key, f.loc(bad_calls[0][1]), "%s obtains mutable access to its input table (%s): library functions must not modify their input" % (f.name, bad_calls[0][0])))
        else:
            res.append(ok("C09.N", key, f.loc(), "no mutable table access is derived from `iterable` (%d locals derived from it)" % len(tainted)))
    if len(res) < 3:
        raise AnchorMissing("stdlib natives (found %d)" % len(res))
    return res


def rule_g(F):
    from rules import c02
    out = []
    for r in c02.rule_r(F):
        if "stdlib.rs" in (r["loc"] or "") or "/native_" in r["key"]:
            out.append(R("C09.G", r["key"].replace("C02/R/", "C09/G/"), r["status"], r["loc"], r["msg"], **r["data"]))
    return out


def rule_i(F):
    """no iterator over (or reference into) the input table is alive across a callback: in the natives every loop that
    calls run_function iterates over an owned copy of the rows. The key function is a script; it can reach the same table
    through a global or a captured variable and change it, which reallocates the storage such an iterator points into."""
    from cao.facts import hir_walk, hir_callee, hir_strip
    from cao import hirutil as hu
    from cao import scoping as sc
    res = []
    n = 0
    for name in ("stdlib::native_minmax", "stdlib::native_sorted"):
        f = F.fn(name)
        k = 0
        for s_ in sc.searches(f):
            if s_["kind"] != "for":
                continue
            if not any(y.get("k") == "mcall" and any(c.endswith("Vm::run_function") for c in hir_callee(y)) for y in hir_walk(s_["node"])):
                continue
            n += 1
            key = "C09/I/%s/callback-loop-iterates-a-copy%s" % (f.name, "" if k == 0 else "#%d" % k)
            k += 1
            # the iterated expression (before iter/enumerate/skip adapters)
            scrut = hir_strip(s_["node"]["scrut"])
            it = hu.strip_casts(scrut["args"][0]) if scrut.get("k") == "call" and scrut["args"] else scrut
            borrowed = [y for y in hir_walk(it) if y.get("k") == "mcall" and y["name"] in ("iter", "iter_mut", "keys", "keys_mut")
                        and any("cao_lang_table::CaoLangTable::" in c or "hash_map::CaoHashMap::" in c for c in hir_callee(y))]
            if borrowed:
                res.append(bad("C09.I", key, f.loc(s_["ln"]),
                               "%s calls the script key function inside a loop over `%s` of the input table: a key function that changes the "
                               "table (through a global or captured variable) reallocates its key list / hash part, the iterator and the "
                               "references taken from it then point into freed storage" % (f.name, borrowed[0]["name"])))
            else:
                res.append(ok("C09.I", key, f.loc(s_["ln"]), "the loop that calls back iterates over an owned copy of the rows"))
    if n < 2:
        raise AnchorMissing("loops calling run_function in the natives (found %d)" % n)
    return res


def rule_s(F):
    """sorted / sorted_by_key order by the language's own ordering and stably: the comparator handed to the sort is
    `<Value as PartialOrd>::partial_cmp` applied to the two keys as they are (no conversion in between), the sort is one
    of the stable std sorts, and ascending (first comparator argument is the receiver)."""
    from cao.facts import hir_walk, hir_callee, hir_local_id, pat_bindings
    from cao import hirutil as hu
    res = []
    f = F.fn("stdlib::native_sorted")
    key = "C09/S/native_sorted/orders-by-the-language-ordering-stably"
    sorts = [x for x in hir_walk(f.hir["body"]) if x.get("k") == "mcall" and x["name"].startswith("sort")
             and any(n.startswith("std::slice::sort") or "::sort" in n for n in hir_callee(x))]
    if not sorts:
        return [undecided("C09.S", key, f.loc(), "no slice sort found in native_sorted")]
    for x in sorts:
        probs = []
        if "unstable" in x["name"]:
            probs.append("%s is not a stable sort (equal keys may change their relative order)" % x["name"])
        clo = hu.strip_casts(x["args"][0]) if x["args"] else None
        if clo is None or clo.get("k") != "closure":
            res.append(undecided("C09.S", key, f.loc(x["ln"]), "comparator is not a closure literal"))
            continue
        pids = [[i for i, _n in pat_bindings(p)] for p in clo.get("params", [])]
        cmps = [y for y in hir_walk(clo["body"]) if y.get("k") in ("mcall", "call", "bin") and
                any(n.endswith("PartialOrd::partial_cmp") or n.endswith("Ord::cmp") or n.endswith("total_cmp") or n.endswith("PartialOrd::lt")
                    for n in hir_callee(y))]
        if x["name"] in ("sort_by",):
            if not cmps:
                probs.append("the comparator does not compare the keys")
            for y in cmps:
                names = hir_callee(y)
                if not any(n == "<value::Value as std::cmp::PartialOrd>::partial_cmp" for n in names):
                    probs.append("keys are compared with %s instead of Value's own ordering (the one `<` uses): integers beyond 2^53, "
                                 "strings and tables are ordered differently from the comparison cards" % names[-1])
                    continue
                def base_local(e):
                    e = hu.strip_all(e)
                    while e is not None and e.get("k") == "field":
                        e = hu.strip_all(e["e"])
                    return hir_local_id(e) if e is not None else None
                recv = base_local(y["recv"]) if y.get("k") == "mcall" else None
                arg = base_local(y["args"][0]) if y.get("args") else None
                if len(pids) == 2 and not (recv in pids[0] and arg in pids[1]):
                    probs.append("the comparator does not compare its first argument's key with its second's as they are (descending order or converted keys)")
        else:
            probs.append("sort entry point %s not recognised" % x["name"])
        if probs:
            res.append(bad("C09.S", key, f.loc(x["ln"]), "sorted/sorted_by_key: " + "; ".join(probs)))
        else:
            res.append(ok("C09.S", key, f.loc(x["ln"]), "stable sort_by with Value::partial_cmp(a, b) on the keys"))
    return res


def rule_f(F):
    """ties: among rows whose key-function results are equal (or incomparable) the FIRST row is the answer of min and of
    max. Decided from how native_minmax selects:
      - an explicit forward scan that replaces the best row only under a strict comparison (`<` / `>`): first wins;
      - Iterator::min_by / min_by_key returns the first minimum: fine; Iterator::max_by / max_by_key returns the LAST
        maximum: violation (unless the iterator was reversed)."""
    from cao.facts import hir_walk, hir_callee, hir_strip
    from cao import hirutil as hu
    from cao import scoping as sc
    res = []
    f = F.fn("stdlib::native_minmax")
    key = "C09/F/native_minmax/first-of-equal-keys-wins"
    sel = []
    for x in hir_walk(f.hir["body"]):
        if x.get("k") == "mcall" and x["name"] in ("min_by", "max_by", "min_by_key", "max_by_key", "min", "max") and \
                any(n.startswith("std::iter::Iterator::") for n in hir_callee(x)):
            ad, _base = sc._chain(f, x["recv"])
            rev = ad.count("rev") % 2 == 1
            first = (x["name"].startswith("min")) != rev
            sel.append((x, "Iterator::%s%s" % (x["name"], " on a reversed iterator" if rev else ""), first))
    # explicit scan: an `if` whose then-branch assigns the running best
    updates = []
    impure = []
    inits = hu.let_inits(f)

    def resolve(e, depth=0):
        e = hu.strip_casts(e)
        while e is not None and e.get("k") == "path" and e["path"]["res"].get("k") == "local" and depth < 4:
            ins = inits.get(e["path"]["res"]["id"], [])
            if len(ins) != 1:
                break
            e = hu.strip_casts(ins[0])
            depth += 1
        return e

    def pure_cmp(e):
        """-> list of comparison ops if the condition is nothing but a comparison of two Values (possibly selected by a
        const `if`), else None"""
        e = resolve(e)
        if e is None:
            return None
        if e.get("k") == "bin" and e["op"] in ("Lt", "Le", "Gt", "Ge"):
            return [e["op"]]
        if e.get("k") == "if" and e.get("else") is not None:
            a, b = pure_cmp(e["then"]), pure_cmp(e["else"])
            return None if a is None or b is None else a + b
        if e.get("k") == "block" and not e["block"]["stmts"] and e["block"].get("expr") is not None:
            return pure_cmp(e["block"]["expr"])
        return None
    for x in hir_walk(f.hir["body"]):
        if x.get("k") == "if" and any(y.get("k") == "assign" for y in hir_walk(x["then"])) and x.get("else") is None:
            c = resolve(x["cond"])
            has_cmp = any(y.get("k") == "bin" and y["op"] in ("Lt", "Le", "Gt", "Ge") and "Value" in str(y.get("l", {}).get("ty")) for y in hir_walk(c))
            if not has_cmp:
                continue
            ops = pure_cmp(x["cond"])
            if ops is None:
                impure.append(x)
            else:
                updates.append((x, ops))
    if not sel and not updates and not impure:
        return [undecided("C09.F", key, f.loc(), "selection mechanism of native_minmax not recognised")]
    probs = []
    for x in impure:
        probs.append("the running best is replaced under a condition that is more than the comparison of the new key with the best key "
                     "(line %s): a row can take over although it does not compare better (e.g. a nil key-function result mistaken for "
                     "'no candidate yet')" % x.get("ln"))
    for x, what, first in sel:
        if not first:
            probs.append("%s (line %s) returns the LAST of several equal extremes" % (what, x.get("ln")))
    for x, ops in updates:
        if any(o in ("Le", "Ge") for o in ops):
            probs.append("the running best is replaced under a non-strict comparison %s (line %s): a later row with an equal key "
                         "replaces an earlier one" % (ops, x.get("ln")))
    if updates:
        # the scan must run front to back
        for s_ in sc.searches(f):
            if s_["kind"] == "for" and any(id(u[0]) in set(id(y) for y in hir_walk(s_["node"])) for u in updates):
                d, _i = sc.direction(s_)
                if d != "forward":
                    probs.append("the scan runs back to front (line %s)" % s_["ln"])
    if probs:
        res.append(bad("C09.F", key, f.loc(), "ties are not resolved in favour of the first row: " + "; ".join(probs)))
    else:
        res.append(ok("C09.F", key, f.loc(), "first of equal keys wins (%s)" % ", ".join([w for _x, w, _f in sel] + ["strict comparison %s in a forward scan" % o for _x, o in updates])))
    return res


RULES = [
    Rule("C09.T", rule_t, 16, "native names, arities, polarity and exports are wired consistently"),
    Rule("C09.N", rule_n, 3, "natives do not mutate their input table"),
    Rule("C09.I", rule_i, 2, "no iterator over the input table is alive across a callback"),
    Rule("C09.S", rule_s, 1, "sorted orders by the language ordering, stably, ascending"),
    Rule("C09.F", rule_f, 1, "ties are resolved in favour of the first row"),
    Rule("C09.G", rule_g, 2, "rooting hazards inside the natives (shared with C02.R)"),
]
