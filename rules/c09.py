"""C09 — Standard-library functions meet their contracts.

The contracts quantify over tables and callbacks; what is decided are the clauses visible in the shape of the source:

  C09.P  filter / map / any are *card programs* built by constructor calls in stdlib.rs. The trees are read back from the
         HIR (cao/cardtree.py) and matched: one loop over the input binding (i, k, v); the callback is the second parameter
         and gets the loop's variables, in one order for all three; filter stores result[k] = v exactly under the callback's
         result; map stores result[k] = callback(..) for every row; any returns k under the callback's result and nil after
         the loop; filter/map return a table created empty before the loop.
  C09.K  min / max / sorted compare by value: the natives push the row's fields in one order at every callback site, the
         compiler binds pushed values to parameters in a fixed direction, row_to_value returns the parameter that receives
         the value, and the wrappers forward (input, row_to_value) to the parameters of the _by_key functions.
  C09.A  to_array: the key of every inserted row is its position - enumerate()'s index, or a counter that starts at 0 and is
         stepped by 1 once per row after the insert - and the value is the row's value; the fresh table is returned.
  C09.U  non-table inputs are returned unchanged by every native (match arms Ok(input), or
         `let Some(..) = <table probe of the input> else { return Ok(input) }`, the probe decided by none_unless_table).
  C09.T  wiring table: every "__name" used by a Card::call_native in stdlib.rs is registered by register_native_stdlib with
         a wrapper of the same arity as the number of argument cards; __min / __max are native_minmax::<_, true/false>
         and inside it LESS selects `<` on the true edge and `>` on the false edge; every library function is part of
         standard_library() (pushed one by one, or by a loop over a literal (name, constructor) table). A native name may
         reach call_native through the parameter of a private constructor helper; a callback site (push value, push key,
         run_function) may live in a private helper of the natives - both are followed to the literal / row at the call.
  C09.F / C09.S  ties keep the first row; sorted is stable, ascending, by Value's own ordering on the unconverted keys.
  C09.N  inputs are not mutated: no native derives a mutable table reference from its `iterable` parameter.
  C09.I  no iterator over the input is alive across a callback.
  C09.G  the natives' rooting hazards (callbacks that allocate) are the C02.R instances located in stdlib.rs.
"""
from cao.facts import (AnchorMissing, callee_names, short, op_local, op_place, DefUse, hir_walk, hir_callee, hir_strip, hir_local_id, pat_variants)
from cao.rules import Rule, ok, bad, undecided, note, R
import re
from cao import mirutil as mu
from cao import hirutil as hu

EXPLANATION = (
    "The library is partly data: filter / map / any and the min / max / sorted wrappers are card trees assembled by "
    "constructor calls. C09.P and C09.K read those trees back from the resolved HIR and match them against the shape the "
    "contract needs (which variable is stored under which key, what is returned, under which condition), and join them "
    "with two facts from elsewhere in the crate: the order in which the natives push a row's fields before every callback "
    "(all sites must agree) and the direction in which the compiler binds pushed values to parameters. C09.A/U/F/S are HIR "
    "pattern rules on the natives (iteration adapters, strict comparison as the only replacement condition, stable sort "
    "by the language ordering, unchanged non-table arms). C09.T joins the wiring tables (native names used by cards, names "
    "/ arity / const generic registered, functions exported). C09.N is a taint rule, C09.I a liveness rule, C09.G re-reports "
    "the rooting hazards of C02.R that lie in stdlib.rs. Not decided: results on concrete tables - those follow from the card "
    "semantics (C01) and the table semantics (C07)."
)
ASSUMPTIONS = ["C18.O (the wrappers pass arguments in declaration order)"]


# ---- small symbolic evaluation of the HIR (shared by the wiring rules) ------------------------------------------

def _reduce(f, e, env, depth=0):
    """Reduce an expression to the expression that produces its value: value-preserving wrappers (`to_string`, `into`,
    `String::from`, references, casts) are peeled, a local stands for its binding in `env` (rows of a table a loop
    runs over, arguments of an inlined call) or for its single initialiser, `.N` projects out of a tuple literal."""
    while e is not None and depth < 12:
        depth += 1
        e = hu.strip_all(e)
        if e is None:
            return None
        k = e.get("k")
        if k == "mcall" and e["name"] in ("to_string", "to_owned", "into", "clone", "as_str", "as_ref") and not e["args"]:
            e = e["recv"]
        elif k == "call" and e["args"] and any(n.endswith("From::from") or n.endswith("String::from") for n in hir_callee(e)):
            e = e["args"][0]
        elif k == "path" and e["path"]["res"].get("k") == "local":
            lid = e["path"]["res"]["id"]
            if lid in env:
                e = env[lid]
            else:
                ins = hu.let_inits(f).get(lid, [])
                if len(ins) != 1:
                    return e
                e = ins[0]
        elif k == "field":
            b = _reduce(f, e["e"], env, depth)
            if b is not None and b.get("k") == "tup" and str(e["name"]).isdigit() and int(e["name"]) < len(b["elems"]):
                e = b["elems"][int(e["name"])]
            else:
                return e
        else:
            return e
    return e


def _bind_pattern(p, e, env):
    """bind the names of an irrefutable pattern to the parts of a (tuple) expression; False if the shapes do not fit"""
    k = p.get("k")
    if k == "wild":
        return True
    if k == "bind":
        env[p["id"]] = e
        return "sub" not in p or _bind_pattern(p["sub"], e, env)
    if k in ("ref", "deref", "box"):
        return _bind_pattern(p["pat"], e, env)
    if k == "tuple":
        e = hu.strip_all(e)
        if e is None or e.get("k") != "tup" or len(e["elems"]) != len(p["pats"]):
            return False
        return all(_bind_pattern(q, x, env) for q, x in zip(p["pats"], e["elems"]))
    return False


def _loop_rows(f, s_):
    """a `for <pat> in <table>` whose table is an array literal (possibly held in a single-assignment local, visited
    through iter / into_iter / copied ..): the list of environments, one per row, that the body runs under; None if
    the loop does not run over a literal table"""
    from cao import scoping as sc
    if s_["kind"] != "for" or any(a not in sc.ITER_SOURCES + ("copied", "cloned", "rev", "by_ref") for a in s_["adapters"]):
        return None
    base = hu.strip_all(s_["base"]) if s_["base"] is not None else None
    F_ = getattr(f, "_facts", None)
    for _ in range(3):
        # a `const` / `static` item stands for its initialiser
        if base is not None and base.get("k") == "path" and base["path"]["res"].get("k") == "def" and F_ is not None:
            g = F_.fn(short(base["path"]["res"].get("path", "")), required=False)
            if g is not None and g.hir and g.hir.get("body") is not None and any(w in str(g.kind) for w in ("Const", "Static")):
                base = hu.strip_all(g.hir["body"])
                continue
        break
    if base is None or base.get("k") != "array":
        return None
    pat = s_["pat"]            # Some(<element pattern>)
    while pat is not None and pat.get("k") in ("tuple_struct", "struct"):
        inner = pat.get("pats") or [fl["pat"] for fl in pat.get("fields", [])]
        if len(inner) != 1:
            return None
        pat = inner[0]
    envs = []
    for row in base["elems"]:
        env = {}
        if not _bind_pattern(pat, row, env):
            return None
        envs.append(env)
    return envs


def _envs_at(f, node):
    """the environments a node is evaluated under: one per row of every literal table an enclosing `for` runs over"""
    from cao import scoping as sc
    envs = [{}]
    for s_ in sc.searches(f):
        if s_["kind"] == "for" and any(y is node for y in hir_walk(s_["node"])):
            rows = _loop_rows(f, s_)
            if rows is not None:
                envs = [dict(a, **b) for a in envs for b in rows]
    return envs


def _fn_item(f, e, env):
    """the crate function an expression calls / names: `filter()` or `build()` with `build` bound to the fn item `filter`"""
    e = _reduce(f, e, env)
    if e is None:
        return None
    if e.get("k") == "call":
        c = hir_callee(e)
        if c:
            return c[0]
        return _fn_item(f, e["f"], env)
    if e.get("k") == "path" and e["path"]["res"].get("k") == "def":
        return short(e["path"]["res"].get("path", ""))
    return None


def exported_functions(F):
    """-> (name -> constructor function, unresolved pushes): the (name, Function) pairs that standard_library() pushes
    onto the module's function list, written one by one or as a loop over a literal table of (name, constructor) rows"""
    lib = F.fn("stdlib::standard_library")
    lib._facts = F
    exported = {}
    unresolved = 0
    for x in hir_walk(lib.hir["body"]):
        if not (x.get("k") == "mcall" and x["name"] == "push" and x["args"]):
            continue
        for env in _envs_at(lib, x):
            arg = _reduce(lib, x["args"][0], env)
            if arg is not None and arg.get("k") == "tup" and len(arg["elems"]) == 2:
                nm = _reduce(lib, arg["elems"][0], env)
                fn = _fn_item(lib, arg["elems"][1], env)
                if nm is not None and nm.get("k") == "lit" and nm["lit"]["k"] == "str" and fn and fn.startswith("stdlib::"):
                    exported[nm["lit"]["v"]] = fn
                else:
                    unresolved += 1
            else:
                unresolved += 1
    return exported, unresolved


def _resolve_local(f, e, depth=0):
    """a single-assignment local stands for its initialiser"""
    inits = hu.let_inits(f)
    e = hu.strip_casts(e)
    while e is not None and e.get("k") == "path" and e["path"]["res"].get("k") == "local" and depth < 4:
        ins = inits.get(e["path"]["res"]["id"], [])
        if len(ins) != 1:
            break
        e = hu.strip_casts(ins[0])
        depth += 1
    return e


def _const_guard(e):
    """name of the const generic parameter an `if` tests, else None"""
    c = hu.strip_casts(e)
    if c is not None and c.get("k") == "path" and c["path"]["res"].get("k") == "def" and "ConstParam" in str(c["path"]["res"].get("def_kind")):
        return short(c["path"]["res"].get("path", ""))
    return None


def _orderings(f, e, guards=()):
    """the Ordering constant(s) an expression evaluates to: [(name, guards)] with guards = ((const parameter, truth), ..) for
    constants selected by `if CONST { .. } else { .. }`; None if it is anything else"""
    e = _resolve_local(f, e)
    if e is None:
        return None
    k = e.get("k")
    if k == "block" and not e["block"]["stmts"] and e["block"].get("expr") is not None:
        return _orderings(f, e["block"]["expr"], guards)
    if k == "path" and e["path"]["res"].get("k") == "def":
        p_ = short(e["path"]["res"].get("ctor_of") or e["path"]["res"].get("path", ""))
        for nm in ("Less", "Greater", "Equal"):
            if p_.endswith("cmp::Ordering::" + nm):
                return [(nm, guards)]
        return None
    if k == "if" and e.get("else") is not None:
        g = _const_guard(e["cond"])
        a = _orderings(f, e["then"], guards + (((g, True),) if g else ()))
        b = _orderings(f, e["else"], guards + (((g, False),) if g else ()))
        return None if a is None or b is None else a + b
    return None


def value_comparisons(F, f, e, guards=()):
    """If the boolean expression is nothing but an order comparison of two Values, the comparison(s) it stands for:
    [dict(op='Lt'|'Le'|'Gt'|'Ge'|'Eq', l, r, guards)] - several when a const parameter selects between them.
      a < b                                     the operator as written
      if CONST { a < b } else { a > b }         both, guarded
      a.partial_cmp(&b) == Some(Ordering::X)    Less -> Lt, Greater -> Gt (the default `<` / `>` of PartialOrd are exactly
                                                this test; Value must not override lt/gt/le/ge), X may be a local holding
                                                `if CONST { Less } else { Greater }`
    None for anything else (a condition that is more than the comparison)."""
    e = _resolve_local(f, e)
    if e is None:
        return None
    k = e.get("k")
    if k == "block" and not e["block"]["stmts"] and e["block"].get("expr") is not None:
        return value_comparisons(F, f, e["block"]["expr"], guards)
    if k == "bin" and e["op"] in ("Lt", "Le", "Gt", "Ge"):
        return [dict(op=e["op"], l=e["l"], r=e["r"], guards=guards, ln=e.get("ln"))]
    if k == "if" and e.get("else") is not None:
        g = _const_guard(e["cond"])
        a = value_comparisons(F, f, e["then"], guards + (((g, True),) if g else ()))
        b = value_comparisons(F, f, e["else"], guards + (((g, False),) if g else ()))
        return None if a is None or b is None else a + b
    if k == "call" and len(guards) < 4:
        # a predicate of the crate that is nothing but the comparison of its two parameters: improves::<LESS>(key, best)
        h = next((h_ for h_ in (F.fn(n, required=False) for n in hir_callee(e)) if h_ is not None and h_.hir and not h_.is_closure), None)
        params = h.hir.get("params", []) if h is not None else []
        if h is None or len(params) != len(e["args"]) or not all(p_.get("k") == "bind" for p_ in params) or \
                str((h.raw.get("sig") or {}).get("output")) != "bool":
            return None
        cs = value_comparisons(F, h, h.hir["body"], guards + (("<in>", True),))
        if cs is None:
            return None
        byid = {p_["id"]: a for p_, a in zip(params, e["args"])}
        targs = [str(a) for a in ((hir_strip(e["f"]).get("path") or {}).get("args") or [])]
        caller_consts = set(short(y["path"]["res"].get("path", "")) for y in hir_walk(f.hir["body"]) if y.get("k") == "path" and
                            y["path"]["res"].get("k") == "def" and "ConstParam" in str(y["path"]["res"].get("def_kind")))
        out = []
        for c in cs:
            l_, r_ = byid.get(hir_local_id(hu.strip_all(c["l"]))), byid.get(hir_local_id(hu.strip_all(c["r"])))
            if l_ is None or r_ is None:
                return None          # compares something else than its parameters
            gs = []
            keep = True
            for g_, tr in c["guards"][len(guards) + 1:]:
                # the callee's const parameter: instantiated by a literal (that branch only) or by a const parameter of the caller
                lits = [t_ for t_ in targs if t_ in ("true", "false")]
                names = [t_ for t_ in targs if any(cc.endswith("::" + t_) for cc in caller_consts)]
                if not lits and not names and len(targs) == 1 and re.match(r"^[A-Z][A-Z0-9_]*$", targs[0]):
                    names = targs          # the callee's only generic argument, named like a const parameter of the caller
                if len(lits) == 1 and not names:
                    keep = keep and (lits[0] == "true") == tr
                elif len(names) == 1 and not lits:
                    gs.append((f.short + "::" + names[0], tr))
                else:
                    return None
            if keep:
                out.append(dict(op=c["op"], l=l_, r=r_, guards=guards + tuple(gs), ln=e.get("ln")))
        return out or None
    if k == "bin" and e["op"] == "Eq":
        for pc, so in ((e["l"], e["r"]), (e["r"], e["l"])):
            pc = hu.strip_all(_resolve_local(f, pc))
            so = hu.strip_all(_resolve_local(f, so))
            if pc is None or so is None or pc.get("k") not in ("mcall", "call") or \
                    not any(n == "<value::Value as std::cmp::PartialOrd>::partial_cmp" for n in hir_callee(pc)):
                continue
            if not (so.get("k") == "call" and so["args"] and any(n.endswith("::Some") for n in hir_callee(so))):
                continue
            if any(F.fn("<value::Value as std::cmp::PartialOrd>::%s" % m, required=False) is not None for m in ("lt", "le", "gt", "ge")):
                return None         # Value has operators of its own: `<` is not this test
            ords = _orderings(f, so["args"][0], guards)
            if ords is None:
                return None
            a, b = (pc["recv"], pc["args"][0]) if pc.get("k") == "mcall" else (pc["args"][0], pc["args"][1])
            return [dict(op={"Less": "Lt", "Greater": "Gt", "Equal": "Eq"}[nm], l=a, r=b, guards=g_, ln=e.get("ln")) for nm, g_ in ords]
    return None


def minmax_scan_fns(F, root="stdlib::native_minmax"):
    """the native and the private library helpers it (transitively) calls that run the key function: the scan over the rows
    may live in any of them (`best_row::<T, LESS>(vm, &rows, key_fn)`)"""
    f0 = F.fn(root)
    memo = {}

    def calls_back(g, depth=0):
        if g.short in memo:
            return memo[g.short]
        memo[g.short] = False
        r = False
        for y in hir_walk(g.hir["body"]):
            if y.get("k") in ("mcall", "call"):
                names = hir_callee(y)
                if any(c.endswith("Vm::run_function") for c in names):
                    r = True
                elif depth < 3:
                    for c in names:
                        h = F.fn(c, required=False) if c.startswith("stdlib::") else None
                        if h is not None and h.hir and not h.is_closure and h is not g and calls_back(h, depth + 1):
                            r = True
        memo[g.short] = r
        return r
    out = [f0]
    work = [f0]
    while work:
        g = work.pop()
        for y in hir_walk(g.hir["body"]):
            if y.get("k") in ("mcall", "call"):
                for c in hir_callee(y):
                    h = F.fn(c, required=False) if c.startswith("stdlib::") else None
                    if h is not None and h.hir and not h.is_closure and h not in out and calls_back(h):
                        out.append(h)
                        work.append(h)
    return out


def rule_t(F):
    res = []
    # 1. names used by the card programs: the string that reaches Card::call_native's first parameter - written in place,
    #    or handed to a private constructor helper (`fn by_key(native: &str) -> Function`) by the library functions
    used = {}
    libfns = [f for f in F.fns if f.hir and not f.is_closure and f.short.startswith("stdlib::")]

    def literal_args(f, e, depth=0):
        """[(literal string, function that writes it, line)] for the values expression `e` of function `f` can take"""
        v = _reduce(f, e, {})
        if v is None:
            return []
        if v.get("k") == "lit" and v["lit"]["k"] == "str":
            return [(v["lit"]["v"], f, v.get("ln") or e.get("ln"))]
        lid = hir_local_id(v)
        pidx = next((i for i, p_ in enumerate(f.hir.get("params", [])) if p_.get("k") == "bind" and p_["id"] == lid), None)
        out = []
        if pidx is not None and depth < 3:
            for g in libfns:
                for y in hir_walk(g.hir["body"]):
                    if y.get("k") == "call" and f.short in hir_callee(y) and len(y["args"]) > pidx:
                        out += [(nm, g2, y.get("ln")) for nm, g2, _l in literal_args(g, y["args"][pidx], depth + 1)]
        return out
    for f in libfns:
        for x in hir_walk(f.hir["body"]):
            if x.get("k") == "call" and any(n.endswith("Card::call_native") for n in hir_callee(x)):
                nargs = None
                a1 = hir_strip(x["args"][1])
                # vec![..] expands to into_vec(box [..]) / array literal: count the elements of the innermost array
                for y in hir_walk(a1):
                    if y.get("k") == "array":
                        nargs = len(y["elems"])
                for name, g, ln in literal_args(f, x["args"][0]):
                    used[name] = (g, nargs, ln if g is not f else x["ln"])
    # 2. registered names
    reg = {}
    rf = F.fn("vm::Vm::register_native_stdlib")
    for x in hir_walk(rf.hir["body"]):
        if x.get("k") == "mcall" and x["name"] == "_register_native_function":
            a0 = hir_strip(x["args"][0])
            if a0.get("k") == "lit":
                name = a0["lit"]["v"]
                wrap = hir_strip(x["args"][1])
                arity = None
                target = None
                targs = None
                if wrap.get("k") == "call":
                    wn = (hir_callee(wrap) or [""])[0]
                    if wn.startswith("traits::into_f"):
                        arity = int(wn[len("traits::into_f"):])
                    inner = hir_strip(wrap["args"][0])
                    if inner.get("k") == "path":
                        target = short(inner["path"]["res"].get("path", ""))
                        targs = inner["path"].get("args")
                reg[name] = (arity, target, targs, x["ln"])
    if not used or not reg:
        raise AnchorMissing("native names in stdlib.rs / register_native_stdlib")
    for name, (f, nargs, ln) in sorted(used.items()):
        key = "C09/T/%s/registered-with-matching-arity" % name
        if name not in reg:
            res.append(bad("C09.T", key, f.loc(ln), "std.%s calls native `%s`, which register_native_stdlib never registers: every call fails with ProcedureNotFound" % (f.name, name)))
        elif reg[name][0] != nargs:
            res.append(bad("C09.T", key, f.loc(ln), "std.%s passes %s argument(s) to `%s`, which is registered with a %s-ary wrapper" % (f.name, nargs, name, reg[name][0])))
        else:
            res.append(ok("C09.T", key, f.loc(ln), "`%s`: %d argument card(s), registered as %s (arity %d)" % (name, nargs, reg[name][1], reg[name][0])))
    for name in sorted(set(reg) - set(used)):
        res.append(note("C09.T", "C09/T/%s/unused" % name, rf.loc(reg[name][3]), "registered native `%s` is not used by the library" % name))
    # 3. min / max polarity
    want = {"__min": "true", "__max": "false"}
    for name, pol in want.items():
        key = "C09/T/%s/polarity" % name
        if name not in reg:
            continue
        arity, target, targs, ln = reg[name]
        if target == "stdlib::native_minmax" and targs and targs[-1] == pol:
            res.append(ok("C09.T", key, rf.loc(ln), "%s = native_minmax::<_, %s>" % (name, pol)))
        else:
            res.append(bad("C09.T", key, rf.loc(ln), "%s is registered as %s::<%s>, expected native_minmax::<_, %s>" % (name, target, targs, pol)))
    mm = F.fn("stdlib::native_minmax")
    sel = None
    for mm_, x in [(g_, x_) for g_ in minmax_scan_fns(F) for x_ in hir_walk(g_.hir["body"])]:
        if x.get("k") not in ("if", "bin", "call") or sel is not None:
            continue
        mm = mm_
        cs = value_comparisons(F, mm, x) or []
        t = [c for c in cs if any(tr for _g, tr in c["guards"])]
        e = [c for c in cs if c["guards"] and not any(tr for _g, tr in c["guards"])]
        if len(cs) == 2 and len(t) == 1 and len(e) == 1:
            nm = lambda z: hu.local_name(hu.strip_all(z))
            sel = (t[0]["op"], e[0]["op"], t[0]["ln"] or x["ln"], nm(t[0]["l"]), nm(t[0]["r"]), nm(e[0]["l"]), nm(e[0]["r"]))
    # the operands: the new key on the left, the best key so far on the right (the one that is replaced by the new key)
    if sel is not None and sel[3] and sel[4] and sel[3] == sel[5] and sel[4] == sel[6]:
        assigns = [(hu.local_name(hu.strip_all(y["l"])), hu.local_name(hu.strip_all(y["r"]))) for y in hir_walk(mm.hir["body"]) if y.get("k") == "assign"]
        if (sel[3], sel[4]) in assigns and (sel[4], sel[3]) not in assigns:
            sel = sel[:3] + (sel[4], sel[3], sel[6], sel[5]) + ("swapped",)
    if sel is None:
        res.append(undecided("C09.T", "C09/T/native_minmax/less-selects-lt", mm.loc(), "selection on LESS not recognised"))
    elif len(sel) > 7:
        res.append(bad("C09.T", "C09/T/native_minmax/less-selects-lt", mm.loc(sel[2]), "native_minmax compares the best key so far with the new key "
                       "(`%s %s %s` when LESS) and replaces `%s` when that holds: std.min returns the largest and std.max the smallest row"
                       % (sel[4], "<" if sel[0] == "Lt" else sel[0], sel[3], sel[3])))
    elif sel[0] == "Lt" and sel[1] == "Gt" and sel[3] == sel[5] and sel[4] == sel[6]:
        res.append(ok("C09.T", "C09/T/native_minmax/less-selects-lt", mm.loc(sel[2]), "LESS => candidate < best, otherwise candidate > best (strict: the first extreme entry wins)"))
    else:
        res.append(bad("C09.T", "C09/T/native_minmax/less-selects-lt", mm.loc(sel[2]), "native_minmax compares with %s when LESS and %s otherwise (operands %s): min/max are swapped or ties no longer keep the first entry" % (sel[0], sel[1], sel[3:])))
    # 4. every library function is exported
    lib = F.fn("stdlib::standard_library")
    exported, unresolved = exported_functions(F)
    expected = {"filter": "stdlib::filter", "any": "stdlib::any", "map": "stdlib::map", "min": "stdlib::min", "max": "stdlib::max",
                "sorted": "stdlib::sorted", "to_array": "stdlib::to_array", "min_by_key": "stdlib::min_by_key", "max_by_key": "stdlib::max_by_key",
                "sorted_by_key": "stdlib::sorted_by_key"}
    for nm, fn in expected.items():
        key = "C09/T/std.%s/exported" % nm
        if exported.get(nm):
            res.append(ok("C09.T", key, lib.loc(), "std.%s = %s()" % (nm, exported[nm])))
        elif unresolved:
            res.append(undecided("C09.T", key, lib.loc(), "standard_library() pushes %d entr(ies) whose name / constructor could not be resolved" % unresolved))
        else:
            res.append(bad("C09.T", key, lib.loc(), "the documented library function std.%s is not part of standard_library()" % nm))
    return res


def rule_n(F):
    """C09.N: no native derives mutable access to the table behind its input. Taint from the input parameter through copies,
    references and the accessor calls listed below; a private library helper that is handed a tainted value is analysed the
    same way from that parameter (and what it returns is tainted when it can carry a reference)."""
    from cao.facts import rvalue_places
    res = []
    MUTATORS = ("as_table_mut", "get_table_mut", "keys_mut", "insert", "append", "pop", "remove")
    PASS = ("as_ref", "as_mut", "as_ptr", "as_table", "iter", "next", "enumerate", "skip", "branch", "into_iter", "unwrap", "nth_key", "get",
            "deref", "deref_mut", "map", "copied", "len")
    memo = {}

    def analyse(f, srcs, depth=0):
        """-> (mutating calls [(what, fn, line)], number of tainted locals, is the result tainted)"""
        key = (f.short, tuple(sorted(srcs)))
        if key in memo:
            return memo[key]
        memo[key] = ([], 0, False)
        tainted = set(srcs)
        bad_calls = []
        helper_calls = {}
        changed = True
        while changed:
            changed = False
            for bi, b in enumerate(f.blocks):
                for st in b["stmts"]:
                    if st["k"] == "assign" and not st["place"]["p"]:
                        if any(p["l"] in tainted for p in rvalue_places(st["rv"])) and st["place"]["l"] not in tainted:
                            tainted.add(st["place"]["l"])
                            changed = True
                t = b["term"]
                if t["k"] == "call" and not t["dest"]["p"]:
                    nm = callee_names(t["func"])
                    targs = [j for j, a in enumerate(t["args"]) if (op_place(a) or {}).get("l") in tainted]
                    if not targs:
                        continue
                    g = next((g_ for g_ in (F.fn(n, required=False) for n in nm) if g_ is not None and g_.mir and not g_.is_closure
                              and g_.short.startswith("stdlib::") and g_ is not f), None)
                    if g is not None and depth < 3:
                        sub = analyse(g, set(j + 1 for j in targs), depth + 1)
                        helper_calls[bi] = sub[0]
                        out_ty = str((g.raw.get("sig") or {}).get("output") or "")
                        if (sub[2] or "&" in out_ty or "*mut" in out_ty or "*const" in out_ty) and t["dest"]["l"] not in tainted:
                            tainted.add(t["dest"]["l"])
                            changed = True
                    elif t["dest"]["l"] not in tainted and any(n.rsplit("::", 1)[-1] in PASS for n in nm):
                        tainted.add(t["dest"]["l"])
                        changed = True
        for bi, t in mu.calls(f):
            nm = callee_names(t["func"])
            last = nm[0].rsplit("::", 1)[-1]
            if last in MUTATORS and t["args"] and (op_place(t["args"][0]) or {}).get("l") in tainted:
                recv_ty = t.get("arg_tys", [""])[0]
                if "CaoLangTable" in recv_ty or "CaoLangObject" in recv_ty or "value::Value" in recv_ty:
                    bad_calls.append((last, f, t.get("ln")))
            if any("TryFrom<value::Value>" in n and "&mut" in n for n in nm) and any((op_place(a) or {}).get("l") in tainted for a in t["args"]):
                bad_calls.append(("try_from(&mut CaoLangTable)", f, t.get("ln")))
        for bi in sorted(helper_calls):
            bad_calls += helper_calls[bi]
        memo[key] = (bad_calls, len(tainted), 0 in tainted)
        return memo[key]

    for f in F.fns:
        if not f.mir or f.is_closure or not f.short.startswith("stdlib::native_"):
            continue
        # taint from the input parameter: `iterable`, the Value that follows the vm
        names = [f.local_name(l) for l in range(len(f.mir["locals"]))]
        if "iterable" in names:
            src = names.index("iterable")
        elif f.mir["arg_count"] >= 2 and f.local_ty(2) == "value::Value":
            src = 2
        else:
            res.append(undecided("C09.N", "C09/N/%s/input-not-mutated" % f.name, f.loc(), "no `iterable` parameter"))
            continue
        bad_calls, ntaint, _r = analyse(f, {src})
        key = "C09/N/%s/input-not-mutated" % f.name
        if bad_calls:
            what, g, ln = bad_calls[0]
            res.append(bad("C09.N", key, g.loc(ln), "%s obtains mutable access to its input table (%s%s): library functions must not modify their input"
                           % (f.name, what, "" if g is f else " in its helper %s" % g.name)))
        else:
            res.append(ok("C09.N", key, f.loc(), "no mutable table access is derived from `iterable` (%d locals derived from it)" % ntaint))
    if len(res) < 3:
        raise AnchorMissing("stdlib natives (found %d)" % len(res))
    return res


def rule_g(F):
    from rules import c02
    out = []
    for r in c02.rule_r(F):
        if "stdlib.rs" in (r["loc"] or "") or "/native_" in r["key"]:
            out.append(R("C09.G", r["key"].replace("C02/R/", "C09/G/"), r["status"], r["loc"], r["msg"], **r["data"]))
    return out


def rule_i(F):
    """no iterator over (or reference into) the input table is alive across a callback: in the natives every loop that
    calls run_function iterates over an owned copy of the rows. The key function is a script; it can reach the same table
    through a global or a captured variable and change it, which reallocates the storage such an iterator points into."""
    from cao.facts import hir_walk, hir_callee, hir_strip
    from cao import hirutil as hu
    from cao import scoping as sc
    res = []
    n = 0

    def calls_back(node, depth=0):
        """does the expression run the script key function - itself, or in a private library helper it calls"""
        for y in hir_walk(node):
            if y.get("k") not in ("mcall", "call"):
                continue
            names = hir_callee(y)
            if any(c.endswith("Vm::run_function") for c in names):
                return True
            if depth < 3:
                for c in names:
                    g = F.fn(c, required=False) if c.startswith("stdlib::") else None
                    if g is not None and g.hir and calls_back(g.hir["body"], depth + 1):
                        return True
        return False

    def table_iters(e):
        return [y for y in hir_walk(e) if y.get("k") == "mcall" and y["name"] in ("iter", "iter_mut", "keys", "keys_mut")
                and any("cao_lang_table::CaoLangTable::" in c or "hash_map::CaoHashMap::" in c for c in hir_callee(y))]
    for name in ("stdlib::native_minmax", "stdlib::native_sorted"):
      nat = F.fn(name)
      k = 0
      for f in minmax_scan_fns(F, name):          # the native and the helpers that call back for it
          inits = hu.let_inits(f)
          loops = []      # (line, loop node, header expression or None)
          for_loops = set()
          for s_ in sc.searches(f):
              if s_["kind"] != "for":
                  continue
              for y in hir_walk(s_["node"]):
                  if y.get("k") == "loop":
                      for_loops.add(id(y))
                      break
              scrut = hir_strip(s_["node"]["scrut"])
              # the iterated expression (before iter/enumerate/skip adapters)
              it = hu.strip_casts(scrut["args"][0]) if scrut.get("k") == "call" and scrut["args"] else scrut
              loops.append((s_["ln"], s_["node"], it))
          for y in hir_walk(f.hir["body"]):
              if y.get("k") == "loop" and id(y) not in for_loops and y.get("source") != "ForLoop":
                  loops.append((y.get("ln"), y, None))
          loops.sort(key=lambda x: x[0] or 0)
          for ln, node, it in loops:
              if not calls_back(node):
                  continue
              n += 1
              key = "C09/I/%s/callback-loop-iterates-a-copy%s" % (nat.name, "" if k == 0 else "#%d" % k)
              k += 1
              borrowed = table_iters(it) if it is not None else []
              # `while` / `loop`: the iterator is a local created before the loop and advanced inside it
              if it is None:
                  for y in hir_walk(node):
                      lid = hir_local_id(y) if y.get("k") == "path" else None
                      for e_ in inits.get(lid, []) if lid is not None else []:
                          # ... unless what the local holds is owned (a collected Vec<(Value, Value)>): no reference, no iterator
                          ty = str(e_.get("ty") or "&")
                          if "&" in ty or "Iter" in ty or "impl " in ty or "*const" in ty or "*mut" in ty:
                              borrowed += table_iters(e_)
              if borrowed:
                  res.append(bad("C09.I", key, f.loc(ln),
                                 "%s calls the script key function inside a loop over `%s` of the input table: a key function that changes the "
                                 "table (through a global or captured variable) reallocates its key list / hash part, the iterator and the "
                                 "references taken from it then point into freed storage" % (f.name, borrowed[0]["name"])))
              else:
                  res.append(ok("C09.I", key, f.loc(ln), "the loop that calls back iterates over an owned copy of the rows"))
    if n < 2:
        raise AnchorMissing("loops calling run_function in the natives (found %d)" % n)
    return res


def rule_s(F):
    """sorted / sorted_by_key order by the language's own ordering and stably: the comparator handed to the sort is
    `<Value as PartialOrd>::partial_cmp` applied to the two keys as they are (no conversion in between), the sort is one
    of the stable std sorts, and ascending (first comparator argument is the receiver). The comparator is the closure
    handed to the sort, or the crate function that closure hands its two keys to."""
    from cao.facts import hir_walk, hir_callee, hir_local_id, pat_bindings
    from cao import hirutil as hu
    res = []
    f = F.fn("stdlib::native_sorted")
    key = "C09/S/native_sorted/orders-by-the-language-ordering-stably"
    sorts = [x for x in hir_walk(f.hir["body"]) if x.get("k") == "mcall" and x["name"].startswith("sort")
             and any(n.startswith("std::slice::sort") or "::sort" in n for n in hir_callee(x))]
    if not sorts:
        return [undecided("C09.S", key, f.loc(), "no slice sort found in native_sorted")]

    def base_local(e):
        e = hu.strip_all(e)
        while e is not None and e.get("k") == "field":
            e = hu.strip_all(e["e"])
        return hir_local_id(e) if e is not None else None

    def deep_walk(g, e, seen=None, depth=0):
        """nodes of e, and of the local closures / crate functions (nested fn items, private helpers) it calls"""
        seen = set() if seen is None else seen
        for z in hir_walk(e):
            yield z
            if z.get("k") != "call" or depth > 4:
                continue
            lid = hir_local_id(hu.strip_all(z["f"])) if z.get("f") is not None else None
            if lid is not None and lid not in seen:
                seen.add(lid)
                for e2 in hu.let_inits(g).get(lid, []):
                    yield from deep_walk(g, e2, seen, depth + 1)
            for c in hir_callee(z):
                h = F.fn(c, required=False)
                if h is not None and h.hir and not h.is_closure and c not in seen and not c.startswith("std::"):
                    seen.add(c)
                    yield from deep_walk(h, h.hir["body"], seen, depth + 1)
                    break

    def is_option_ordering_cmp(e):
        e = hu.strip_all(e)
        return e is not None and e.get("k") in ("mcall", "call") and any(n.endswith("PartialOrd::partial_cmp") for n in hir_callee(e))

    for x in sorts:
        probs = []
        unclear = []
        if "unstable" in x["name"]:
            probs.append("%s is not a stable sort (equal keys may change their relative order)" % x["name"])
        clo = hu.strip_casts(x["args"][0]) if x["args"] else None
        if clo is None or clo.get("k") != "closure":
            res.append(undecided("C09.S", key, f.loc(x["ln"]), "comparator is not a closure literal"))
            continue
        g = f                   # the function whose body holds the comparison
        body = clo["body"]
        pids = [[i for i, _n in pat_bindings(p)] for p in clo.get("params", [])]
        # the closure may do nothing but hand its two keys to a function: |(a, ..), (b, ..)| compare(a, b)
        for _ in range(3):
            b = hu.strip_all(body)
            h = next((h_ for h_ in (F.fn(c, required=False) for c in (hir_callee(b) if b is not None and b.get("k") == "call" else []))
                      if h_ is not None and h_.hir and not h_.is_closure), None)
            if h is None or len(pids) != 2:
                break
            params = h.hir.get("params", [])
            if len(params) != len(b["args"]) or not all(p_.get("k") == "bind" for p_ in params):
                break
            new = [[], []]
            for p_, a in zip(params, b["args"]):
                bl = base_local(a)
                a_ = hu.strip_all(a)
                while a_ is not None and a_.get("k") == "field":
                    a_ = hu.strip_all(a_["e"])
                plain = a_ is not None and hir_local_id(a_) is not None      # the key as it is (reference / field of the row), not a converted copy
                for i in (0, 1):
                    if plain and bl in pids[i]:
                        new[i].append(p_["id"])
            g, body, pids = h, h.hir["body"], new
        cmps = [y for y in hir_walk(body) if y.get("k") in ("mcall", "call", "bin") and
                any(n.endswith("PartialOrd::partial_cmp") or n.endswith("Ord::cmp") or n.endswith("total_cmp") or n.endswith("PartialOrd::lt")
                    for n in hir_callee(y))]
        fallbacks = []          # (name of the mechanism, node, expression evaluated for keys partial_cmp does not order | None)
        fb_ok = False
        has_rank = False
        if x["name"] in ("sort_by",):
            if not cmps:
                probs.append("the comparator does not compare the keys")
            # the fallback for incomparable keys: `unwrap_or(Equal)` makes NaN equal to every number while the numbers differ
            # from each other - not a total order, the standard sort panics when it notices. The fallback has to tell the
            # keys that compare with nothing apart (is_nan on both keys, compared as bools).
            for y in hir_walk(body):
                if y.get("k") == "mcall" and y["name"] in ("unwrap_or", "unwrap_or_else", "unwrap_or_default", "unwrap", "expect"):
                    fallbacks.append((y["name"], y, y["args"][0] if y["name"] in ("unwrap_or", "unwrap_or_else") and y["args"] else None))
                elif y.get("k") == "match" and y.get("source") in (None, "Normal") and is_option_ordering_cmp(y["scrut"]):
                    # match a.partial_cmp(b) { Some(o) => o, None => <fallback> }
                    some = [a for a in y["arms"] if any(v[0].endswith("Option::Some") or v[0].endswith("::Some") for v in pat_variants(a["pat"]))]
                    none = [a for a in y["arms"] if a not in some]
                    ident = len(some) == 1 and not some[0].get("guard") and \
                        hir_local_id(hu.strip_casts(some[0]["body"])) in [i for i, _n in pat_bindings(some[0]["pat"])] and \
                        hu.strip_casts(some[0]["body"]).get("k") == "path"
                    if not ident or len(none) != 1 or none[0].get("guard"):
                        unclear.append("match on partial_cmp's answer (line %s) does not hand the answer on as it is" % y.get("ln"))
                    else:
                        fallbacks.append(("match", y, none[0]["body"]))
                elif y.get("k") == "if" and hu.strip_casts(y["cond"]).get("k") == "let" and is_option_ordering_cmp(hu.strip_casts(y["cond"])["init"]):
                    # if let Some(o) = a.partial_cmp(b) { o } else { <fallback> }
                    c = hu.strip_casts(y["cond"])
                    then = hu.strip_casts(y["then"])
                    ident = any(v[0].endswith("::Some") for v in pat_variants(c["pat"])) and then is not None and then.get("k") == "path" and \
                        hir_local_id(then) in [i for i, _n in pat_bindings(c["pat"])]
                    if not ident or y.get("else") is None:
                        unclear.append("`if let` on partial_cmp's answer (line %s) does not hand the answer on as it is" % y.get("ln"))
                    else:
                        fallbacks.append(("if let", y, y["else"]))
            for nm, y, fe in fallbacks:
                if fe is None or nm == "unwrap_or" and hu.strip_all(fe).get("k") == "path":
                    continue
                for z in deep_walk(g, fe):
                    if z.get("k") in ("mcall", "call"):
                        if z.get("name") == "is_nan" or any(n.endswith("f64::is_nan") or n.endswith("::is_nan") for n in hir_callee(z)):
                            fb_ok = True
                        # ... and the other open pairs (nil against an object, different objects of one length) by the numeric rule
                        if any(n_.endswith("TryFrom::try_from") or n_.endswith("::try_from") or n_.endswith("TryInto::try_into")
                               for n_ in hir_callee(z)) or z.get("name") == "len":
                            has_rank = True
            if fallbacks and not fb_ok:
                probs.append("incomparable keys are all treated alike (%s): with a NaN key the comparator is not a total order (NaN equals "
                             "every number, the numbers differ), and the standard sort panics when it detects that - the keys that compare "
                             "with nothing have to be ordered apart (e.g. last)" % fallbacks[0][0])
            for y in cmps:
                names = hir_callee(y)
                if y.get("k") == "mcall" and "value::Value" not in ((hu.strip_all(y["recv"]) or {}).get("ty") or "") and \
                        (unclear or any(any(w is y for w in hir_walk(fe)) for _nm, _y, fe in fallbacks if fe is not None)):
                    continue   # the comparison of the derived ranks inside the fallback (or inside a match that was not understood)
                if not any(n == "<value::Value as std::cmp::PartialOrd>::partial_cmp" for n in names):
                    probs.append("keys are compared with %s instead of Value's own ordering (the one `<` uses): integers beyond 2^53, "
                                 "strings and tables are ordered differently from the comparison cards" % names[-1])
                    continue
                recv = base_local(y["recv"]) if y.get("k") == "mcall" else None
                arg = base_local(y["args"][0]) if y.get("args") else None
                if len(pids) == 2 and not (recv in pids[0] and arg in pids[1]):
                    probs.append("the comparator does not compare its first argument's key with its second's as they are (descending order or converted keys)")
            if cmps and not fallbacks and not unclear:
                unclear.append("what the comparator answers for keys that partial_cmp does not order is not recognised")
        else:
            probs.append("sort entry point %s not recognised" % x["name"])
        if probs:
            res.append(bad("C09.S", key, f.loc(x["ln"]), "sorted/sorted_by_key: " + "; ".join(probs)))
        elif unclear:
            res.append(undecided("C09.S", key, f.loc(x["ln"]), "; ".join(unclear)))
        else:
            res.append(ok("C09.S", key, f.loc(x["ln"]), "stable sort_by with Value::partial_cmp(a, b) on the keys"))
        if x["name"] == "sort_by" and fallbacks and fb_ok:
            key2 = "C09/S/native_sorted/total-order-fallback"
            if has_rank:
                res.append(ok("C09.S", key2, f.loc(x["ln"]), "open pairs are ordered by the keys' numeric rank, NaN apart"))
            else:
                res.append(bad("C09.S", key2, f.loc(x["ln"]), "sorted/sorted_by_key: the fallback for keys that partial_cmp does not order only tells NaN apart; "
                               "nil against an object and different objects of one length still count as equal to each other while they are "
                               "ordered against numbers (\"ccc\" > 2 > nil, nil 'equal' to \"ccc\"): not transitive, tables of mixed kinds come out "
                               "unsorted and the standard sort may panic"))
    return res


def rule_f(F):
    """ties: among rows whose key-function results are equal (or incomparable) the FIRST row is the answer of min and of
    max. Decided from how native_minmax selects:
      - an explicit forward scan that replaces the best row only under a strict comparison (`<` / `>`): first wins;
      - Iterator::min_by / min_by_key returns the first minimum: fine; Iterator::max_by / max_by_key returns the LAST
        maximum: violation (unless the iterator was reversed)."""
    from cao.facts import hir_walk, hir_callee, hir_strip
    from cao import hirutil as hu
    from cao import scoping as sc
    key = "C09/F/native_minmax/first-of-equal-keys-wins"
    # the scan may live in the native or in a private helper it hands the rows to
    out = None
    for f in minmax_scan_fns(F):
        out = _rule_f_in(F, f, key)
        if out[0]["status"] != "undecided" or "not recognised" not in out[0]["msg"] or "selection mechanism" not in out[0]["msg"]:
            return out
    return [undecided("C09.F", key, F.fn("stdlib::native_minmax").loc(), "selection mechanism of native_minmax not recognised")]


def _rule_f_in(F, f, key):
    from cao.facts import hir_walk, hir_callee, hir_strip
    from cao import hirutil as hu
    from cao import scoping as sc
    res = []
    sel = []
    for x in hir_walk(f.hir["body"]):
        if x.get("k") == "mcall" and x["name"] in ("min_by", "max_by", "min_by_key", "max_by_key", "min", "max") and \
                any(n.startswith("std::iter::Iterator::") for n in hir_callee(x)):
            ad, _base = sc._chain(f, x["recv"])
            rev = ad.count("rev") % 2 == 1
            first = (x["name"].startswith("min")) != rev
            sel.append((x, "Iterator::%s%s" % (x["name"], " on a reversed iterator" if rev else ""), first))
    # explicit scan: an `if` whose then-branch assigns the running best
    updates = []
    impure = []
    inits = hu.let_inits(f)

    def resolve(e):
        return _resolve_local(f, e)

    def pure_cmp(e):
        """-> list of comparison ops if the condition is nothing but a comparison of two Values (possibly selected by a
        const `if`, possibly spelled partial_cmp(..) == Some(Less / Greater)), else None"""
        cs = value_comparisons(F, f, e)
        return None if cs is None else [c["op"] for c in cs]

    def compares_values(c):
        for y in hir_walk(c):
            if y.get("k") == "bin" and y["op"] in ("Lt", "Le", "Gt", "Ge") and "Value" in str(y.get("l", {}).get("ty")):
                return True
            if y.get("k") in ("mcall", "call") and any(n == "<value::Value as std::cmp::PartialOrd>::partial_cmp" for n in hir_callee(y)):
                return True
            if y.get("k") == "call" and "bool" == str(y.get("ty")) and len(y["args"]) == 2 and all("value::Value" in str(a.get("ty")) for a in y["args"]) \
                    and any(F.fn(n, required=False) is not None for n in hir_callee(y)):
                return True          # a predicate of the crate over two Values: must turn out to be the comparison
            if y.get("k") == "path" and y["path"]["res"].get("k") == "local" and y is not c:
                r_ = resolve(y)
                if r_ is not y and r_ is not None and r_.get("k") != "path" and "bool" in str(y.get("ty")) and compares_values(r_):
                    return True
        return False
    for x in hir_walk(f.hir["body"]):
        if x.get("k") == "if" and any(y.get("k") == "assign" for y in hir_walk(x["then"])) and x.get("else") is None:
            c = resolve(x["cond"])
            if not compares_values(c):
                continue
            ops = pure_cmp(x["cond"])
            if ops is None:
                impure.append(x)
            else:
                updates.append((x, ops))
    if not sel and not updates and not impure:
        return [undecided("C09.F", key, f.loc(), "selection mechanism of native_minmax not recognised")]
    probs = []
    for x in impure:
        probs.append("the running best is replaced under a condition that is more than the comparison of the new key with the best key "
                     "(line %s): a row can take over although it does not compare better (e.g. a nil key-function result mistaken for "
                     "'no candidate yet')" % x.get("ln"))
    for x, what, first in sel:
        if not first:
            probs.append("%s (line %s) returns the LAST of several equal extremes" % (what, x.get("ln")))
    for x, ops in updates:
        if any(o in ("Le", "Ge", "Eq") for o in ops):
            probs.append("the running best is replaced under a non-strict comparison %s (line %s): a later row with an equal key "
                         "replaces an earlier one" % (ops, x.get("ln")))
    unclear = []
    if updates:
        # the scan must run front to back
        for_loops = set()
        for s_ in sc.searches(f):
            if s_["kind"] == "for":
                for_loops |= set(id(y) for y in hir_walk(s_["node"]) if y.get("k") == "loop")
            if s_["kind"] == "for" and any(id(u[0]) in set(id(y) for y in hir_walk(s_["node"])) for u in updates):
                d, _i = sc.direction(s_)
                if d != "forward":
                    probs.append("the scan runs back to front (line %s)" % s_["ln"])
        # ... also when it is written as `while` / `loop` with an index or an iterator advanced by hand
        for u, _ops in updates:
            encl = [y for y in hir_walk(f.hir["body"]) if y.get("k") == "loop" and any(z is u for z in hir_walk(y))]
            if not encl:
                unclear.append("the replacement (line %s) is not inside a loop" % u.get("ln"))
                continue
            lp = encl[-1]              # innermost
            if id(lp) in for_loops:
                continue
            dirs = set()
            # (a) rows[i] with i stepped by a constant
            idx_ids = set(hir_local_id(hu.strip_casts(y["idx"])) for y in hir_walk(lp) if y.get("k") == "index") - {None}
            for y in hir_walk(lp):
                if y.get("k") in ("assign", "assign_op") and hir_local_id(hu.strip_all(y["l"])) in idx_ids:
                    step = None
                    if y["k"] == "assign_op" and hu.is_int_lit(y["r"]) and y["op"] in ("AddAssign", "SubAssign"):
                        step = hu.int_lit(y["r"]) * (1 if y["op"] == "AddAssign" else -1)
                    elif y["k"] == "assign":
                        r = hu.strip_casts(y["r"])
                        if r is not None and r.get("k") == "bin" and r["op"] in ("Add", "Sub") and hu.is_int_lit(r["r"]) and \
                                hir_local_id(hu.strip_casts(r["l"])) in idx_ids:
                            step = hu.int_lit(r["r"]) * (1 if r["op"] == "Add" else -1)
                    dirs.add("?" if not step else ("forward" if step > 0 else "backward"))
            # (b) it.next() on an iterator created before the loop
            for y in hir_walk(lp):
                if y.get("k") in ("mcall", "call") and any(c.endswith("Iterator::next") or c.endswith("DoubleEndedIterator::next_back") for c in hir_callee(y)):
                    recv = y["recv"] if y.get("k") == "mcall" else (y["args"][0] if y["args"] else None)
                    lid = hir_local_id(hu.strip_all(recv)) if recv is not None else None
                    ins = inits.get(lid, []) if lid is not None else []
                    if len(ins) != 1:
                        dirs.add("?")
                        continue
                    ad, _b = sc._chain(f, ins[0])
                    rev = (ad.count("rev") % 2 == 1) != any(c.endswith("next_back") for c in hir_callee(y))
                    dirs.add("backward" if rev else "forward")
            if dirs == {"forward"}:
                continue
            if "backward" in dirs and "?" not in dirs and len(dirs) == 1:
                probs.append("the scan runs back to front (line %s)" % lp.get("ln"))
            else:
                unclear.append("direction of the hand-written scan (line %s) not recognised" % lp.get("ln"))
    if probs:
        res.append(bad("C09.F", key, f.loc(), "ties are not resolved in favour of the first row: " + "; ".join(probs)))
    elif unclear:
        res.append(undecided("C09.F", key, f.loc(), "; ".join(unclear)))
    else:
        res.append(ok("C09.F", key, f.loc(), "first of equal keys wins (%s)" % ", ".join([w for _x, w, _f in sel] + ["strict comparison %s in a forward scan" % o for _x, o in updates])))
    return res


def rule_p(F):
    """C09.P: the card programs of filter / map / any have the shape their contracts need (matched on the tree that
    stdlib.rs builds, read back from the HIR - the card program is data in the source):
      all   the loop runs over the function's first parameter with all of (i, k, v) bound; the callback is the second
            parameter, called with the loop's own variables; the three functions pass them in the same order
      filter  result table created empty before the loop, returned after it; inside the loop exactly one store
              result[k] = v, executed only under the callback's result
      map     exactly one store result[k] = callback(..), unconditional
      any     under the callback's result the loop *returns the key*; after the loop the function returns nil"""
    from cao import cardtree as ct
    res = []
    trees = {}
    for name in ("filter", "map", "any"):
        f = F.fn("stdlib::" + name)
        t = ct.tree(F, f.hir["body"])
        if not (isinstance(t, dict) and t.get("op") == "function" and len(t["params"]) == 2):
            raise AnchorMissing("card program of stdlib::%s (got %s)" % (name, t.get("op") if isinstance(t, dict) else type(t)))
        trees[name] = (f, t)
    orders = {}
    for name, (f, t) in trees.items():
        p_iter, p_cb = t["params"]
        loops = [x for x in t["cards"] if isinstance(x, dict) and x.get("op") == "ForEach"]
        loc = f.loc()

        def emit(clause, good, msg_ok, msg_bad):
            key = "C09/P/%s/%s" % (name, clause)
            res.append(ok("C09.P", key, loc, msg_ok) if good else bad("C09.P", key, loc, "std.%s: %s" % (name, msg_bad)))

        if len(loops) != 1:
            emit("one-loop-over-the-input", False, "", "the card program has %d for-each loops at top level" % len(loops))
            continue
        fe = loops[0]["args"][0]["named"]
        li, lk, lv = fe.get("i"), fe.get("k"), fe.get("v")
        emit("one-loop-over-the-input", ct.is_read(fe.get("iterable"), p_iter) and all(isinstance(x, str) for x in (li, lk, lv)),
             "for-each over `%s` binding i=%s k=%s v=%s" % (p_iter, li, lk, lv),
             "the loop does not run over the input parameter `%s` with index, key and value bound (iterable=%s, i=%s, k=%s, v=%s)"
             % (p_iter, fe.get("iterable"), li, lk, lv))
        body = fe.get("body")
        calls = [x for x in ct.walk(body) if x.get("op") == "dynamic_call"]
        good_cb = len(calls) == 1 and ct.is_read(calls[0]["named"].get("function"), p_cb)
        args = calls[0]["named"].get("args") if calls else None
        argn = [a["args"][0] if ct.is_read(a) else None for a in args] if isinstance(args, list) else []
        emit("callback-gets-the-row", good_cb and sorted(x or "?" for x in argn) == sorted([li, lk, lv]),
             "callback `%s` called once per row with (%s)" % (p_cb, ", ".join(map(str, argn))),
             "the per-row call is not `%s(<index>, <value>, <key>)` of the loop's own variables (calls: %d, arguments: %s)" % (p_cb, len(calls), argn))
        orders[name] = tuple({li: "i", lk: "k", lv: "v"}.get(a, "?") for a in argn)
        stmts = body["args"][-1] if isinstance(body, dict) and body.get("op") == "composite_card" and isinstance(body["args"][-1], list) else [body]
        stores = [x for x in ct.walk(body) if x.get("op") in ("set_property", "SetProperty", "AppendTable", "append_table")]
        top_sets = [x for x in t["cards"] if isinstance(x, dict) and x.get("op") == "set_var"]
        rets = [x for x in t["cards"] if isinstance(x, dict) and x.get("op") in ("return_card", "Return")]
        if name in ("filter", "map"):
            rvar = top_sets[0]["args"][0] if top_sets else None
            created = bool(top_sets) and isinstance(top_sets[0]["named"].get("value"), dict) and top_sets[0]["named"]["value"].get("op") == "CreateTable" \
                and t["cards"].index(top_sets[0]) < t["cards"].index(loops[0])
            returned = bool(rets) and ct.is_read(rets[-1]["args"][0], rvar) and t["cards"].index(rets[-1]) > t["cards"].index(loops[0])
            emit("result-is-a-fresh-table-returned-after-the-loop", created and returned,
                 "`%s` = CreateTable before the loop, returned after it" % rvar,
                 "the result is not a table created empty before the loop and returned after it (created=%s returned=%s)" % (created, returned))
            one = len(stores) == 1 and stores[0].get("op") == "set_property"
            st = stores[0]["named"] if one else {}
            keyed = one and ct.is_read(st.get("table"), rvar) and ct.is_read(st.get("key"), lk)
            if name == "filter":
                val_ok = one and ct.is_read(st.get("value"), lv)
                # the store is the then-branch of an IfTrue whose condition is the callback call
                guarded = False
                for x in ct.walk(body):
                    if x.get("op") == "IfTrue" and isinstance(x["args"][0], list) and len(x["args"][0]) == 2:
                        cond, then = x["args"][0]
                        if ct.unwrap_composite(cond) is calls[0] if calls else False:
                            guarded = one and any(y is stores[0] for y in ct.walk(then))
                emit("keeps-the-row-under-its-own-key", keyed and val_ok,
                     "result[%s] = %s" % (lk, lv),
                     "the row is not stored as result[<key of the row>] = <value of the row> (store: %s)" % ({k_: (v_.get("args") if isinstance(v_, dict) else v_) for k_, v_ in st.items()}))
                emit("keeps-the-row-only-if-the-callback-says-so", guarded,
                     "the store is the then-branch of IfTrue(callback(..))",
                     "the store is not executed exactly when the callback's result is truthy (it must be the then-branch of an IfTrue on the call)")
            else:
                v = ct.unwrap_composite(st.get("value")) if one else None
                val_ok = one and calls and v is calls[0]
                uncond = one and any(y is stores[0] for y in stmts)
                emit("stores-the-callback-result-under-the-row-key", keyed and val_ok and uncond,
                     "result[%s] = %s(..) for every row" % (lk, p_cb),
                     "each row's callback result is not stored unconditionally as result[<key of the row>] (keyed=%s value-is-the-call=%s unconditional=%s)"
                     % (keyed, bool(val_ok), uncond))
        else:
            hit = False
            for x in ct.walk(body):
                if x.get("op") == "IfTrue" and isinstance(x["args"][0], list) and len(x["args"][0]) == 2:
                    cond, then = x["args"][0]
                    then = ct.unwrap_composite(then)
                    if calls and ct.unwrap_composite(cond) is calls[0] and isinstance(then, dict) and then.get("op") == "return_card" \
                            and ct.is_read(then["args"][0], lk):
                        hit = True
            emit("returns-the-key-of-the-first-hit", hit and not stores,
                 "IfTrue(callback(..)) -> return %s" % lk,
                 "the first row whose callback is truthy does not end the loop by returning its key")
            tail_nil = bool(rets) and t["cards"].index(rets[-1]) > t["cards"].index(loops[0]) and isinstance(rets[-1]["args"][0], dict) \
                and rets[-1]["args"][0].get("op") == "ScalarNil"
            emit("returns-nil-without-a-hit", tail_nil, "return nil after the loop", "the function does not return nil after a loop without a hit")
    key = "C09/P/callback-argument-order-agrees"
    if len(set(orders.values())) == 1 and "?" not in next(iter(orders.values()), ("?",)):
        res.append(ok("C09.P", key, trees["filter"][0].loc(), "filter, map and any all call back with %s" % (next(iter(orders.values())),)))
    else:
        res.append(bad("C09.P", key, trees["filter"][0].loc(), "filter / map / any pass the row to the callback in different orders (%s): one callback cannot "
                       "serve the three functions, and at least one of them disagrees with the documented (index, value, key)" % orders))
    return res


def param_declaration_order(F, pf):
    """In which order does the compiler declare a function's parameters as locals (`add_local` once per parameter)?
    -> set of 'forward' / 'reverse' over the declaration loops found: a loop in process_function itself, or in a function
    it hands (part of) one of its own parameters to, that calls add_local per element. Recognised loops:
    `for p in xs.iter()[.rev()]` and `while let Some((p, rest)) = xs.split_last() / split_first()`."""
    from cao import scoping as sc
    out = set()

    def declares(node):
        return any(y.get("k") == "mcall" and y["name"] == "add_local" for y in hir_walk(node))

    def loops_of(g, only_ids=None):
        """only_ids: the iterated collection must be (derived from) one of these locals of g"""
        def base_ok(e):
            if only_ids is None:
                return True
            e = sc._resolve_base(g, e)
            fc = hu.field_chain(e) if e is not None else None
            return fc is not None and fc[0] in only_ids
        for_loops = set()
        for s_ in sc.searches(g):
            if s_["kind"] != "for":
                continue
            for y in hir_walk(s_["node"]):
                if y.get("k") == "loop":
                    for_loops.add(id(y))
                    break
            if declares(s_["node"]) and s_["base"] is not None and base_ok(s_["base"]) and \
                    all(a in sc.ITER_SOURCES + ("rev", "copied", "cloned", "by_ref") for a in s_["adapters"]):
                out.add(sc.direction(s_)[0])
        for x in hir_walk(g.hir["body"]):
            if x.get("k") == "loop" and id(x) not in for_loops and x.get("source") != "ForLoop" and declares(x):
                # while let Some((p, rest)) = remaining.split_last() { ..; remaining = rest }
                for y in hir_walk(x):
                    if y.get("k") == "let" and y.get("init") is not None:
                        i_ = hu.strip_all(y["init"])
                        if i_ is not None and i_.get("k") == "mcall" and i_["name"] in ("split_last", "split_first", "split_last_mut", "split_first_mut"):
                            recv = hu.strip_all(i_["recv"])
                            lid = hir_local_id(recv) if recv is not None else None
                            # the peeled slice: a local that starts as the collection and is re-assigned inside the loop
                            ins = hu.let_inits(g).get(lid, []) if lid is not None else []
                            outside = [e for e in ins if not any(w is e for w in hir_walk(x))]
                            if lid is not None and len(outside) == 1 and base_ok(outside[0]):
                                out.add("reverse" if i_["name"].startswith("split_last") else "forward")
    loops_of(pf)
    pf_params = set(i for p_ in pf.hir.get("params", []) for i, _n in pat_bindings_(p_))
    for x in hir_walk(pf.hir["body"]):
        if x.get("k") not in ("call", "mcall"):
            continue
        for n in hir_callee(x):
            g = F.fn(n, required=False)
            if g is None or not g.hir or g.is_closure or g is pf or not n.startswith("compiler::"):
                continue
            args = ([x["recv"]] if x.get("k") == "mcall" else []) + list(x["args"])
            ids = set()
            for a, p_ in zip(args, g.hir.get("params", [])):
                fc = hu.field_chain(hu.strip_all(a)) if a is not None else None
                if fc is not None and fc[0] in pf_params and fc[2] != "self" and p_.get("k") == "bind":
                    ids.add(p_["id"])
            if ids:
                loops_of(g, ids)
            break
    return out


def rule_k(F):
    """C09.K: min / max / sorted compare the rows *by value*. Three sites have to agree for that: the natives push the two
    fields of a row in one fixed order before every callback (sibling agreement over all run_function sites), the compiler
    binds pushed values to parameters in a fixed direction (process_function declares the parameters in reverse), and
    `row_to_value` - the key function that min / max / sorted hand to the _by_key variants - returns the parameter that
    receives the row's value under that convention."""
    from cao import cardtree as ct
    res = []
    def row_field(f, du, op, depth=0):
        """(tuple field the pushed operand was read from | None, local the field was read from | None)"""
        p = op_place(op)
        seen = set()
        ROW = "(value::Value,value::Value)"
        while p is not None and depth < 12:
            depth += 1
            # a field of a row: a Value read out of a (Value, Value) tuple. The type of the place is followed along the
            # projection (`.0` of the Option<(&row, &[row])> that split_first returns is not a field of a row)
            cur = (f.local_ty(p["l"]) or "").replace(" ", "")
            hit = None
            for e in p["p"]:
                if e["k"] == "field":
                    fty = str(e.get("ty") or "").replace(" ", "")
                    if fty == "value::Value" and e["name"] in ("0", "1") and (cur is None or cur == ROW):
                        hit = e["name"]
                    elif fty == "value::Value" and e["name"] in ("0", "1", "2") and cur is not None and cur.count("value::Value") == 3 \
                            and cur.startswith("(value::Value,"):
                        hit = e["name"]          # (key, k, v): rows with the computed key in front
                    cur = fty or None
                elif e["k"] == "deref":
                    cur = re.sub(r"^(&('[A-Za-z_0-9]+)?(mut)?|\*const|\*mut)", "", cur) if cur else None
                elif e["k"] == "downcast":
                    pass
                else:
                    cur = None
            if hit is not None:
                return hit, p["l"]
            if p["l"] in seen:
                return None, None
            seen.add(p["l"])
            d = du.sole_def(p["l"])
            if d is None or d[2] != "assign":
                return None, p["l"]
            rv = d[3]["rv"]
            if rv["k"] in ("use", "cast"):
                p = op_place(rv["op"])
            elif rv["k"] in ("ref", "rawptr"):
                p = rv["place"]
            else:
                return None, p["l"]
        return None, None

    def own_sites(f):
        """run_function calls written in f: (line, [(field, base local) of the two values pushed last before it])"""
        du = DefUse(f)
        cfg = f.cfg
        out = []
        pushes = [(bi, t) for bi, t in mu.calls(f) if any(n.endswith("Vm::stack_push") for n in callee_names(t["func"]))]
        for bi, t in mu.calls(f):
            if not any(n.endswith("Vm::run_function") for n in callee_names(t["func"])):
                continue
            doms = [(pb, pt) for pb, pt in pushes if cfg.dominates(pb, bi) and pb != bi]
            # nearest two: those not dominating another dominating push ... order by dominance depth
            doms.sort(key=lambda x: len(cfg.dom[x[0]]))
            out.append((t.get("ln"), [row_field(f, du, pt["args"][1]) for _pb, pt in doms[-2:]]))
        return out

    def sites_of(f, depth=0):
        """the callback sites f reaches: its own, and those of the library's private helpers it calls (`push the row, call
        the key function` moved into a function of its own). A helper that pushes fields of one of its parameters is
        instantiated per call: the argument is a row passed whole (same fields) or a tuple built from a row's fields.
        -> (line in f, [(field, base local in f)])"""
        out = own_sites(f)
        if depth >= 2:
            return out
        du = DefUse(f)
        for _bi, t in mu.calls(f):
            g = next((g_ for g_ in (F.fn(n, required=False) for n in callee_names(t["func"]))
                      if g_ is not None and g_.mir and not g_.is_closure and g_.short.startswith("stdlib::") and g_ is not f), None)
            if g is None:
                continue
            for _ln, fields in sites_of(g, depth + 1):
                inst = []
                for fld, base in fields:
                    if fld is not None and (base is None or not (1 <= base <= g.mir["arg_count"])):
                        inst.append((fld, None))        # a field of a row the helper holds itself (a row of the slice it scans)
                        continue
                    if fld is None or base is None or base > len(t["args"]):
                        inst.append((None, None))       # not a field of a parameter: nothing known at this call
                        continue
                    arg = t["args"][base - 1]
                    al = (op_place(arg) or {}).get("l")
                    d = du.sole_def(al) if al is not None and not op_place(arg)["p"] else None
                    if d is not None and d[2] == "assign" and d[3]["rv"]["k"] == "agg" and d[3]["rv"]["agg"]["k"] == "tuple":
                        ops = d[3]["rv"]["ops"]
                        inst.append(row_field(f, du, ops[int(fld)]) if int(fld) < len(ops) else (None, None))
                    else:
                        whole, wl = row_field(f, du, arg)
                        ty = f.local_ty(al) if al is not None else ""
                        # a (key, value) row handed over as it is
                        inst.append((fld, wl) if whole is None and ty.replace(" ", "") == "(value::Value,value::Value)" else (None, None))
                out.append((t.get("ln"), inst))
        return out
    sites = []
    for nat in ("stdlib::native_minmax", "stdlib::native_sorted"):
        f = F.fn(nat)
        for ln, fields in sites_of(f):
            sites.append((f, ln, [x[0] for x in fields]))
    if len(sites) < 2:
        raise AnchorMissing("callback sites (run_function) in native_minmax / native_sorted (found %d)" % len(sites))
    orders = set(tuple(x[2]) for x in sites)
    key = "C09/K/natives/callbacks-get-the-row-in-one-order"
    if len(orders) == 1 and None not in next(iter(orders)) and len(next(iter(orders))) == 2 and len(set(next(iter(orders)))) == 2:
        res.append(ok("C09.K", key, sites[0][0].loc(sites[0][1]), "all %d callback sites push row fields %s (tuple positions of (key, value))" % (len(sites), next(iter(orders)))))
    else:
        f, ln, _ = sites[0]
        res.append(bad("C09.K", key, f.loc(ln), "the natives push the row for the key function in different orders / not as its two fields at the "
                       "%d callback sites (%s): one key function sees (key, value) at one site and (value, key) at another - the first row of "
                       "min/max or the rows of sorted are compared by the wrong field" % (len(sites), [(x[0].name, x[2]) for x in sites])))
        return res
    pushed = next(iter(orders))          # e.g. ('1', '0'): value first, then key
    pv = pushed.index("1")               # position of the value among the pushes (rows are (key, value) tuples)
    pf = F.fn("compiler::Compiler::process_function")
    dirs = param_declaration_order(F, pf)
    if len(dirs) != 1:
        raise AnchorMissing("parameter declaration loop in process_function%s" % (" (conflicting directions %s)" % sorted(dirs) if dirs else ""))
    reversed_binding = next(iter(dirs)) == "reverse"
    vk = F.fn("stdlib::value_key_fn")
    t = ct.tree(F, vk.hir["body"])
    key = "C09/K/row_to_value/returns-the-rows-value"
    if not (isinstance(t, dict) and t.get("op") == "function" and len(t["params"]) == 2 and len(t["cards"]) == 1):
        res.append(undecided("C09.K", key, vk.loc(), "row_to_value is not a two-parameter single-card function"))
        return res
    want = t["params"][(1 - pv) if reversed_binding else pv]
    c = t["cards"][0]
    got = c["args"][0]["args"][0] if isinstance(c, dict) and c.get("op") == "return_card" and ct.is_read(c["args"][0]) else None
    if got == want:
        res.append(ok("C09.K", key, vk.loc(), "value pushed at position %d, parameters bound %s: `%s` receives the value and is returned"
                      % (pv, "in reverse" if reversed_binding else "in order", want)))
    else:
        res.append(bad("C09.K", key, vk.loc(), "row_to_value returns `%s`, but under the binding convention (parameters declared %s; the natives push "
                       "the row fields in the order %s) the row's value arrives in `%s`: std.min / max / sorted order the rows by their keys"
                       % (got, "in reverse" if reversed_binding else "in order", pushed, want)))
    # the wrappers hand row_to_value and their own input on, in the order the _by_key functions declare them
    for name, callee in (("min", "min_by_key"), ("max", "max_by_key"), ("sorted", "sorted_by_key")):
        f = F.fn("stdlib::" + name)
        t = ct.tree(F, f.hir["body"])         # constructor helpers (`minmax("std.min_by_key")`) are read inline
        tc = ct.tree(F, F.fn("stdlib::" + callee).hir["body"])
        key = "C09/K/%s/forwards-input-and-row_to_value" % name
        calls = [x for x in ct.walk(t) if x.get("op") == "call_function"] if isinstance(t, dict) else []
        if len(calls) != 1 or not isinstance(tc, dict) or tc.get("op") != "function":
            res.append(undecided("C09.K", key, f.loc(), "wrapper shape not recognised"))
            continue
        args = calls[0]["named"].get("args")
        kinds = []
        for a in args if isinstance(args, list) else []:
            if ct.is_read(a, t["params"][0]):
                kinds.append("input")
            elif isinstance(a, dict) and a.get("op") == "function_value" and str(a["args"][0]).rsplit(".", 1)[-1] == "row_to_value":
                kinds.append("keyfn")
            else:
                kinds.append("?")
        # callee parameters: which one is forwarded to the native as the key function (second native argument)
        ncalls = [x for x in ct.walk(tc) if x.get("op") == "call_native"]
        nargs = ncalls[0]["named"].get("args") if ncalls else None
        roles = {}
        if isinstance(nargs, list) and len(nargs) == 2 and all(ct.is_read(a) for a in nargs):
            roles[nargs[0]["args"][0]] = "input"
            roles[nargs[1]["args"][0]] = "keyfn"
        # static call: arguments are pushed in list order, parameters bound as above
        params = list(tc["params"])
        expect = [roles.get(p_) for p_ in (reversed(params) if reversed_binding else params)]
        if kinds == expect and "?" not in kinds and None not in expect:
            res.append(ok("C09.K", key, f.loc(), "passes %s to %s%s" % (kinds, callee, tuple(params))))
        else:
            res.append(bad("C09.K", key, f.loc(), "std.%s passes %s to %s, whose parameters (bound %s) expect %s: the table arrives as the key "
                           "function or the other way round" % (name, kinds, callee, "in reverse" if reversed_binding else "in order", expect)))
    return res


def rule_q(F):
    """C09.Q: the library's card programs refer to other library functions by their full path `std.<name>`. Name resolution
    (C08.O, documented order) tries a bare name in the root module of the user's program first, so a bare reference is
    bound to whatever the user calls `row_to_value`, `min_by_key`, ... and the contract of std.min / max / sorted then
    depends on the names the user picked."""
    from cao import cardtree as ct
    res = []
    exported, unresolved = exported_functions(F)
    exported = set(exported)
    if len(exported) < 8:
        raise AnchorMissing("names exported by standard_library() (found %d)" % len(exported))
    n = 0
    for f in F.fns:
        if not f.hir or f.is_closure or not f.short.startswith("stdlib::") or f.short.startswith("stdlib::native_") or f.short.startswith("stdlib::tests"):
            continue
        # string arguments that flow into call_function / function_value, including through a helper's parameter
        refs = []
        for x in hir_walk(f.hir["body"]):
            if x.get("k") == "call" and any(n_.endswith("Card::call_function") or n_.endswith("Card::function_value") for n_ in hir_callee(x)):
                a0 = hu.strip_all(x["args"][0])
                if a0 is not None and a0.get("k") == "lit" and a0["lit"]["k"] == "str":
                    refs.append((a0["lit"]["v"], x))
            if x.get("k") == "call" and any(n_.startswith("stdlib::") for n_ in hir_callee(x)):
                g = F.fn(hir_callee(x)[0], required=False)
                if g is not None and g.hir and any(any(n_.endswith("Card::call_function") for n_ in hir_callee(y)) and
                                                   hir_local_id(hu.strip_all(y["args"][0])) is not None
                                                   for y in hir_walk(g.hir["body"]) if y.get("k") == "call"):
                    for a in x["args"]:
                        a = hu.strip_all(a)
                        if a is not None and a.get("k") == "lit" and a["lit"]["k"] == "str":
                            refs.append((a["lit"]["v"], x))
        for name, x in refs:
            n += 1
            key = "C09/Q/%s/refers-to-%s-by-full-path" % (f.short.rsplit("::", 1)[-1], name.rsplit(".", 1)[-1])
            if name.startswith("std.") and name[4:] in exported:
                res.append(ok("C09.Q", key, f.loc(x.get("ln")), "`%s`" % name))
            elif unresolved and name.rsplit(".", 1)[-1] not in exported:
                res.append(undecided("C09.Q", key, f.loc(x.get("ln")), "`%s`: standard_library() has %d entr(ies) whose name could not be resolved" % (name, unresolved)))
            elif name in exported or name.rsplit(".", 1)[-1] in exported:
                res.append(bad("C09.Q", key, f.loc(x.get("ln")), "the library function %s refers to the library's `%s` as `%s`: a bare name is looked up "
                               "in the root module of the user's program first, so a user function of that name replaces the helper and "
                               "std.min / max / sorted no longer meet their contracts" % (f.short.rsplit("::", 1)[-1], name.rsplit(".", 1)[-1], name)))
            else:
                res.append(bad("C09.Q", key, f.loc(x.get("ln")), "the library function %s refers to `%s`, which standard_library() does not export"
                               % (f.short.rsplit("::", 1)[-1], name)))
    if n < 5:
        raise AnchorMissing("references between library functions (found %d)" % n)
    return res


# ---- "is it a table?" probes --------------------------------------------------------------------------------------

def _recv_root(e):
    """local at the root of `x`, `&x`, `*x`, `x.field`, `x.as_ref()`, `unsafe { x }` (argument-less adapter calls are looked through)"""
    for _ in range(8):
        e = hu.strip_all(e)
        if e is None:
            return None
        if e.get("k") == "field":
            e = e["e"]
        elif e.get("k") == "mcall" and not e["args"]:
            e = e["recv"]
        else:
            break
    return hir_local_id(e) if e is not None else None


def _is_none(e):
    e = hu.strip_all(e)
    return e is not None and e.get("k") == "path" and e["path"]["res"].get("k") == "def" and \
        short(e["path"]["res"].get("ctor_of") or e["path"]["res"].get("path", "")).endswith("::None")


def none_unless_table(F, g, pidx, depth=0):
    """does the crate function g (returning an Option) return None whenever its parameter number pidx (receiver = 0) is not
    a table object? Decided from its body:
      match <param> { ..Table.. => _, Object(o) => <probe of o>, <every other arm> => None }       (Value::as_table, CaoLangObject::as_table)
      let x = <probe of param>?; ...                                                               (None is passed on by `?`)"""
    if g is None or not g.hir or g.is_closure or depth > 4 or "Option<" not in str((g.raw.get("sig") or {}).get("output")):
        return False
    params = g.hir.get("params", [])
    if pidx >= len(params) or params[pidx].get("k") != "bind":
        return False
    pid = params[pidx]["id"]
    body = hir_strip(g.hir["body"])
    tail = hu.strip_all(body["block"]["expr"]) if body.get("k") == "block" and body["block"].get("expr") is not None else (body if body.get("k") != "block" else None)
    stmts = body["block"]["stmts"] if body.get("k") == "block" else []
    # (i) `<probe of the parameter>?` as a statement of the body
    for st in stmts:
        e = st.get("init") if st["k"] == "let" else st.get("e")
        e = hir_strip(e) if e is not None else None
        if e is not None and e.get("k") == "match" and str(e.get("source", "")).startswith("TryDesugar"):
            sc_ = hir_strip(e["scrut"])
            inner = hir_strip(sc_["args"][0]) if sc_.get("k") == "call" and sc_["args"] else None
            if inner is not None and table_probe_of(F, inner, {pid}, depth + 1):
                return True
        if any(y.get("k") == "ret" for y in hir_walk(e)) if e is not None else False:
            break           # an exit before the probe
    # (ii) a match on the parameter
    if tail is not None and tail.get("k") == "match" and not stmts:
        fc = hu.field_chain(tail["scrut"])
        if fc is None or fc[0] != pid:
            return False
        for a in tail["arms"]:
            vs = [v[0].rsplit("::", 1)[-1] for v in pat_variants(a["pat"])]
            if "Table" in vs:
                continue
            if vs and all(v == "Object" for v in vs):
                binds = set(i for i, _n in pat_bindings_(a["pat"]))
                if not table_probe_of(F, a["body"], binds, depth + 1):
                    return False
                continue
            if not _is_none(a["body"]):
                return False
        return True
    return False


def table_probe_of(F, e, ids, depth=0):
    """is the expression a call that yields None unless (one of) the locals `ids` holds a table: `x.as_table()`,
    `copy_rows(x)` ..."""
    e = hu.strip_all(e)
    if e is None or e.get("k") not in ("call", "mcall"):
        return False
    args = ([e["recv"]] if e.get("k") == "mcall" else []) + list(e["args"])
    for n in hir_callee(e):
        g = F.fn(n, required=False)
        if g is None:
            continue
        for j, a in enumerate(args):
            if _recv_root(a) in ids and none_unless_table(F, g, j, depth):
                return True
    return False


def nontable_exits(F, f, it_id):
    """`let Some(..) = <probe of the input> else { <exit> }` statements of a native: [(let statement, block it is in,
    is the exit `return Ok(<input>)`)]. The probe may be applied to the input or to the object bound by a match on it."""
    ids = {it_id}
    for m in hir_walk(f.hir["body"]):
        if m.get("k") == "match" and (hu.field_chain(m["scrut"]) or (None,))[0] == it_id:
            for a in m["arms"]:
                ids |= set(i for i, _n in pat_bindings_(a["pat"]))
    out = []
    for x in hir_walk(f.hir["body"]):
        bl = x.get("block") if x.get("k") == "block" else (x.get("body") if x.get("k") == "loop" else None)
        for st in (bl or {}).get("stmts", []):
            if st["k"] != "let" or not st.get("els") or st.get("init") is None:
                continue
            if not any(v[0].endswith("::Some") for v in pat_variants(st["pat"])) or not table_probe_of(F, st["init"], ids):
                continue
            els = st["els"]
            body = [s_["e"] for s_ in els["stmts"] if s_["k"] in ("semi", "expr")] + ([els["expr"]] if els.get("expr") is not None else [])
            good = False
            if len(body) == 1 and len(els["stmts"]) + (1 if els.get("expr") is not None else 0) == 1:
                r = hir_strip(body[0])
                v = hu.strip_all(r.get("e")) if r.get("k") == "ret" and r.get("e") is not None else None
                good = v is not None and v.get("k") == "call" and any(n_.endswith("::Ok") for n_ in hir_callee(v)) and \
                    hir_local_id(hu.strip_all(v["args"][0])) == it_id
            out.append((st, bl, good))
    return out


def rule_a(F):
    """C09.A: to_array returns the values re-keyed 0..n-1 in order: the native walks the input's own iterator with nothing
    but `enumerate` on it (no rev / skip / filter / step_by), and inserts enumerate's index (unchanged) as the key and the
    row's value (second field of the row) as the value into the fresh table it returns."""
    res = []
    f = F.fn("stdlib::native_to_array")
    key = "C09/A/native_to_array/values-rekeyed-by-position"
    loops = [x for x in hir_walk(f.hir["body"]) if x.get("k") == "match" and x.get("source") == "ForLoopDesugar"
             and any(y.get("k") == "loop" for y in hir_walk(x))]
    loops = [x for x in loops if (x.get("e") or x.get("scrut") or {}).get("k") == "call"]
    if len(loops) != 1:
        raise AnchorMissing("the for loop of native_to_array (found %d)" % len(loops))
    head = loops[0].get("e") or loops[0].get("scrut")
    chain = []
    maps = []
    e = hu.strip_all(head["args"][0])
    for _ in range(12):
        if e is not None and e.get("k") == "mcall":
            chain.append(e["name"])
            if e["name"] == "map":
                maps.append(hu.strip_casts(e["args"][0]) if e["args"] else None)
            e = hu.strip_all(e["recv"])
        elif e is not None and hir_local_id(e) is not None and len(hu.let_inits(f).get(hir_local_id(e), [])) == 1 and \
                any(w in str(e.get("ty")) for w in ("Iterator", "iter::", "Iter<")):
            e = hu.strip_all(hu.let_inits(f)[hir_local_id(e)][0])      # `let values = t.iter().map(..); for .. in values.enumerate()`
        else:
            break
    # `(0..).zip(t.iter())` / `t.iter().zip(0..)`: the position is counted by a range that starts at 0 (step 1)
    zipped = None
    h0 = hu.strip_all(head["args"][0])
    if h0 is not None and h0.get("k") == "mcall" and h0["name"] == "zip" and h0["args"]:
        def from_zero(z):
            z = hu.strip_all(z)
            if z is None or z.get("k") != "struct" or short(z["path"]["res"].get("path", "")).rsplit("::", 1)[-1] not in ("RangeFrom", "Range"):
                return False
            st_ = next((fl["e"] for fl in z["fields"] if fl["name"] == "start"), None)
            return st_ is not None and hu.is_int_lit(st_) and hu.int_lit(st_) == 0

        def rows_chain(z):
            names = []
            z = hu.strip_all(z)
            while z is not None and z.get("k") == "mcall":
                names.append(z["name"])
                z = hu.strip_all(z["recv"])
            return names
        sides = [h0["recv"], h0["args"][0]]
        for pos in (0, 1):
            if from_zero(sides[pos]):
                zipped = (pos, rows_chain(sides[1 - pos]))
    problems = []
    unclear = []
    # `.map(|(_, v)| *v)` in front of enumerate(): the rows are narrowed to their values first
    projected = None
    if chain == ["enumerate", "map", "iter"] and len(maps) == 1:
        clo = maps[0]
        if clo is not None and clo.get("k") == "closure" and len(clo.get("params", [])) == 1 and clo["params"][0].get("k") == "tuple" \
                and len(clo["params"][0]["pats"]) == 2:
            b_ = hu.strip_all(clo["body"])
            if b_ is not None and b_.get("k") == "un" and b_.get("op") == "Deref":
                b_ = hu.strip_all(b_["e"])
            got = hir_local_id(b_) if b_ is not None else None
            pats = clo["params"][0]["pats"]
            if got is not None and pats[1].get("k") == "bind" and got == pats[1]["id"]:
                projected = "value"
            elif got is not None and pats[0].get("k") == "bind" and got == pats[0]["id"]:
                projected = "key"
        if projected is None:
            unclear.append("what the map() in front of enumerate() yields is not recognised")
    arm = None
    for y in hir_walk(loops[0]):
        if y.get("k") == "match" and y is not loops[0] and y.get("source") == "ForLoopDesugar":
            for a in y["arms"]:
                if a["pat"].get("k") in ("tuple_struct", "struct") and pat_bindings_(a["pat"]):
                    arm = a
    ins = [y for y in hir_walk(loops[0]) if y.get("k") == "mcall" and any(n.endswith("CaoLangTable::insert") for n in hir_callee(y))]
    if arm is None or len(ins) != 1:
        raise AnchorMissing("row pattern / insert call in native_to_array")

    def tuple_elems(p):
        while p is not None and p.get("k") in ("tuple_struct", "struct") and not p.get("k") == "tuple":
            inner = p.get("pats") or [fl["pat"] for fl in p.get("fields", [])]
            if len(inner) != 1:
                return None
            p = inner[0]
        return p["pats"] if p is not None and p.get("k") == "tuple" else None
    a0 = hu.strip_all(ins[0]["args"][0])
    a1 = hu.strip_all(ins[0]["args"][1])
    if a0 is not None and a0.get("k") == "un" and a0.get("op") == "Deref":
        a0 = hu.strip_all(a0["e"])
    if a1 is not None and a1.get("k") == "un" and a1.get("op") == "Deref":
        a1 = hu.strip_all(a1["e"])
    outer = tuple_elems(arm["pat"])
    idx_id = val_id = None
    how = None
    if chain == ["enumerate", "iter"]:
        # the pattern is Some((i, (_, val))): the position is enumerate's index
        how = "for (i, (_, val)) in t.iter().enumerate() { out.insert(i, *val) }"
        if outer and len(outer) == 2 and outer[0].get("k") == "bind" and outer[1].get("k") == "tuple" and len(outer[1]["pats"]) == 2:
            idx_id = outer[0]["id"]
            vp = outer[1]["pats"][1]
            val_id = vp["id"] if vp.get("k") == "bind" else None
        if idx_id is None or hir_local_id(a0) != idx_id:
            problems.append("the key of the inserted row is not enumerate's index as it is")
    elif zipped is not None and zipped[1] == ["iter"]:
        # the pattern is Some((i, (_, val))) or Some(((_, val), i)) with i drawn from 0..
        how = "for (i, (_, val)) in (0..).zip(t.iter()) { out.insert(i, *val) }"
        pos = zipped[0]
        if outer and len(outer) == 2 and outer[pos].get("k") == "bind" and outer[1 - pos].get("k") == "tuple" and len(outer[1 - pos]["pats"]) == 2:
            idx_id = outer[pos]["id"]
            vp = outer[1 - pos]["pats"][1]
            val_id = vp["id"] if vp.get("k") == "bind" else None
        if idx_id is None or hir_local_id(a0) != idx_id:
            problems.append("the key of the inserted row is not the position counted by the range as it is")
    elif zipped is not None:
        problems.append("the rows are visited through %s instead of the table's own iterator" % ".".join(reversed(zipped[1])))
    elif chain == ["enumerate", "map", "iter"] and len(maps) == 1:
        # the pattern is Some((i, val)) over the projected values
        how = "for (i, val) in t.iter().map(|(_, v)| *v).enumerate() { out.insert(i, val) }"
        if outer and len(outer) == 2 and outer[0].get("k") == "bind":
            idx_id = outer[0]["id"]
            val_id = outer[1]["id"] if outer[1].get("k") == "bind" and projected == "value" else None
        if idx_id is None or hir_local_id(a0) != idx_id:
            problems.append("the key of the inserted row is not enumerate's index as it is")
        if projected is None:
            val_id = hir_local_id(a1) if outer and len(outer) == 2 and outer[1].get("k") == "bind" and hir_local_id(a1) == outer[1]["id"] else None
    elif chain == ["iter"]:
        # the pattern is Some((_, val)): the position is a counter the loop keeps itself. It has to start at 0, be the key
        # as it is, and be stepped by exactly 1 once per row, after the insert, on every path through the body
        how = "let mut n = 0; for (_, val) in t.iter() { out.insert(n, *val); n += 1 }"
        if outer and len(outer) == 2:
            vp = outer[1]
            val_id = vp["id"] if vp.get("k") == "bind" else None
        cid = hir_local_id(a0)
        if cid is None:
            problems.append("the rows are visited through iter() without enumerate() and the key of the inserted row is not a position counter")
        else:
            lets = [st for x in hir_walk(f.hir["body"]) if x.get("k") == "block" for st in x["block"]["stmts"]
                    if st["k"] == "let" and st["pat"].get("k") == "bind" and st["pat"]["id"] == cid]
            in_loop = set(id(y) for y in hir_walk(loops[0]))
            writes = [y for y in hir_walk(f.hir["body"]) if y.get("k") in ("assign", "assign_op") and hir_local_id(hu.strip_all(y["l"])) == cid]
            borrowed = [y for y in hir_walk(f.hir["body"]) if y.get("k") == "addr_of" and y.get("mutbl") and hir_local_id(hu.strip_all(y["e"])) == cid]
            body = hir_strip(arm["body"])
            stmts = [st["e"] for st in body["block"]["stmts"] if st["k"] in ("semi", "expr")] + \
                    ([body["block"]["expr"]] if body["block"].get("expr") is not None else []) if body.get("k") == "block" else []
            if len(lets) != 1 or lets[0].get("init") is None or any(id(x) in in_loop for x in [lets[0]["init"]]) or borrowed:
                unclear.append("the counter used as the key is not a plain local initialised once before the loop")
            elif not (hu.is_int_lit(lets[0]["init"]) and hu.int_lit(lets[0]["init"]) == 0):
                iv = hu.int_lit(lets[0]["init"]) if hu.is_int_lit(lets[0]["init"]) else None
                (problems if iv is not None else unclear).append("the position counter starts at %s instead of 0" % (iv if iv is not None else "a computed value"))
            if len(writes) != 1 or id(writes[0]) not in in_loop:
                (unclear if writes else problems).append("the position counter is updated %d times" % len(writes))
            else:
                w = writes[0]
                step = None
                if w["k"] == "assign_op" and w["op"] == "AddAssign" and hu.is_int_lit(w["r"]):
                    step = hu.int_lit(w["r"])
                elif w["k"] == "assign":
                    r = hu.strip_casts(w["r"])
                    if r is not None and r.get("k") == "bin" and r["op"] == "Add":
                        for a_, b_ in ((r["l"], r["r"]), (r["r"], r["l"])):
                            if hir_local_id(hu.strip_casts(a_)) == cid and hu.is_int_lit(b_):
                                step = hu.int_lit(b_)
                if step is None:
                    unclear.append("the update of the position counter is not recognised")
                elif step != 1:
                    problems.append("the position counter is stepped by %s per row" % step)
                wi = next((i for i, st in enumerate(stmts) if hir_strip(st) is w), None)
                ii = next((i for i, st in enumerate(stmts) if any(y is ins[0] for y in hir_walk(st))), None)
                skips = [y for y in hir_walk(arm["body"]) if y.get("k") in ("continue", "break")]
                if wi is None or ii is None or skips:
                    unclear.append("the position counter is not stepped unconditionally once per row")
                elif wi < ii:
                    problems.append("the position counter is stepped before the row is inserted (the keys start at 1)")
    else:
        problems.append("the rows are visited through %s instead of iter().enumerate()" % ".".join(reversed(chain)))
    if val_id is None or hir_local_id(a1) != val_id:
        problems.append("the inserted value is not the row's value (second field of the row)")
    # every result of the Table arm is the freshly built table: no path hands the input (or anything else) back
    params = f.hir.get("params", [])
    it = next((p_ for p_ in params if p_.get("k") == "bind" and p_.get("name") == "iterable"), None)
    fresh = set()
    for lid, es in hu.let_inits(f).items():
        if any(y.get("k") == "mcall" and y["name"] == "init_table" for e_ in es for y in hir_walk(e_)):
            fresh.add(lid)
    table_arm = None
    for m in hir_walk(f.hir["body"]):
        if m.get("k") == "match":
            for a in m["arms"]:
                if "Table" in [v[0].rsplit("::", 1)[-1] for v in pat_variants(a["pat"])]:
                    table_arm = a
    table_case = [table_arm["body"]] if table_arm is not None else []
    if table_arm is None and it is not None:
        # `let Some(t) = <is the input a table?> else { return Ok(input) }; <table case>`: what follows the statement
        for st, bl, _good in nontable_exits(F, f, it["id"]):
            rest = bl["stmts"][[id(s_) for s_ in bl["stmts"]].index(id(st)) + 1:]
            table_case += [s_.get("init") if s_["k"] == "let" else s_.get("e") for s_ in rest if s_["k"] in ("let", "semi", "expr")]
            for s_ in rest:
                if s_["k"] == "let" and s_.get("els"):
                    table_case += [z["e"] for z in s_["els"]["stmts"] if z["k"] in ("semi", "expr")]
            if bl.get("expr") is not None:
                table_case.append(bl["expr"])
        table_case = [x for x in table_case if x is not None]
    if not table_case or it is None or not fresh:
        raise AnchorMissing("Table arm / input parameter / init_table in native_to_array")
    for y in (z for part in table_case for z in hir_walk(part)):
        if y.get("k") == "call" and any(n_.endswith("::Ok") for n_ in hir_callee(y)) and y.get("args"):
            locs = set(z["path"]["res"]["id"] for z in hir_walk(y["args"][0]) if z.get("k") == "path" and z["path"]["res"].get("k") == "local")
            if not locs:
                continue       # Ok(()) of a `?`
            if it["id"] in locs or not (locs & fresh):
                problems.append("a path of the table case returns %s instead of the freshly built table (a shortcut for inputs that "
                                "'already are arrays' keeps the input's row order and aliases the input)"
                                % ("the input itself" if it["id"] in locs else "another value"))
    if problems:
        res.append(bad("C09.A", key, f.loc(ins[0].get("ln")), "std.to_array: %s - the result is not the input's values re-keyed 0..n-1 in order" % "; ".join(problems)))
    elif unclear:
        res.append(undecided("C09.A", key, f.loc(ins[0].get("ln")), "; ".join(unclear)))
    else:
        res.append(ok("C09.A", key, f.loc(ins[0].get("ln")), how))
    return res


def rule_u(F):
    """C09.U: non-table inputs to the native-backed functions are returned unchanged: in every native every match arm other
    than the Table arm evaluates to Ok(<the input parameter>)."""
    res = []
    n = 0
    for nat in ("native_minmax", "native_sorted", "native_to_array"):
        f = F.fn("stdlib::" + nat)
        params = f.hir.get("params", [])
        it = next((p_ for p_ in params if p_.get("k") == "bind" and p_.get("name") == "iterable"), None) or (params[1] if len(params) > 1 else None)
        if it is None:
            raise AnchorMissing("input parameter of %s" % nat)
        offenders = []
        arms = 0
        for m in hir_walk(f.hir["body"]):
            if m.get("k") != "match" or m.get("source") not in (None, "Normal"):
                continue
            vs = [[v[0].rsplit("::", 1)[-1] for v in pat_variants(a["pat"])] for a in m["arms"]]
            flat = [x for v in vs for x in v]
            if not ("Table" in flat or "Object" in flat) or not (set(flat) & {"Nil", "Integer", "Real", "String", "Function", "Closure", "Upvalue", "NativeFunction"}):
                continue
            for a, v in zip(m["arms"], vs):
                if "Table" in v or "Object" in v:
                    continue
                arms += 1
                b = hu.strip_all(a["body"])
                good = b is not None and b.get("k") == "call" and any(n_.endswith("::Ok") for n_ in hir_callee(b)) and \
                    hir_local_id(hu.strip_all(b["args"][0])) == it["id"]
                if not good:
                    offenders.append((a, v))
        key = "C09/U/%s/other-kinds-returned-unchanged" % nat
        n += 1
        # ... or one exit for everything that is not a table: `let Some(t) = <table probe of the input> else { return Ok(input) }`
        exits = nontable_exits(F, f, it["id"])
        covered = bool(exits) or arms >= 2
        if not covered:
            raise AnchorMissing("non-table arms in %s (found %d)" % (nat, arms))
        bad_exit = next((st for st, _bl, good in exits if not good), None)
        if offenders:
            a, v = offenders[0]
            res.append(bad("C09.U", key, f.loc(a.get("ln")), "%s does not return its input unchanged for %s: non-table inputs to the "
                           "native-backed library functions must come back as they are" % (nat, "/".join(v))))
        elif bad_exit is not None:
            res.append(bad("C09.U", key, f.loc(bad_exit.get("ln")), "%s does not return its input unchanged when it is not a table (the `else` of the "
                           "table test is not `return Ok(<input>)`): non-table inputs to the native-backed library functions must come "
                           "back as they are" % nat))
        elif exits:
            res.append(ok("C09.U", key, f.loc(exits[0][0].get("ln")), "%d non-table arm(s) and %d `let Some(..) = <table test> else { return Ok(iterable) }`"
                          % (arms, len(exits))))
        else:
            res.append(ok("C09.U", key, f.loc(), "%d non-table arms, all Ok(iterable)" % arms))
    return res


def pat_bindings_(p):
    from cao.facts import pat_bindings
    return pat_bindings(p)


RULES = [
    Rule("C09.Q", rule_q, 5, "library functions refer to each other by full path"),
    Rule("C09.U", rule_u, 3, "non-table inputs are returned unchanged by the natives"),
    Rule("C09.A", rule_a, 1, "to_array re-keys the values by their position"),
    Rule("C09.K", rule_k, 5, "min / max / sorted order rows by value: push order, binding convention and row_to_value agree"),
    Rule("C09.P", rule_p, 12, "the card programs of filter / map / any have the shape their contracts need"),
    Rule("C09.T", rule_t, 16, "native names, arities, polarity and exports are wired consistently"),
    Rule("C09.N", rule_n, 3, "natives do not mutate their input table"),
    Rule("C09.I", rule_i, 2, "no iterator over the input table is alive across a callback"),
    Rule("C09.S", rule_s, 1, "sorted orders by the language ordering, stably, ascending"),
    Rule("C09.F", rule_f, 1, "ties are resolved in favour of the first row"),
    Rule("C09.G", rule_g, 2, "rooting hazards inside the natives (shared with C02.R)"),
]
