"""C10 — The compiler emits structurally valid bytecode.

Rules (DESIGN.md section 3, C10):
  C10.W  operand-width agreement between emitter (compiler.rs), Instruction::span, the VM decoder
         (Vm::_run + instr_execution helpers) and the disassembler, per Instruction variant.
  C10.T  every opcode byte reaches the bytecode through push_instruction (which records the trace entry),
         except opcodes whose interpreter arm cannot fail; push_instruction keys the trace by the opcode position.
  C10.J  jump operands: every placeholder jump operand is patched on all non-error paths, patches and
         back-edge targets are derived from bytecode.len().
  C10.E  Compiler::compile ends every Ok path with push_instruction(Exit) and emits nothing after it.
  C10.A  the bytecode vector is append-only during compilation and never inspected as bytes: in the compiler module
         program.bytecode is only appended to, asked for its length and back-patched in place (C10.J); removals (pop,
         truncate, ...) and reads of the content (last, get, indexing, ...) are reported.
  C10.G  global ids and names are registered from the same string and id; every SetGlobalVar/ReadGlobalVar emission
         takes its id from such code (inline or through a helper).
  C10.S  data section: only push_str/encode_str write program.data; the handle is data.len() read before
         the append; encode_str and decode_str agree on the length prefix type.
"""
from cao.facts import (AnchorMissing, hir_walk, hir_callee, hir_strip, hir_children, hir_local_id, hir_def_path,
                       block_exprs, pat_variants, short, callee_names, callee_is, op_local, op_place, DefUse)
from cao.rules import Rule, ok, bad, undecided, note, shared
from cao import hirutil as hu
from cao import mirutil as mu

EXPLANATION = (
    "Static table-agreement and dominance rules over the type-checked program. C10.W derives, for each of the "
    "Instruction variants, the operand signature written by every emission site in compiler.rs (HIR, with typeck-"
    "resolved write_to_vec::<T>), the operand signature decoded by the variant's arm in Vm::_run (MIR region between "
    "the opcode switch and the loop back-edge, inlining instr_execution helpers, each decode must be must-execute on "
    "non-error paths), the length table Instruction::span (symbolically evaluated) and the disassembler's advance; "
    "all four must agree in byte width. C10.T/J/E/S are who-may-write, pairing and dominance rules on the same "
    "facts. C10.A is a who-may-do-what rule on program.bytecode in the compiler module (append / len / back-patch only; no "
    "removal, no read of the content). C10.G checks each site that registers a global (same string hashed and stored, names keyed "
    "by the id of the ids entry) and that every SetGlobalVar/ReadGlobalVar emission takes its id from such code, inline or through "
    "a helper. The rules hold for every program the compiler can emit because they are statements about the emitter's "
    "and decoder's code, not about sampled outputs. Not decided: one-to-one correspondence of global ids and names "
    "(depends on HandleTable being a faithful map, C13), label collisions (C06/C08)."
)
ASSUMPTIONS = [
    "rustc's type checker and MIR construction are correct (the facts are rustc's own resolved program)",
    "labels and jump targets are only taken between complete emissions (implied by C10.W treating opcode+operands as one unit)",
    "bytemuck::Pod types are written/read with exactly size_of::<T>() bytes by write_to_vec/read_from_bytes (checked structurally in C10.S for the helpers)",
]

INSTR = "instruction::Instruction"


# ---------------------------------------------------------------------------------------------------
# emitter side (HIR of impl Compiler)
# ---------------------------------------------------------------------------------------------------

BC_PARAM_TY = "&mut std::vec::Vec<u8>"


def bytecode_param_helpers(F):
    """functions of the compiler module outside `impl Compiler` that are handed a byte vector to write to
    (`fn write_operands(self, bytecode: &mut Vec<u8>)`): {short path: (fn, index of that parameter among the call
    arguments incl. the receiver, hir id of the parameter)}. Whether the vector handed over is program.bytecode is checked
    at every call."""
    cached = getattr(F, "_bc_param_helpers", None)
    if cached is not None:
        return cached
    out = {}
    for f in F.fns:
        if not f.hir or f.is_closure or not f.path.startswith("compiler::") or f.short.startswith("compiler::Compiler::"):
            continue
        ps = f.hir.get("params", [])
        idx = [i for i, p_ in enumerate(ps) if (p_.get("ty") or "").replace(" ", "") == BC_PARAM_TY.replace(" ", "") and p_.get("k") == "bind"]
        if len(idx) == 1:
            out[f.short] = (f, idx[0], ps[idx[0]]["id"])
    F._bc_param_helpers = out
    return out


def compiler_fns(F):
    return [f for f in F.fns if f.hir and f.short.startswith("compiler::Compiler::") and not f.is_closure] + \
        [v[0] for v in bytecode_param_helpers(F).values()]


def instr_ctor(e):
    """Instruction::X path expression -> 'X' ; local (parameter) -> ('param', id)"""
    e = hir_strip(e)
    if e is None:
        return None
    if e.get("k") == "cast":
        return instr_ctor(e["e"])
    if e.get("k") == "path":
        r = e["path"]["res"]
        if r["k"] == "def" and short(r["path"]).startswith(INSTR + "::"):
            return short(r["path"])[len(INSTR) + 2:]
        if r["k"] == "local":
            return ("param", r["id"], r["name"])
    return None


def _param_ids(f):
    """hir ids of the parameters of f and of the closures inside it, and of every binding that is not a plain `let x = ..`
    (pattern bindings get their value from the matched expression, not from let_inits)"""
    cached = getattr(f, "_param_ids_c10", None)
    if cached is not None:
        return cached
    from cao.facts import pat_bindings
    out = set()
    for p_ in f.hir.get("params", []):
        out |= set(i for i, _n in pat_bindings(p_))
    for x in hir_walk(f.hir["body"]):
        if x.get("k") == "closure":
            for p_ in x.get("params", []):
                out |= set(i for i, _n in pat_bindings(p_))
        elif x.get("k") == "match":
            for a in x["arms"]:
                out |= set(i for i, _n in pat_bindings(a["pat"]))
        elif x.get("k") == "let" and x.get("pat") is not None:
            out |= set(i for i, _n in pat_bindings(x["pat"]))
    f._param_ids_c10 = out
    return out


_FACTS = None      # set by EmitScan / jump_fn: instr_values follows calls of crate functions that pick an opcode


def instr_values(f, e, depth=0):
    """the set of Instruction variants an opcode expression can evaluate to, following single-function locals through
    their initialisers / assignments and `if`/`match`/block values; None when not determined (a parameter, a call)"""
    e = hir_strip(e)
    if e is None or depth > 6:
        return None
    k = e.get("k")
    if k == "cast":
        return instr_values(f, e["e"], depth + 1)
    if k == "path":
        r = e["path"]["res"]
        if r["k"] == "def" and short(r["path"]).startswith(INSTR + "::"):
            return {short(r["path"])[len(INSTR) + 2:]}
        if r["k"] == "local":
            inits = hu.let_inits(f).get(r["id"], [])
            if not inits or r["id"] in _param_ids(f):
                return None     # a parameter also holds whatever the caller passed
            out = set()
            for i in inits:
                v = instr_values(f, i, depth + 1)
                if v is None:
                    return None
                out |= v
            return out
        return None
    if k == "if":
        if e.get("else") is None:
            return None
        a, b = instr_values(f, e["then"], depth + 1), instr_values(f, e["else"], depth + 1)
        return None if a is None or b is None else a | b
    if k == "match":
        out = set()
        for arm in e["arms"]:
            v = instr_values(f, arm["body"], depth + 1)
            if v is None:
                return None
            out |= v
        return out or None
    if k == "block":
        if e["block"].get("expr") is None:
            return None
        return instr_values(f, e["block"]["expr"], depth + 1)
    if k in ("call", "mcall") and _FACTS is not None:
        # a crate function that picks the opcode: the values of everything it returns
        for n in hir_callee(e):
            g = _FACTS.fn(n, required=False)
            if g is not None and g.hir and g is not f:
                rets = _returned_exprs(g)
                out = set()
                for r_ in rets:
                    v = instr_values(g, r_, depth + 1)
                    if v is None:
                        return None
                    out |= v
                return out or None
    return None


def resolved_ctor(f, e):
    """instr_ctor, with a local that can only hold known variants resolved: one variant -> its name, several ->
    ('multi', (names..))"""
    v = instr_ctor(e)
    if (v is None or isinstance(v, tuple)) and f is not None and f.hir:
        vals = instr_values(f, e)
        if vals:
            return sorted(vals)[0] if len(vals) == 1 else ("multi", tuple(sorted(vals)))
    return v


class Emission:
    def __init__(self, var, fn, ln, raw=False):
        self.var = var
        self.fn = fn
        self.ln = ln
        self.raw = raw
        self.ops = []   # list of type strings
        self.open = True


class EmitScan:
    """Abstract walk over the HIR of one Compiler method collecting emissions and their operands."""

    def __init__(self, F, summaries):
        global _FACTS
        _FACTS = F
        self.bc_helpers = bytecode_param_helpers(F)
        self.bc_params = set(v[2] for v in self.bc_helpers.values())
        self.F = F
        self.summaries = summaries   # short fn path -> {'lead': [types], 'emits': bool}
        self.emissions = []
        self.orphans = []            # operand writes with no pending instruction (helper leading operands)
        self.calls_to = []           # (callee short, call expr, fn)

    def is_bytecode(self, e):
        ch = hu.field_chain(e)
        if ch is not None and ch[1][-2:] == ["program", "bytecode"]:
            return True
        # inside a helper that is handed the vector: its parameter (call sites are checked to pass program.bytecode)
        return ch is not None and not ch[1] and ch[0] is not None and ch[0] in self.bc_params

    def is_data(self, e):
        ch = hu.field_chain(e)
        return ch is not None and ch[1][-2:] == ["program", "data"]

    def event(self, e):
        """Classify a call expression. Returns None or a tuple."""
        names = hir_callee(e)
        if not names:
            return None
        if "compiler::Compiler::push_instruction" in names:
            return ("instr", resolved_ctor(getattr(self, "fn", None), e["args"][0]))
        if "bytecode::write_to_vec" in names:
            if self.is_bytecode(e["args"][1]):
                t = e["f"]["path"].get("args", ["?"])[0]
                return ("operand", [t])
            return None
        if any(n.startswith("std::vec::Vec::") and n.endswith("::push") for n in names) and e["k"] == "mcall":
            if self.is_bytecode(e["recv"]):
                v = resolved_ctor(getattr(self, "fn", None), e["args"][0])
                return ("raw", v)
            return None
        if any(n in ("std::vec::Vec::extend_from_slice", "std::vec::Vec::resize", "std::vec::Vec::insert",
                     "std::vec::Vec::extend") for n in names) and e["k"] == "mcall" and self.is_bytecode(e["recv"]):
            return ("foreign_write", names[0])
        for n in names:
            if n in self.summaries:
                if n in self.bc_helpers:
                    # only when the vector handed over is the bytecode
                    a = ([e["recv"]] if e["k"] == "mcall" else []) + list(e["args"])
                    k_ = self.bc_helpers[n][1]
                    if not (k_ < len(a) and self.is_bytecode(a[k_])):
                        return None
                return ("helper", n)
        return None

    def has_emission(self, e):
        for x in hir_walk(e):
            if x.get("k") in ("call", "mcall"):
                ev = self.event(x)
                if ev is None:
                    continue
                if ev[0] in ("instr", "operand", "raw", "foreign_write"):
                    return True
                if ev[0] == "helper":
                    sm = self.summaries[ev[1]]
                    if sm["emits"] or sm["lead"]:
                        return True
            # a call of a closure-typed local (then(self)) may emit
            if x.get("k") == "call" and hir_local_id(x["f"]) is not None:
                return True
        return False

    def fixed_operand_loop(self, e):
        """a `for` over an array of statically known length whose body does nothing to the bytecode but write operands
        (directly or through operand-only helpers): [(operand types of one pass, line)] * length, else None"""
        if not (e.get("source") or "").startswith("ForLoopDesugar"):
            return None
        sc = hir_strip(e["scrut"])
        if sc is None or sc.get("k") != "call" or not any(n.endswith("IntoIterator::into_iter") for n in hir_callee(sc)) or not sc["args"]:
            return None
        arr = hir_strip(sc["args"][0])
        n = None
        if arr is not None and arr.get("k") == "array":
            n = len(arr["elems"])
        else:
            import re
            m = re.match(r"^\[.*; (\d+)\]$", ((arr or {}).get("ty") or "").strip())
            if m:
                n = int(m.group(1))
        if n is None:
            return None
        if self.has_emission(sc["args"][0]):
            return None
        tys = []
        ln = e.get("ln")
        for arm in e["arms"]:
            for x in hir_walk(arm["body"]):
                k = x.get("k")
                if k in ("if", "closure"):
                    if self.has_emission(x):
                        return None
                elif k in ("match", "loop") and not (x.get("source") or "").startswith("ForLoop"):
                    if self.has_emission(x):
                        return None
                elif k in ("call", "mcall"):
                    if k == "call" and hir_local_id(x["f"]) is not None:
                        return None
                    ev = self.event(x)
                    if ev is None:
                        continue
                    if ev[0] == "operand":
                        tys.extend(ev[1])
                        ln = x.get("ln", ln)
                    elif ev[0] == "helper":
                        sm = self.summaries[ev[1]]
                        if sm["emits"]:
                            return None
                        tys.extend(sm["lead"])
                    else:
                        return None
        if not tys:
            return None
        return [(list(tys), ln)] * n

    def scan_fn(self, fn):
        self.fn = fn
        self.pending = None
        self.lead = []        # operands written before any instruction in this fn (operand helper)
        self.seen_instr = False
        self.walk(fn.hir["body"])
        self.close()

    def close(self):
        if self.pending is not None:
            self.pending.open = False
            self.pending = None

    def walk(self, e):
        if e is None:
            return
        k = e.get("k")
        if k in ("if", "match", "loop", "closure"):
            if not self.has_emission(e):
                return
            if k == "if":
                self.walk(e["cond"])
                self.close()
                self.seen_instr = True   # anything after a branching emission is not "leading"
                self.walk(e["then"])
                self.close()
                self.walk(e.get("else"))
                self.close()
            elif k == "match":
                unrolled = self.fixed_operand_loop(e)
                if unrolled is not None:
                    # `for x in [a, b, c] { write_to_vec(x, bytecode) }`: the operands of one pass, once per element
                    for tys, ln in unrolled:
                        if self.pending is not None:
                            self.pending.ops.extend(tys)
                        elif not self.seen_instr:
                            self.lead.extend(tys)
                        else:
                            self.orphans.append((self.fn, ln, tys))
                    return
                self.walk(e["scrut"])
                self.close()
                self.seen_instr = True
                for a in e["arms"]:
                    self.walk(a["body"])
                    self.close()
            elif k == "loop":
                self.close()
                self.seen_instr = True
                for x in block_exprs(e["body"]):
                    self.walk(x)
                self.close()
            else:
                saved = self.pending
                self.pending = None
                self.walk(e["body"])
                self.close()
                self.pending = saved
            return
        if k == "block":
            for x in block_exprs(e["block"]):
                self.walk(x)
            return
        if k in ("call", "mcall"):
            # arguments first (closure arguments are processed as their own streams *after* the call event
            # for helpers that take them, see below)
            closure_args = []
            subs = ([e["recv"]] if k == "mcall" else [e["f"]]) + list(e["args"])
            for a in subs:
                if hir_strip(a).get("k") == "closure":
                    closure_args.append(hir_strip(a))
                else:
                    self.walk(a)
            ev = self.event(e)
            if ev is None:
                if k == "call" and hir_local_id(e["f"]) is not None and "compiler::Compiler" in "".join(
                        x.get("ty", "") for x in e["args"]):
                    # call of a closure parameter with the compiler: may emit anything
                    self.close()
                    self.seen_instr = True
                for c in closure_args:
                    self.walk(c)
                return
            kind = ev[0]
            if kind == "instr" or kind == "raw":
                self.close()
                self.seen_instr = True
                em = Emission(ev[1], self.fn, e["ln"], raw=(kind == "raw"))
                self.emissions.append(em)
                self.pending = em if kind == "instr" else None
                if kind == "raw":
                    em.open = False
            elif kind == "operand":
                if self.pending is not None:
                    self.pending.ops.extend(ev[1])
                elif not self.seen_instr:
                    self.lead.extend(ev[1])
                else:
                    self.orphans.append((self.fn, e["ln"], ev[1]))
            elif kind == "foreign_write":
                self.orphans.append((self.fn, e["ln"], [ev[1]]))
            elif kind == "helper":
                sm = self.summaries[ev[1]]
                self.calls_to.append((ev[1], e, self.fn))
                if sm["lead"]:
                    if self.pending is not None:
                        self.pending.ops.extend(sm["lead"])
                    elif not self.seen_instr:
                        self.lead.extend(sm["lead"])
                    else:
                        self.orphans.append((self.fn, e["ln"], sm["lead"]))
                if sm["emits"]:
                    self.close()
                    self.seen_instr = True
            for c in closure_args:
                self.walk(c)
            return
        for c in hir_children(e):
            self.walk(c)


def emitter_tables(F):
    cached = getattr(F, "_emitter_tables", None)
    if cached is not None:
        return cached
    F._emitter_tables = _emitter_tables(F)
    return F._emitter_tables


def opcode_param_values(F, fn_short, idx):
    """the opcodes the call sites pass for parameter #idx of a compiler function (None entries: unresolved)"""
    emitter_tables(F)
    return F._emit_param_values(fn_short, idx)


def _emitter_tables(F):
    fns = compiler_fns(F)
    if not fns:
        raise AnchorMissing("impl compiler::Compiler")
    F.fn("compiler::Compiler::push_instruction")
    summaries = {f.short: {"lead": [], "emits": False} for f in fns}
    scan = None
    for _ in range(6):
        changed = False
        scan = EmitScan(F, summaries)
        per_fn = {}
        for f in fns:
            if f.short == "compiler::Compiler::push_instruction":
                continue
            before = len(scan.emissions)
            scan.scan_fn(f)
            emits = len(scan.emissions) > before or any(
                summaries[c]["emits"] for c, _e, fn in scan.calls_to if fn is f)
            per_fn[f.short] = {"lead": list(scan.lead), "emits": emits}
        for k, v in per_fn.items():
            if summaries[k] != v:
                summaries[k] = v
                changed = True
        if not changed:
            break
    # resolve parameter-valued opcodes (encode_if_then(skip_instr, ..)) from call sites, through callers that pass their
    # own parameter on (compile_conditional(skip_instr) -> encode_if_then(skip_instr, ..))
    by_short = dict((f.short, f) for f in fns)

    def param_values(fn_short, idx, depth=0):
        """one entry per call site (and per opcode a site can pass): variant name, or None if unresolved"""
        out = []
        sites = [(c, e, fn) for c, e, fn in scan.calls_to if c == fn_short]
        for _c, e, fn in sites:
            args = ([e["recv"]] if e["k"] == "mcall" else []) + list(e["args"])
            v = resolved_ctor(fn, args[idx]) if idx < len(args) else None
            if isinstance(v, str):
                out.append(v)
            elif isinstance(v, tuple) and v[0] == "multi":
                out.extend(v[1])
            elif isinstance(v, tuple) and v[0] == "param" and depth < 4:
                # the caller's own parameter? (fn may be the enclosing function of a closure body: same hir params)
                root = by_short.get(fn.short)
                params = [p_.get("id") for p_ in root.hir["params"]] if root is not None else []
                if v[1] in params and not hu.let_inits(root).get(v[1]):
                    sub = param_values(fn.short, params.index(v[1]), depth + 1)
                    out.extend(sub if sub else [None])
                else:
                    out.append(None)
            else:
                out.append(None)
        return out
    F._emit_param_values = param_values
    emissions = []
    for em in scan.emissions:
        if isinstance(em.var, tuple) and em.var[0] == "multi":
            # a local that holds one of several known opcodes: one emission per opcode, same operand list
            for v in em.var[1]:
                emissions.append((v, em))
        elif isinstance(em.var, tuple):
            # which parameter index?
            params = [p.get("id") for p in em.fn.hir["params"]]
            try:
                idx = params.index(em.var[1])
            except ValueError:
                emissions.append((None, em))
                continue
            vals = param_values(em.fn.short, idx)
            if not vals:
                emissions.append((None, em))
            for v in vals:
                emissions.append((v, em))
        else:
            emissions.append((em.var, em))
    return emissions, scan.orphans, summaries


# ---------------------------------------------------------------------------------------------------
# span (HIR of Instruction::span) and disassembler
# ---------------------------------------------------------------------------------------------------

def const_hook(F, depth=0):
    """eval_int hook: a path to a named integer constant evaluates to the value of its body"""
    def hook(x):
        if x.get("k") == "path" and x["path"]["res"].get("k") == "def" and "Const" in (x["path"]["res"].get("def_kind") or "") and depth < 4:
            c = F.fn(short(x["path"]["res"].get("path", "")), required=False)
            if c is not None and c.hir:
                return hu.eval_int(F, c.hir["body"], {}, const_hook(F, depth + 1))
        return None
    return hook


def span_table(F):
    f = F.fn("instruction::Instruction::span")
    variants = F.enum_variants(INSTR)
    body = f.hir["body"]
    stmts = body["block"]["stmts"]
    tail = body["block"]["expr"]
    arms = None
    var_id = None
    for st in stmts:
        if st["k"] == "let" and st.get("init") and hir_strip(st["init"]).get("k") == "match":
            arms = hir_strip(st["init"])["arms"]
            var_id = st["pat"].get("id")
    if arms is None:
        # the match may be the tail itself
        t = hir_strip(tail)
        if t and t.get("k") == "match":
            arms, tail, var_id = t["arms"], None, None
    if arms is None:
        raise AnchorMissing("match in Instruction::span")
    arm_of = {}
    for a in arms:
        for name, _sub, _p in pat_variants(a["pat"]):
            if name.startswith(INSTR + "::"):
                arm_of[name[len(INSTR) + 2:]] = a["body"]
            elif name == "_":
                for v in variants:
                    arm_of.setdefault(v, a["body"])
    cache = {}

    def full(v, depth=0):
        if v in cache:
            return cache[v]
        if depth > 8 or v not in arm_of:
            return None
        d = ev(arm_of[v], {}, depth)
        if d is None:
            r = None
        elif tail is None:
            r = d
        else:
            r = ev(tail, {var_id: d}, depth)
        cache[v] = r
        return r

    def ev(e, env, depth):
        def hook(x):
            if x.get("k") == "mcall" and "instruction::Instruction::span" in hir_callee(x):
                c = instr_ctor(x["recv"])
                if isinstance(c, str):
                    return full(c, depth + 1)
            return const_hook(F)(x)
        return hu.eval_int(F, e, env, hook)

    return {v: full(v) for v in variants}, f


def cursor_advance(F, e, depth=0):
    """bytes by which a piece of disassembler code moves its cursor: the sum of its `+= <const>` and of the sizes of its
    decode_value::<T> calls, including those of straight-line crate-local helpers that are handed the cursor (`&mut i`).
    None if not evaluable."""
    total = 0
    for y in hir_walk(e):
        k = y.get("k")
        if k == "assign_op" and y["op"] == "AddAssign":
            val = hu.eval_int(F, y["r"], {}, const_hook(F))
            if val is None:
                return None
            total += val
        elif k == "call" and "vm::instr_execution::decode_value" in hir_callee(y):
            sz = F.size_of(y["f"]["path"].get("args", ["?"])[0])
            if sz is None:
                return None
            total += sz
        elif k in ("call", "mcall"):
            args = list(y["args"])
            gets_cursor = any((hir_strip(a_) or {}).get("k") == "addr_of" and (hir_strip(a_) or {}).get("mutbl") and
                              hir_local_id(hir_strip(a_)["e"]) is not None for a_ in args)
            if not gets_cursor:
                continue
            h = next((g for g in (F.fn(n, required=False) for n in hir_callee(y)) if g is not None and g.hir), None)
            if h is None or depth > 3:
                return None
            if any(z.get("k") in ("if", "match", "loop") and not (z.get("source") or "").startswith("TryDesugar") for z in hir_walk(h.hir["body"])):
                return None        # the helper's advance depends on a condition
            sub = cursor_advance(F, h.hir["body"], depth + 1)
            if sub is None:
                return None
            total += sub
    return total


def disasm_table(F, spans):
    """variant -> bytes the disassembler advances (None = undecided)."""
    f = F.fn("compiled_program::CaoCompiledProgram::disassemble_writer")
    variants = F.enum_variants(INSTR)
    # find the match on a local of type Instruction inside a loop
    target = None
    loop_body = None
    for x in hir_walk(f.hir["body"]):
        if x.get("k") == "loop":
            for y in hir_walk(x):
                if y.get("k") == "match" and hir_strip(y["scrut"]).get("ty", "").endswith("Instruction") and len(y["arms"]) > 5:
                    target = y
                    loop_body = x
    if target is None:
        raise AnchorMissing("instruction match in disassemble_writer")
    # trailing advance: i += instr.span() somewhere in the loop body outside the match
    trailing_span = False
    for y in hir_walk(loop_body):
        if y.get("k") == "assign_op" and y["op"] == "AddAssign":
            r = hir_strip(y["r"])
            if r.get("k") == "mcall" and "instruction::Instruction::span" in hir_callee(r):
                trailing_span = True
    out = {}
    for a in target["arms"]:
        names = [n[len(INSTR) + 2:] for n, _s, _p in pat_variants(a["pat"]) if n.startswith(INSTR + "::")]
        has_continue = any(y.get("k") == "continue" for y in hir_walk(a["body"]))
        if not has_continue:
            for v in names:
                out[v] = ("span", spans.get(v)) if trailing_span else ("none", None)
            continue
        total = cursor_advance(F, a["body"])
        for v in names:
            out[v] = ("own", total)
    for v in variants:
        out.setdefault(v, ("none", None))
    return out, f


# ---------------------------------------------------------------------------------------------------
# decoder side (MIR of Vm::_run and helpers)
# ---------------------------------------------------------------------------------------------------

DECODE = "vm::instr_execution::decode_value"


def decode_summary(F, fn, cache, depth=0):
    """Ordered list of decoded operand types along the non-error paths of `fn`, or None if undecidable.
    Each decode must lie on every non-error path from entry to a return."""
    if fn.short in cache:
        return cache[fn.short]
    cache[fn.short] = None
    cfg = fn.cfg
    err = mu.error_exit_blocks(fn)
    rets = set(cfg.return_blocks())
    events = region_decodes(F, fn, 0, rets, err, cache, depth)
    cache[fn.short] = events
    return events


def region_decodes(F, fn, start, exits, err, cache, depth):
    """Decode events in blocks reachable from `start` (not entering err blocks); verify each is must-execute
    w.r.t. reaching `exits`, order them by dominance. Returns list of types or None."""
    cfg = fn.cfg
    region = cfg.reachable_from(start, avoid=err)
    evs = []
    for bi in sorted(region):
        t = fn.blocks[bi]["term"]
        if t["k"] != "call":
            continue
        func = t["func"]
        names = callee_names(func)
        if DECODE in names:
            ty = (func.get("args") or ["?"])[0]
            evs.append((bi, [ty], t["ln"]))
            continue
        # helper receiving the instruction pointer: local function with a `&mut usize` argument
        if func.get("local") and depth < 4:
            if any(a == "&mut usize" for a in t.get("arg_tys", [])):
                cand = [F.fn(n, required=False) for n in names]
                cand = [c for c in cand if c is not None and c.mir]
                if cand:
                    sub = decode_summary(F, cand[0], cache, depth + 1)
                    if sub is None:
                        return None
                    if sub:
                        evs.append((bi, sub, t["ln"]))
    # must-execute: removing the block disconnects start from exits on non-error paths
    for bi, tys, ln in evs:
        r = cfg.reachable_from(start, avoid=set(err) | {bi})
        if bi != start and (r & set(exits)):
            return None
    # total order by dominance
    def before(a, b):
        return cfg.dominates(a, b)
    evs.sort(key=lambda e: len(cfg.dom.get(e[0], ())))
    for x, y in zip(evs, evs[1:]):
        if not before(x[0], y[0]):
            return None
    out = []
    for _bi, tys, _ln in evs:
        out.extend(tys)
    return out


def dispatch_fn(F):
    return run_dispatch(F)[0]


def opcode_switch(F):
    """The opcode switch of the interpreter, found by what it is - the largest switch on the discriminant of an Instruction
    in the vm module - wherever it lives: (function, block, {variant: target block})."""
    variants = F.adt(INSTR)["variants"]
    by_discr = {v["discr"]: v["name"] for v in variants}
    best = None
    fn = None
    for cand in F.fns:
        if not cand.mir or cand.is_closure or not cand.path.startswith("vm::"):
            continue
        for bi, b in enumerate(cand.blocks):
            t = b["term"]
            if t["k"] != "switch" or len(t["targets"]) < 20:
                continue
            loc = op_local(t["discr"])
            if loc is None:
                continue
            # discriminant read of a place of type Instruction
            for st in b["stmts"]:
                if st["k"] == "assign" and st["place"]["l"] == loc and st["rv"]["k"] == "discr" and short(st["rv"]["adt"]) == INSTR:
                    if best is None or len(t["targets"]) > len(best[1]["targets"]):
                        best = (bi, t)
                        fn = cand
    if best is None:
        raise AnchorMissing("opcode switch (interpreter loop) in the vm module")
    bi, t = best
    targets = {}
    for val, tb in t["targets"]:
        if val in by_discr:
            targets[by_discr[val]] = tb
    # variants not listed individually go to `otherwise` (only if exactly one is missing)
    missing = [v["name"] for v in variants if v["name"] not in targets]
    if len(missing) == 1 and fn.blocks[t["otherwise"]]["term"]["k"] != "unreachable":
        targets[missing[0]] = t["otherwise"]
    return fn, bi, targets


def _enclosing_header(fn, sites):
    """innermost loop header of fn that dominates every block in sites, or None"""
    cfg = fn.cfg
    hs = [h for (_a, h) in cfg.back_edges() if all(cfg.dominates(h, b) for b in sites)]
    return max(hs, key=lambda h: len(cfg.dom[h])) if hs else None


def dispatch_info(F):
    """The interpreter loop, also when the opcode switch lives in a private function that the loop calls once per
    iteration (driver loop + `execute_instruction`). Returns a dict:
       fn        the function that holds the dispatch loop (the driver)
       sites     the blocks of fn where an instruction is dispatched: the opcode switch itself, or the call(s) of the
                 function through which the opcode switch is reached
       header    the loop header in fn
       switch_fn, switch_block, targets   the opcode switch
       chain     [fn, .., switch_fn]   the functions from the loop down to the switch
       stray     [(function, line)] calls of a chain member from outside the loop chain: dispatches that bypass the loop
    (same keys as rules.c03.run_dispatch2, which it replaces)"""
    cached = getattr(F, "_dispatch_info", None)
    if cached is not None:
        return cached
    sfn, sw, targets = opcode_switch(F)
    cur, sites, chain, stray = sfn, [sw], [sfn], []
    for _ in range(4):
        header = _enclosing_header(cur, sites)
        if header is not None:
            d = {"fn": cur, "sites": sites, "header": header, "switch_fn": sfn, "switch_block": sw, "targets": targets,
                 "chain": chain, "stray": stray}
            F._dispatch_info = d
            return d
        callers = []
        for g in F.fns:
            if not g.mir or g is cur:
                continue
            bs = [bi for bi, t in mu.calls(g) if cur.short in callee_names(t["func"]) and bi in g.cfg.reach]
            if bs:
                callers.append((g, bs))
        looping = [(g, bs) for g, bs in callers if not g.is_closure and _enclosing_header(g, bs) is not None]
        if len(looping) == 1:
            pick = looping[0]
        elif len(callers) == 1 and not callers[0][0].is_closure:
            pick = callers[0]
        else:
            break
        stray.extend((g.short, g.blocks[bs[0]]["term"].get("ln")) for g, bs in callers if g is not pick[0])
        cur, sites = pick
        chain.insert(0, cur)
    raise AnchorMissing("dispatch loop header of the interpreter loop")


def run_dispatch(F):
    """Locate the opcode switch of the interpreter: returns (fn, switch block, {variant: target block}, loop header) with
    fn the function that holds the switch. When the dispatch loop is in the same function (Vm::_run today) `loop header` is
    its header: an arm ends where control gets back to it. When the switch lives in a function of its own that a driver loop
    calls once per instruction, `loop header` is None: an arm ends at the return of fn (dispatch_info(F) has the driver)."""
    d = dispatch_info(F)
    return d["switch_fn"], d["switch_block"], d["targets"], (d["header"] if d["fn"] is d["switch_fn"] else None)


def decoder_table(F):
    fn, sw, targets, header = run_dispatch(F)
    err = mu.error_exit_blocks(fn)
    cache = {}
    out = {}
    for v, tb in targets.items():
        # stop at the loop header: treat it as an exit, do not traverse through it
        evs = region_decodes_arm(F, fn, tb, header, err, cache)
        out[v] = evs
    return out, fn, targets


def region_decodes_arm(F, fn, start, header, err, cache):
    cfg = fn.cfg
    if header is None:
        # the switch has a function of its own: the arm ends at its return
        return region_decodes(F, fn, start, set(cfg.return_blocks()), err, cache, 0)
    # temporarily treat header as a sink: compute on a view where header has no successors
    saved = cfg.succ[header]
    cfg.succ[header] = []
    try:
        exits = {header} | set(cfg.return_blocks())
        return region_decodes(F, fn, start, exits, err, cache, 0)
    finally:
        cfg.succ[header] = saved


# ---------------------------------------------------------------------------------------------------
# C10.W
# ---------------------------------------------------------------------------------------------------

def sizes(F, tys):
    out = []
    for t in tys:
        s_ = F.size_of(t)
        if s_ is None:
            return None
        out.append(s_)
    return out


def rule_w(F):
    res = []
    variants = F.enum_variants(INSTR)
    emissions, orphans, summaries = emitter_tables(F)
    spans, span_fn = span_table(F)
    dis, dis_fn = disasm_table(F, spans)
    dec, run_fn, targets = decoder_table(F)

    by_var = {}
    for v, em in emissions:
        if v is None:
            res.append(undecided("C10.W", "C10/W/emit/%s/unresolved-opcode" % em.fn.name, em.fn.loc(em.ln),
                                 "opcode passed to push_instruction could not be resolved to a variant"))
            continue
        by_var.setdefault(v, []).append(em)
    for fn, ln, tys in orphans:
        res.append(bad("C10.W", "C10/W/orphan-operand/%s" % fn.name, fn.loc(ln),
                       "operand bytes %s written to the bytecode with no preceding opcode in the same straight-line run" % tys))

    for v in variants:
        ems = by_var.get(v, [])
        dsig = dec.get(v)
        sp = spans.get(v)
        # emission sites must agree with each other
        sigs = {}
        for em in ems:
            sigs.setdefault(tuple(em.ops), []).append(em)
        emit_sizes = None
        if len(sigs) > 1:
            desc = "; ".join("%s at %s" % (list(k), ",".join(e.fn.loc(e.ln) for e in es)) for k, es in sigs.items())
            res.append(bad("C10.W", "C10/W/%s/emit-sites-disagree" % v, ems[0].fn.loc(ems[0].ln),
                           "emission sites of %s write different operand lists: %s" % (v, desc)))
        elif len(sigs) == 1:
            sig = list(next(iter(sigs)))
            emit_sizes = sizes(F, sig)
            res.append(ok("C10.W", "C10/W/%s/emit-sites-agree" % v, ems[0].fn.loc(ems[0].ln),
                          "%d emission site(s), operands %s" % (len(ems), sig), operands=sig, sites=len(ems)))
        # decoder
        if v not in targets:
            res.append(bad("C10.W", "C10/W/%s/no-decoder-arm" % v, run_fn.loc(), "no arm for %s in Vm::_run's opcode switch" % v))
            continue
        if dsig is None:
            res.append(undecided("C10.W", "C10/W/%s/decode" % v, run_fn.loc(),
                                 "decode sequence of the arm is not a must-execute dominance chain"))
            continue
        dsz = sizes(F, dsig)
        if dsz is None:
            res.append(undecided("C10.W", "C10/W/%s/decode" % v, run_fn.loc(), "unknown size for %s" % dsig))
            continue
        # span vs decode
        if sp is None:
            res.append(undecided("C10.W", "C10/W/%s/span" % v, span_fn.loc(), "span expression not evaluable"))
        elif sp != 1 + sum(dsz):
            res.append(bad("C10.W", "C10/W/%s/span-vs-decode" % v, span_fn.loc(),
                           "Instruction::span(%s) = %d but the interpreter consumes 1 + %s = %d bytes" % (v, sp, dsz, 1 + sum(dsz)),
                           span=sp, decode=dsig))
        else:
            res.append(ok("C10.W", "C10/W/%s/span-vs-decode" % v, span_fn.loc(), "span %d = 1 + %s" % (sp, dsz), span=sp, decode=dsig))
        # emit vs decode
        if emit_sizes is not None:
            if emit_sizes != dsz:
                res.append(bad("C10.W", "C10/W/%s/emit-vs-decode" % v, ems[0].fn.loc(ems[0].ln),
                               "compiler writes operand widths %s, interpreter decodes %s (%s)" % (emit_sizes, dsz, dsig),
                               emit=emit_sizes, decode=dsz))
            else:
                res.append(ok("C10.W", "C10/W/%s/emit-vs-decode" % v, ems[0].fn.loc(ems[0].ln),
                              "emit %s = decode %s" % (emit_sizes, dsig), emit=emit_sizes, decode=dsig))
        elif not ems:
            res.append(note("C10.W", "C10/W/%s/never-emitted" % v, "", "variant is never emitted by the compiler"))
        # disassembler
        how, adv = dis.get(v, ("none", None))
        if how == "none":
            res.append(bad("C10.W", "C10/W/%s/disasm-advance" % v, dis_fn.loc(), "disassembler has no advance for %s" % v))
        elif adv is None:
            res.append(undecided("C10.W", "C10/W/%s/disasm-advance" % v, dis_fn.loc(), "advance not evaluable"))
        elif adv != 1 + sum(dsz):
            res.append(bad("C10.W", "C10/W/%s/disasm-advance" % v, dis_fn.loc(),
                           "disassembler advances %d bytes over %s (via %s) but the instruction occupies %d" % (adv, v, how, 1 + sum(dsz))))
        else:
            res.append(ok("C10.W", "C10/W/%s/disasm-advance" % v, dis_fn.loc(), "advance %d via %s" % (adv, how)))
    return res


# ---------------------------------------------------------------------------------------------------
# C10.T  trace entries
# ---------------------------------------------------------------------------------------------------

def arm_can_fail(F, run_fn, start, header):
    """Does the arm region contain an error exit (a `?`/Err return path)?"""
    cfg = run_fn.cfg
    err = mu.error_exit_blocks(run_fn)
    if header is None:
        return bool(cfg.reachable_from(start) & err)
    saved = cfg.succ[header]
    cfg.succ[header] = []
    try:
        region = cfg.reachable_from(start)
    finally:
        cfg.succ[header] = saved
    return bool(region & err)


def rule_t(F):
    res = []
    emissions, _orph, _sm = emitter_tables(F)
    run_fn, sw, targets, header = run_dispatch(F)
    raw = [(v, em) for v, em in emissions if em.raw]
    for v, em in raw:
        if v is None:
            res.append(undecided("C10.T", "C10/T/raw/%s/unresolved" % em.fn.name, em.fn.loc(em.ln), "raw opcode push of unknown variant"))
            continue
        if v not in targets:
            res.append(bad("C10.T", "C10/T/raw/%s" % v, em.fn.loc(em.ln), "raw push of %s which has no interpreter arm" % v))
            continue
        if arm_can_fail(F, run_fn, targets[v], header):
            res.append(bad("C10.T", "C10/T/raw/%s" % v, em.fn.loc(em.ln),
                           "%s is pushed with bytecode.push (no trace entry) but its interpreter arm has an error exit: "
                           "a failure of this instruction carries no source location of its own" % v, fn=em.fn.short))
        else:
            res.append(bad("C10.T", "C10/T/raw/%s" % v, em.fn.loc(em.ln),
                           "%s is pushed with bytecode.push (no trace entry): its interpreter arm cannot fail, but the instruction budget "
                           "can run out on any instruction - that Timeout then has no entry for the failing instruction and is located "
                           "at the caller's call card" % v, fn=em.fn.short))
    # all other emissions go through push_instruction: count them
    n = sum(1 for v, em in emissions if not em.raw)
    res.append(ok("C10.T", "C10/T/push_instruction-sites", "", "%d emissions go through push_instruction" % n, sites=n))
    # inside push_instruction: trace.insert(key = bytecode.len()) precedes bytecode.push
    pf = F.fn("compiler::Compiler::push_instruction")
    ins_bb = push_bb = None
    key_from_len = False
    du = DefUse(pf)
    for bi, t in mu.calls(pf):
        names = callee_names(t["func"])
        if any(n.endswith("CaoHashMap::insert") for n in names):
            ins_bb = bi
            k = op_local(t["args"][1])
            if k is not None:
                key_from_len = mu.derives_from_call(pf, du, k, lambda ns: any(n.endswith("Vec::len") for n in ns))
        if any(n.startswith("std::vec::Vec::") and n.endswith("::push") for n in names):
            push_bb = bi
    if ins_bb is None or push_bb is None:
        res.append(bad("C10.T", "C10/T/push_instruction/shape", pf.loc(),
                       "push_instruction must insert a trace entry and push the opcode (insert=%s push=%s)" % (ins_bb, push_bb)))
    else:
        order_ok = pf.cfg.dominates(ins_bb, push_bb) and ins_bb != push_bb
        if order_ok and key_from_len:
            res.append(ok("C10.T", "C10/T/push_instruction/key-is-opcode-position", pf.loc(),
                          "trace.insert(bytecode.len()) dominates bytecode.push"))
        else:
            res.append(bad("C10.T", "C10/T/push_instruction/key-is-opcode-position", pf.loc(),
                           "trace key must be bytecode.len() read before the opcode is pushed (order_ok=%s key_from_len=%s)" % (order_ok, key_from_len)))
    # who may write program.trace
    for f in F.fns:
        if not f.mir or f.short == pf.short:
            continue
        for bi, t in mu.calls(f):
            names = callee_names(t["func"])
            if any(n.endswith("CaoHashMap::insert") or n.endswith("CaoHashMap::remove") or n.endswith("CaoHashMap::clear") for n in names):
                a0 = op_local(t["args"][0]) if t["args"] else None
                if a0 is not None and mu.ref_of_field_chain(f, DefUse(f), a0, ["program", "trace"]):
                    res.append(bad("C10.T", "C10/T/trace-writer/%s" % f.name, f.loc(t["ln"]), "program.trace is written outside push_instruction"))
    return res


# ---------------------------------------------------------------------------------------------------
# C10.J  jumps
# ---------------------------------------------------------------------------------------------------

JUMPS = ("Goto", "GotoIfTrue", "GotoIfFalse")


def rule_j(F):
    """Per function of impl Compiler (with its closures, in HIR source order):
    (i) the i32 written after a jump opcode is a literal placeholder or derives from bytecode.len();
    (ii) each literal placeholder has a matching patch `write_unaligned(ptr(as_mut_ptr().add(idx)), bytecode.len())`
         where idx was assigned from bytecode.len() right before the placeholder write, and the patch is reached on
         every non-error path after the placeholder (structurally: it follows it in the same statement list, or in the
         enclosing function after the closure containing the placeholder was passed to encode_if_then)."""
    res = []
    helpers = jump_helpers(F)
    for f in compiler_fns(F):
        res.extend(jump_fn(F, f, helpers))
    res.extend(callback_always_invoked(F))
    return res


PATCH_WRITES = ("std::ptr::write_unaligned", "core::ptr::write_unaligned", "std::ptr::write", "core::ptr::write")


def is_const_placeholder(e):
    """an integer literal or a named constant: a value fixed at compile time (so not a jump target)"""
    e = hu.strip_casts(e)
    if e is None:
        return False
    if hu.is_int_lit(e):
        return True
    return e.get("k") == "path" and e["path"]["res"].get("k") == "def" and "Const" in (e["path"]["res"].get("def_kind") or "")


def placeholder_name(e):
    e = hu.strip_casts(e)
    if hu.is_int_lit(e):
        return hu.int_lit(e)
    return short(e["path"]["res"].get("path", "?")).rsplit("::", 1)[-1]


def _len_locals(f, reserve=None):
    """locals assigned from `<..>.program.bytecode.len()` -> line of that statement (None: only initialised with an
    integer literal so far); with `reserve`, a local assigned the result of a reserve helper counts the same (the helper
    returns the length it read right before it wrote the placeholder)"""
    def from_len(e):
        if hu.is_bytecode_len(e):
            return True
        if reserve:
            c = hu.strip_casts(e)
            return c is not None and c.get("k") in ("call", "mcall") and any(n in reserve for n in hir_callee(c))
        return False
    len_locals = {}
    for x in hir_walk(f.hir["body"]):
        if x.get("k") == "block":
            for st in x["block"]["stmts"]:
                if st["k"] == "let" and st.get("init") is not None and st["pat"].get("k") == "bind":
                    if from_len(st["init"]):
                        len_locals[st["pat"]["id"]] = st["ln"]
                    elif hu.is_int_lit(st["init"]):
                        len_locals.setdefault(st["pat"]["id"], None)
        if x.get("k") == "assign":
            lid = hir_local_id(x["l"])
            if lid is not None and from_len(x["r"]):
                len_locals[lid] = x["ln"]
    return len_locals


def value_is_current_len(f, e, emitting_lines=()):
    """`e` is bytecode.len() as of the point of use: the call itself, or a local assigned once from bytecode.len() with
    nothing emitted between that assignment and the use (emitting_lines: lines of emission events of f)"""
    if hu.is_bytecode_len(e):
        return True
    c = hu.strip_casts(e)
    lid = hir_local_id(c) if c is not None else None
    if lid is None:
        return False
    inits = hu.let_inits(f).get(lid, [])
    if len(inits) != 1 or not hu.is_bytecode_len(inits[0]):
        return False
    lo = _len_locals(f).get(lid)
    hi = c.get("ln")
    return lo is not None and hi is not None and lo <= hi and not any(lo <= ln <= hi for ln in emitting_lines)


def slice_patch_parts(scan, x):
    """`<..>.program.bytecode[i .. i + K].copy_from_slice(&v.to_ne_bytes())` -> (index expr i, K expr, value expr v),
    else None: the safe spelling of the raw in-place write"""
    if x.get("k") != "mcall" or x.get("name") not in ("copy_from_slice", "clone_from_slice") or not x["args"]:
        return None
    r = hu.strip_all(x["recv"])
    if r is None or r.get("k") != "index" or not scan.is_bytecode(r["e"]):
        return None
    rng = hir_strip(r["idx"])
    if rng is None or rng.get("k") != "struct" or not short(rng["path"]["res"].get("path", "")).endswith("ops::Range"):
        return None
    flds = dict((fl["name"], fl["e"]) for fl in rng["fields"])
    if set(flds) != {"start", "end"}:
        return None
    start, end = hu.strip_casts(flds["start"]), hu.strip_casts(flds["end"])
    if hir_local_id(start) is None or end.get("k") != "bin" or end["op"] != "Add":
        return None
    l, rr = hu.strip_casts(end["l"]), hu.strip_casts(end["r"])
    if hir_local_id(l) == hir_local_id(start):
        width = rr
    elif hir_local_id(rr) == hir_local_id(start):
        width = l
    else:
        return None
    src = hu.strip_all(x["args"][0])
    if src is None or src.get("k") != "mcall" or src["name"] != "to_ne_bytes":
        return None
    return start, width, src["recv"]


def is_raw_patch(scan, x):
    """a write into bytes the bytecode already holds: ptr::write(_unaligned) or the slice form above"""
    if x.get("k") == "call" and any(n in PATCH_WRITES for n in hir_callee(x)):
        return True
    return slice_patch_parts(scan, x) is not None


def raw_patch_parts(F, scan, f, x, emitting_lines=()):
    """(index local id | None, value-is-current-len, written type) of a raw patch node"""
    sp = slice_patch_parts(scan, x)
    if sp is not None:
        start, width, val = sp
        ty = (hu.strip_casts(val) or {}).get("ty") or (hir_strip(val) or {}).get("ty") or "?"
        w = hu.eval_int(F, width, {}, None)
        if w is None or F.size_of(ty) != w:
            ty = "%s in a %s-byte slice" % (ty, w)
        return hir_local_id(start), value_is_current_len(f, val, emitting_lines), ty
    args = x["args"]
    if len(args) != 2:
        return None, False, "?"
    return hu.patch_index_local(f, args[0]), value_is_current_len(f, args[1], emitting_lines), (x["f"]["path"].get("args") or ["?"])[0]


def _call_args(x):
    return ([x["recv"]] if x["k"] == "mcall" else []) + list(x["args"])


def jump_helpers(F):
    """Private helpers that stand for one half of the placeholder/patch pair:
      reserve  a method whose only effect on the bytecode is one write_to_vec of a value that is a parameter or a constant,
               and that returns bytecode.len() read before that write with nothing emitted in between
               (`let i = len(); write(placeholder); i`): a call `x = reserve(K)` is `x = len(); write(K)`;
      patch    a method whose only effect on the bytecode is one raw write `*(as_mut_ptr().add(p)) = bytecode.len()`
               (or `bytecode[p..p+K].copy_from_slice(&len.to_ne_bytes())`) at an index that is its parameter p: a call
               `patch(x)` is that write at index x;
      emit     a method that pushes a jump opcode followed by an operand that is its parameter: each call site must pass
               a position derived from bytecode.len()."""
    scan = EmitScan(F, {})
    reserve, patch, emit = {}, {}, {}
    for g in compiler_fns(F):
        writes, patches, other = [], [], 0
        ordered = []
        for x in hir_walk(g.hir["body"]):
            if x.get("k") not in ("call", "mcall"):
                continue
            names = hir_callee(x)
            if "bytecode::write_to_vec" in names and scan.is_bytecode(x["args"][1]):
                writes.append(x)
                ordered.append(("operand", x))
            elif is_raw_patch(scan, x):
                patches.append(x)
            elif "compiler::Compiler::push_instruction" in names:
                ordered.append(("instr", x))
                other += 1
            elif x.get("k") == "call" and hir_local_id(x["f"]) is not None:
                other += 1          # a callback is invoked
            elif any(n.startswith("compiler::Compiler::") and n != g.short for n in names) or \
                    (x["k"] == "mcall" and scan.is_bytecode(x["recv"]) and x["name"] not in ("len", "as_mut_ptr", "is_empty")):
                other += 1
        params = [p_.get("id") for p_ in g.hir["params"]]
        # a helper that emits a jump to a position it is given: `push_instruction(<jump>); write_to_vec(param)`
        for n_, (kind, x) in enumerate(ordered):
            if kind == "instr" and n_ + 1 < len(ordered) and ordered[n_ + 1][0] == "operand":
                v = resolved_ctor(g, x["args"][0])
                opn = ordered[n_ + 1][1]
                lid = hir_local_id(hu.strip_casts(opn["args"][0]))
                if isinstance(v, str) and v in JUMPS and lid in params and not hu.let_inits(g).get(lid):
                    emit.setdefault(g.short, []).append({"variant": v, "param": params.index(lid), "node": opn, "fn": g})
        instrs = [x for kind, x in ordered if kind == "instr"]
        lead_instr = None
        if len(writes) == 1 and len(instrs) == 1 and other == 1 and ordered and ordered[0][0] == "instr":
            # `push_instruction(<opcode>); let i = len(); write(placeholder); i`: emits the jump and reserves its operand
            lead_instr = instrs[0]
        if len(writes) == 1 and not patches and (not other or lead_instr is not None):
            w = writes[0]
            val = hu.strip_casts(w["args"][0])
            pidx = params.index(hir_local_id(val)) if hir_local_id(val) in params else None
            if pidx is None and not is_const_placeholder(val):
                continue
            ll = _len_locals(g)
            rets = _returned_exprs(g)
            ids = [hir_local_id(hu.strip_casts(r_)) for r_ in rets]
            if rets and all(i is not None and ll.get(i) is not None and ll[i] <= w["ln"] for i in ids) and len(set(ids)) == 1 \
                    and (lead_instr is None or lead_instr["ln"] <= ll[ids[0]]):
                ins = None
                if lead_instr is not None:
                    a0 = lead_instr["args"][0]
                    lid0 = hir_local_id(hir_strip(a0))
                    if lid0 in params and not hu.let_inits(g).get(lid0):
                        ins = {"param": params.index(lid0)}
                    else:
                        v0 = resolved_ctor(g, a0)
                        if not isinstance(v0, str):
                            continue
                        ins = {"variant": v0}
                reserve[g.short] = {"param": pidx, "value": None if pidx is not None else val,
                                    "ty": w["f"]["path"].get("args", ["?"])[0], "fn": g, "instr": ins, "node": w}
        elif len(patches) == 1 and not writes and not other:
            pw = patches[0]
            idx, val_ok, ty = raw_patch_parts(F, scan, g, pw)
            if idx is not None and idx in params:
                patch[g.short] = {"param": params.index(idx), "val_ok": val_ok, "ty": ty, "fn": g, "node": pw}
    return {"reserve": reserve, "patch": patch, "emit": emit}


def callback_always_invoked(F):
    """encode_if_then(skip, then): `then` is invoked on every path to the Ok return (placeholders written inside the
    callbacks handed to it are therefore written whenever the code after the encode_if_then call runs)."""
    f = F.fn("compiler::Compiler::encode_if_then")
    cfg = f.cfg
    calls = [bi for bi, t in mu.calls(f) if any(n.endswith("FnOnce::call_once") for n in callee_names(t["func"]))]
    key = "C10/J/encode_if_then/callback-always-invoked"
    if not calls:
        return [bad("C10.J", key, f.loc(), "encode_if_then never invokes its `then` callback")]
    err = mu.error_exit_blocks(f)
    rets = [bi for bi, b in enumerate(f.blocks) if b["term"]["k"] == "return"]
    okp = cfg.every_path_passes(0, rets, calls, avoid=err)
    if okp:
        return [ok("C10.J", key, f.loc(), "the callback is called on every path to the Ok return of encode_if_then")]
    return [bad("C10.J", key, f.loc(), "encode_if_then can return Ok without having invoked its `then` callback: placeholders written "
                "by callbacks are not written on that path, but are patched")]


def arm_labels(f):
    """id(node) -> name of the CardBody variant whose `match` arm encloses the node (for line-free keys)."""
    out = {}
    for x in hir_walk(f.hir["body"]):
        if x.get("k") == "match" and len(x["arms"]) > 8:
            for a in x["arms"]:
                names = [n.rsplit("::", 1)[-1] for n, _s, _p in pat_variants(a["pat"]) if "::" in n]
                lab = "+".join(names) if names else "_"
                for y in hir_walk(a["body"]):
                    out.setdefault(id(y), lab)
    return out


def jump_fn(F, f, helpers=None):
    res = []
    scan = EmitScan(F, {})
    labels = arm_labels(f)
    helpers = helpers or {"reserve": {}, "patch": {}, "emit": {}}
    reserve, patchers, emitters = helpers["reserve"], helpers["patch"], helpers.get("emit", {})
    deferred_operands = [h["node"] for h in emitters.get(f.short, [])]
    if f.short in reserve and reserve[f.short].get("instr") is not None:
        deferred_operands.append(reserve[f.short]["node"])      # its call sites carry the opcode and the placeholder

    def fname(node):
        lab = labels.get(id(node))
        return "%s[%s]" % (f.name, lab) if lab else f.name
    # linearise: list of (kind, expr) events in source order including closures
    events = []
    for x in hir_walk(f.hir["body"]):
        if x.get("k") in ("call", "mcall"):
            names = hir_callee(x)
            if "compiler::Compiler::push_instruction" in names:
                events.append(("instr", x, resolved_ctor(f, x["args"][0])))
            elif "bytecode::write_to_vec" in names and scan.is_bytecode(x["args"][1]):
                events.append(("operand", x, x["f"]["path"].get("args", ["?"])[0]))
            elif is_raw_patch(scan, x):
                events.append(("patch", x, None))
            elif any(n in emitters for n in names):
                for h in next(emitters[n] for n in names if n in emitters):
                    events.append(("jumpcall", x, h))
            elif any(n in reserve for n in names):
                h = next(reserve[n] for n in names if n in reserve)
                if h.get("instr") is not None:
                    if "variant" in h["instr"]:
                        events.append(("instr", x, h["instr"]["variant"]))
                    else:
                        a = _call_args(x)
                        events.append(("instr", x, resolved_ctor(f, a[h["instr"]["param"]]) if h["instr"]["param"] < len(a) else None))
                events.append(("operand", x, h["ty"]))
            elif any(n in patchers for n in names):
                events.append(("patch", x, next(patchers[n] for n in names if n in patchers)))
            elif "compiler::Compiler::encode_if_then" in names:
                events.append(("if_then", x, None))
        elif x.get("k") == "let" or x.get("k") == "assign":
            pass
    # assignments of locals from bytecode.len(): collect local ids defined as `<..>.program.bytecode.len()` (maybe cast)
    len_locals = _len_locals(f, reserve)

    def written_value(op):
        """the value expression an operand event writes (for a reserve helper call: the placeholder it is given/holds)"""
        for n in hir_callee(op):
            if n in reserve:
                h = reserve[n]
                if h["param"] is None:
                    return hir_strip(h["value"])
                a = _call_args(op)
                return hir_strip(a[h["param"]]) if h["param"] < len(a) else None
        return hir_strip(op["args"][0])
    placeholders = []
    patches = []
    i = 0
    while i < len(events):
        kind, x, v = events[i]
        if kind == "instr" and isinstance(v, tuple) and v[0] == "param":
            own = [p_.get("id") for p_ in f.hir["params"]]
            if v[1] in own:
                vals = opcode_param_values(F, f.short, own.index(v[1]))
                if vals and all(isinstance(n, str) for n in vals):
                    js = [n for n in vals if n in JUMPS]
                    if not js:
                        i += 1
                        continue        # every caller passes an opcode that is not a jump
                    if len(js) != len(vals):
                        res.append(undecided("C10.J", "C10/J/%s/param:%s/maybe-jump" % (fname(x), v[2]), f.loc(x["ln"]),
                                             "callers pass jump and non-jump opcodes"))
        if isinstance(v, tuple) and v[0] == "multi":
            # a local holding one of several known opcodes: a jump only if one of them is
            js = [n for n in v[1] if n in JUMPS]
            if js and len(js) != len(v[1]):
                res.append(undecided("C10.J", "C10/J/%s/%s/maybe-jump" % (fname(x), "+".join(v[1])), f.loc(x["ln"]),
                                     "the opcode is a jump only on some paths"))
            v = "+".join(v[1]) if js else None
            is_jump = bool(js)
        else:
            is_jump = v in JUMPS or isinstance(v, tuple)
        if kind == "instr" and is_jump:
            # next operand event must be the i32
            if i + 1 < len(events) and events[i + 1][0] == "operand":
                op = events[i + 1][1]
                val = written_value(op)
                vname = v if isinstance(v, str) else "param:" + v[2]
                if any(op is d_ for d_ in deferred_operands):
                    pass        # the operand is this helper's parameter: decided at each call site
                elif val is not None and is_const_placeholder(val):
                    placeholders.append((vname, op, placeholder_name(val)))
                elif val is not None and hu.derives_from_len(val, len_locals):
                    res.append(ok("C10.J", "C10/J/%s/%s/target-from-len@%s" % (fname(op), vname, hu.local_name(val) or "expr"),
                                  f.loc(op["ln"]), "jump operand derives from bytecode.len()"))
                else:
                    res.append(bad("C10.J", "C10/J/%s/%s/target-origin" % (fname(op), vname), f.loc(op["ln"]),
                                   "jump operand is neither a placeholder literal nor derived from bytecode.len()"))
            else:
                res.append(bad("C10.J", "C10/J/%s/%s/no-operand" % (fname(x), v), f.loc(x["ln"]), "jump opcode without i32 operand"))
        if kind == "jumpcall":
            h = events[i][2]
            a = _call_args(x)
            arg = hir_strip(a[h["param"]]) if h["param"] < len(a) else None
            if arg is not None and hu.derives_from_len(arg, len_locals):
                res.append(ok("C10.J", "C10/J/%s/%s/target-from-len@%s" % (fname(x), h["variant"], hu.local_name(arg) or "expr"),
                              f.loc(x["ln"]), "jump operand (written by %s) derives from bytecode.len()" % h["fn"].name))
            else:
                res.append(bad("C10.J", "C10/J/%s/%s/target-origin" % (fname(x), h["variant"]), f.loc(x["ln"]),
                               "the jump target handed to %s is neither a placeholder that gets patched nor derived from bytecode.len()" % h["fn"].name))
        if kind == "patch":
            patches.append((x, events[i][2]))
        i += 1
    # match placeholders with patches
    good_patches = []
    for p, via in patches:
        if via is not None:
            # call of a patch helper: the write happens at the index passed for its parameter
            a = _call_args(p)
            idx = hir_local_id(hu.strip_casts(a[via["param"]])) if via["param"] < len(a) else None
            good_patches.append((p, via["val_ok"], idx, via["ty"]))
            continue
        if f.short in patchers and patchers[f.short]["node"] is p:
            continue        # the body of a patch helper: its call sites are decided instead
        # raw write: the value must be bytecode.len() as of now; the index must be a local assigned from bytecode.len()
        idx, val_ok, ty = raw_patch_parts(F, scan, f, p, [e_[1].get("ln") for e_ in events if e_[0] in ("instr", "operand", "if_then", "jumpcall")])
        good_patches.append((p, val_ok, idx, ty))
    used = set()
    for vname, op, lit in placeholders:
        # the placeholder's index variable: the nearest preceding `X = bytecode.len()` statement for a local X
        # declared before; we accept the patch whose idx local was assigned from len() at a line <= placeholder line
        cand = None
        for n, (p, val_ok, idx, ty) in enumerate(good_patches):
            if n in used or idx is None:
                continue
            ln_def = len_locals.get(idx)
            if ln_def is not None and ln_def <= op["ln"] and p["ln"] > op["ln"]:
                if cand is None or len_locals[good_patches[cand][2]] < ln_def:
                    cand = n
        key = "C10/J/%s/%s/placeholder-%s" % (fname(op), vname, lit)
        if cand is None:
            res.append(bad("C10.J", key + "/patched", f.loc(op["ln"]),
                           "placeholder jump operand %s is never patched with the real target" % lit))
            continue
        used.add(cand)
        p, val_ok, idx, ty = good_patches[cand]
        probs = []
        if not val_ok:
            probs.append("patched value is not bytecode.len()")
        if ty != "i32":
            probs.append("patch writes %s, operand is i32" % ty)
        # the index local must be assigned immediately before the placeholder write: no emission between
        ln_def = len_locals[idx]
        between = [e for e in events if e[0] in ("instr", "operand") and ln_def < e[1]["ln"] < op["ln"]]
        if between:
            probs.append("bytes are emitted between taking the patch index and writing the placeholder")
        # must-execute: the patch must not be nested in a conditional that does not also contain the placeholder
        if not hu.patch_unconditional_after(f, op, p):
            probs.append("patch is not executed on every non-error path after the placeholder")
        extra = hu.placeholder_on_every_path_to_patch(f, op, p)
        if extra:
            probs.append("the placeholder is only written under a condition (%s) the patch is not under: when it is skipped the patch "
                         "overwrites 4 bytes at a stale index (the initial value of the index variable)" % ", ".join(extra))
        if probs:
            res.append(bad("C10.J", key + "/patched", f.loc(p["ln"]), "; ".join(probs)))
        else:
            res.append(ok("C10.J", key + "/patched", f.loc(p["ln"]),
                          "placeholder at line %d patched with bytecode.len() at index taken at line %d" % (op["ln"], ln_def)))
    for n, (p, val_ok, idx, ty) in enumerate(good_patches):
        if n not in used:
            res.append(bad("C10.J", "C10/J/%s/stray-patch" % fname(p), f.loc(p["ln"]),
                           "raw write into the bytecode buffer that does not patch a placeholder jump operand"))
    return res


# ---------------------------------------------------------------------------------------------------
# C10.E terminal Exit
# ---------------------------------------------------------------------------------------------------

def rule_e(F):
    res = []
    f = F.fn("compiler::Compiler::compile")
    cfg = f.cfg
    err = mu.error_exit_blocks(f)
    exit_blocks = []
    emit_blocks = []
    du = DefUse(f)
    emit_summ = emitter_tables(F)[2]
    for bi, t in mu.calls(f):
        names = callee_names(t["func"])
        if "compiler::Compiler::push_instruction" in names:
            a = t["args"][1]
            v = mu.operand_variant(f, du, a)
            if v == "Exit":
                exit_blocks.append(bi)
            else:
                emit_blocks.append((bi, "push_instruction(%s)" % v))
        else:
            for n in names:
                if n in emit_summ and (emit_summ[n]["emits"] or emit_summ[n]["lead"]):
                    emit_blocks.append((bi, n))
    rets = [r for r in cfg.return_blocks()]
    if not exit_blocks:
        res.append(bad("C10.E", "C10/E/compile/exit-emitted", f.loc(), "Compiler::compile never emits Instruction::Exit"))
        return res
    # every non-error path from entry to return passes an Exit emission
    r = cfg.reachable_from(0, avoid=set(err) | set(exit_blocks))
    if r & set(rets):
        res.append(bad("C10.E", "C10/E/compile/exit-on-every-ok-path", f.loc(),
                       "a success path through Compiler::compile does not emit the terminal Exit"))
    else:
        res.append(ok("C10.E", "C10/E/compile/exit-on-every-ok-path", f.loc(fnline(f, exit_blocks[0])),
                      "every Ok path passes push_instruction(Exit)"))
    # nothing is emitted after it
    after = set()
    for eb in exit_blocks:
        for s_ in cfg.succ[eb]:
            after |= cfg.reachable_from(s_)
    late = [(bi, n) for bi, n in emit_blocks if bi in after]
    if late:
        res.append(bad("C10.E", "C10/E/compile/nothing-after-exit", f.loc(fnline(f, late[0][0])),
                       "%s emits bytecode after the terminal Exit" % late[0][1]))
    else:
        res.append(ok("C10.E", "C10/E/compile/nothing-after-exit", f.loc(), "no emission is reachable after the terminal Exit",
                      emitters_before=len(emit_blocks)))
    return res


def fnline(f, bi):
    return f.blocks[bi]["term"].get("ln")


# ---------------------------------------------------------------------------------------------------
# C10.S data section
# ---------------------------------------------------------------------------------------------------

def rule_g(F):
    """C10.G: global ids and names correspond one to one. At every site that registers a global the string stored in
    `variables.names` is the very string whose bytes key `variables.ids` (same local), and the names key is the id that the
    ids entry produced. The host reads globals by name -> hash -> id; a name table keyed or filled from another string
    (the dotted path of a property read) names ids that no lookup can reach."""
    res = []
    n = 0
    reg = {}
    for f in F.fns:
        if not f.hir or f.is_closure or not f.path.startswith("compiler::"):
            continue
        before_len = len(res)
        inits = hu.let_inits(f)
        name_sites = []
        id_sites = []
        for x in hir_walk(f.hir["body"]):
            if x.get("k") == "mcall" and x["name"] == "entry":
                ch = hu.field_chain(x["recv"])
                if ch and ch[1][-2:] == ["variables", "names"]:
                    name_sites.append(x)
                if ch and ch[1][-2:] == ["variables", "ids"]:
                    id_sites.append(x)
        if not name_sites:
            continue
        fname = f.short.rsplit("::", 1)[-1]

        def hashed_local(e, depth=0):
            """local whose bytes are hashed to make the Handle `e`"""
            e = hu.strip_all(e)
            if e is None or depth > 6:
                return None
            if e.get("k") == "call" and any(n_.endswith("Handle::from_bytes") or n_.endswith("Handle::from_str") or n_.endswith("FromStr::from_str")
                                            for n_ in hir_callee(e)):
                for y in hir_walk(e["args"][0]):
                    if y.get("k") == "path" and y["path"]["res"].get("k") == "local":
                        return y["path"]["res"]
                return None
            lid = hir_local_id(e)
            if lid is not None and len(inits.get(lid, [])) == 1:
                return hashed_local(inits[lid][0], depth + 1)
            return None

        keyed = [hashed_local(x["args"][0]) for x in id_sites]
        keyed = [k for k in keyed if k is not None]
        # statement that consumes the names entry: find enclosing or_insert* call
        parents = {}
        for x in hir_walk(f.hir["body"]):
            for c in hir_children(x):
                parents[id(c)] = x
        for i, x in enumerate(name_sites):
            key = "C10/G/%s/name%s-is-the-hashed-string" % (fname, "" if i == 0 else "#%d" % i)
            loc = f.loc(x.get("ln"))
            par = parents.get(id(x))
            while par is not None and not (par.get("k") == "mcall" and par["name"].startswith("or_insert")):
                par = parents.get(id(par))
            if par is None or not par.get("args"):
                res.append(undecided("C10.G", key, loc, "names entry is not consumed by or_insert*"))
                continue
            stored = [y["path"]["res"] for y in hir_walk(par["args"][0]) if y.get("k") == "path" and y["path"]["res"].get("k") == "local"
                      and (y.get("ty") or "").replace("&", "").strip() in ("str", "std::string::String")]
            n += 1
            if not keyed:
                res.append(bad("C10.G", key, loc, "%s fills variables.names but no variables.ids entry keyed by a hashed string is made in "
                               "the same function: ids and names no longer correspond" % fname))
            elif stored and all(any(sv["id"] == kv["id"] for kv in keyed) for sv in stored):
                res.append(ok("C10.G", key, loc, "names value is `%s`, the string hashed for the ids key" % stored[0]["name"]))
            else:
                res.append(bad("C10.G", key, loc, "%s records the global under the name `%s` but keys variables.ids by the hash of `%s`: the "
                               "name table then lists a string whose hash is not the id's key (e.g. the whole dotted path `cfg.speed` for the "
                               "global `cfg`), so global ids and names no longer correspond one to one" %
                               (fname, stored[0]["name"] if stored else "?", keyed[0]["name"])))
            # the names key is the id produced by the ids entry
            key2 = "C10/G/%s/name%s-keyed-by-the-id" % (fname, "" if i == 0 else "#%d" % i)
            id_locals = set()
            for lid, es in inits.items():
                for e in es:
                    if any(y is s_ for s_ in id_sites for y in hir_walk(e)):
                        id_locals.add(lid)
            used = [y["path"]["res"]["id"] for y in hir_walk(x["args"][0]) if y.get("k") == "path" and y["path"]["res"].get("k") == "local"]
            if used and all(u in id_locals for u in used):
                res.append(ok("C10.G", key2, loc, "names key is built from the id the ids entry returned"))
            else:
                res.append(bad("C10.G", key2, loc, "%s keys variables.names by something other than the id that the variables.ids entry "
                               "returned: ids and names no longer correspond" % fname))
        fres = res[before_len:]
        reg[f.short] = {"ok": bool(fres) and all(r_["status"] == "ok" for r_ in fres), "id_sites": id_sites, "fn": f}
    if n < 1:
        raise AnchorMissing("sites filling variables.names (found %d)" % n)
    res.extend(global_emission_sites(F, reg))
    return res


GLOBAL_OPS = ("SetGlobalVar", "ReadGlobalVar")


def _unwrap_value(e):
    """strip what does not change which id an expression denotes: `*`, `&`, casts, `?`, Ok(..)/Some(..)"""
    while True:
        e = hu.strip_all(e)
        if e is None:
            return None
        if e.get("k") == "match" and (e.get("source") or "").startswith("TryDesugar"):
            sc = hu.strip_all(e["scrut"])
            if sc is not None and sc.get("k") == "call" and sc["args"]:
                e = sc["args"][0]
                continue
            return e
        if e.get("k") == "call" and len(e["args"]) == 1:
            fpath = hir_strip(e["f"])
            r = fpath["path"]["res"] if fpath.get("k") == "path" else {}
            nm = short(r.get("path", "") or "") + " " + short(r.get("ctor_of", "") or "")
            if r.get("k") == "def" and any(nm.strip().endswith(x) or (x + " ") in nm for x in ("Result::Ok", "Option::Some")):
                e = e["args"][0]
                continue
        return e


def _id_origin(f, e, depth=0):
    """follow single-assignment locals from an id operand back to the expression that produced the id"""
    e = _unwrap_value(e)
    if e is None or depth > 8:
        return None
    lid = hir_local_id(e)
    if lid is not None:
        ins = hu.let_inits(f).get(lid, [])
        if len(ins) == 1:
            return _id_origin(f, ins[0], depth + 1)
        return None
    return e


def _returned_exprs(f):
    out = []
    body = hir_strip(f.hir["body"])
    if body.get("k") == "block":
        if body["block"].get("expr") is not None:
            out.append(body["block"]["expr"])
    else:
        out.append(body)
    for x in hir_walk(f.hir["body"]):
        if x.get("k") == "ret" and x.get("e") is not None and not hu.is_error_ret(x):
            out.append(x["e"])
    return out


def _registers_name(F, f, origin, reg, depth=0):
    """does the expression `origin` (evaluated in f) yield a global id whose name is registered with it?
    - inline: it is f's own `variables.ids.entry(..)` chain and every `variables.names` site of f was decided ok;
    - through a helper: it is a call of a crate function all of whose returned values are such ids."""
    if origin is None or depth > 4:
        return False
    info = reg.get(f.short)
    if info is not None and any(y is s_ for s_ in info["id_sites"] for y in hir_walk(origin)):
        return info["ok"]
    if origin.get("k") in ("call", "mcall"):
        for nm in hir_callee(origin):
            g = F.fn(nm, required=False)
            if g is None or not g.hir or g is f or not g.path.startswith("compiler::"):
                continue
            rets = _returned_exprs(g)
            return bool(rets) and all(_registers_name(F, g, _id_origin(g, r_), reg, depth + 1) for r_ in rets)
    return False


def global_emission_sites(F, reg):
    """every emission of SetGlobalVar / ReadGlobalVar takes its id operand from code that registers the name"""
    res = []
    emissions, _orph, _sm = emitter_tables(F)
    scan = EmitScan(F, {})
    sites = {}
    for v, em in emissions:
        if v in GLOBAL_OPS:
            sites.setdefault((em.fn.short, em.ln), (em, set()))[1].add(v)
    missing = [v for v in GLOBAL_OPS if not any(v in vs for _em, vs in sites.values())]
    if missing:
        raise AnchorMissing("emission site of %s" % ", ".join(missing))
    counts = {}
    for (_fs, ln), (em, vs) in sorted(sites.items()):
        f = em.fn
        events = []
        for x in hir_walk(f.hir["body"]):
            if x.get("k") in ("call", "mcall"):
                names = hir_callee(x)
                if "compiler::Compiler::push_instruction" in names:
                    events.append(("instr", x))
                elif "bytecode::write_to_vec" in names and scan.is_bytecode(x["args"][1]):
                    events.append(("operand", x))
        operand = None
        for i, (kind, x) in enumerate(events):
            if kind == "instr" and x.get("ln") == ln and (instr_ctor(x["args"][0]) in vs or isinstance(instr_ctor(x["args"][0]), tuple)):
                if i + 1 < len(events) and events[i + 1][0] == "operand":
                    operand = events[i + 1][1]
                break
        for v in sorted(vs):
            c = counts.get((f.short, v), 0)
            counts[(f.short, v)] = c + 1
            key = "C10/G/%s/%s%s-id-registered-with-its-name" % (f.name, v, "" if c == 0 else "#%d" % c)
            if operand is None:
                res.append(undecided("C10.G", key, f.loc(ln), "the id operand written after %s was not found" % v))
                continue
            origin = _id_origin(f, operand["args"][0])
            if _registers_name(F, f, origin, reg):
                how = "inline" if f.short in reg and any(y is s_ for s_ in reg[f.short]["id_sites"] for y in hir_walk(origin)) else \
                    "through %s" % ", ".join(n_.rsplit("::", 1)[-1] for n_ in hir_callee(origin)[:1])
                res.append(ok("C10.G", key, f.loc(operand.get("ln")), "the id written after %s comes from the variables.ids entry that is registered "
                              "in variables.names under the same string (%s)" % (v, how)))
            else:
                res.append(bad("C10.G", key, f.loc(operand.get("ln")),
                               "%s emits %s with an id that does not come from code that also records the variable's name under that id "
                               "(variables.ids entry + variables.names entry from the same string): the program then uses a global id "
                               "the name table does not list, ids and names no longer correspond one to one" % (f.name, v)))
    return res


def rule_s(F):
    res = []
    # who writes program.data (HIR: any &mut borrow / method call with &mut self on <x>.program.data)
    writers = set()
    for f in F.fns:
        if not f.hir or f.is_closure:
            continue
        for x in hir_walk(f.hir["body"]):
            if x.get("k") == "addr_of" and x.get("mutbl"):
                ch = hu.field_chain(x["e"])
                if ch and ch[1][-2:] == ["program", "data"]:
                    writers.add(f.short)
            if x.get("k") == "mcall":
                ch = hu.field_chain(x["recv"])
                if ch and ch[1][-2:] == ["program", "data"] and x["recv"].get("ty_adj", "").startswith("&mut"):
                    writers.add(f.short)
            if x.get("k") == "assign":
                ch = hu.field_chain(x["l"])
                if ch and "data" in ch[1] and "program" in ch[1]:
                    writers.add(f.short)
    allowed = {"compiler::Compiler::push_str"}
    for w in sorted(writers):
        if w in allowed:
            res.append(ok("C10.S", "C10/S/data-writer/%s" % w.rsplit("::", 1)[-1], F.fn(w).loc(), "program.data written by push_str"))
        else:
            res.append(bad("C10.S", "C10/S/data-writer/%s" % w.rsplit("::", 1)[-1], F.fn(w).loc(),
                           "program.data is written outside push_str: string handles may no longer point at a length prefix"))
    if "compiler::Compiler::push_str" not in writers:
        raise AnchorMissing("push_str writing program.data")
    # inside push_str: handle = data.len() taken before encode_str, and it is the u32 written to the bytecode
    ps = F.fn("compiler::Compiler::push_str")
    order = []
    handle_id = None
    for x in hir_walk(ps.hir["body"]):
        if x.get("k") == "block":
            for st in x["block"]["stmts"]:
                if st["k"] == "let" and st.get("init") is not None and hu.is_len_of(st["init"], ["program", "data"]):
                    handle_id = st["pat"].get("id")
                    order.append(("len", st["ln"]))
        if x.get("k") == "call":
            names = hir_callee(x)
            if "bytecode::encode_str" in names:
                order.append(("encode", x["ln"]))
            if "bytecode::write_to_vec" in names:
                uses = hir_local_id(x["args"][0]) == handle_id and handle_id is not None
                order.append(("write_handle" if uses else "write_other", x["ln"]))
    order.sort(key=lambda kv: kv[1] or 0)  # statement order (the walk visits a block's lets before its calls)
    kinds = [k for k, _ in order]
    if "len" in kinds and "encode" in kinds and kinds.index("len") < kinds.index("encode") and "write_handle" in kinds:
        res.append(ok("C10.S", "C10/S/push_str/handle-is-offset-before-append", ps.loc(),
                      "handle = data.len() read before encode_str appends; that handle is the operand"))
    else:
        res.append(bad("C10.S", "C10/S/push_str/handle-is-offset-before-append", ps.loc(),
                       "string operand must be data.len() read before the string is appended (saw %s)" % kinds))
    # encode_str / decode_str length prefix agreement
    enc = F.fn("bytecode::encode_str")
    decf = F.fn("bytecode::decode_str")
    enc_t = [x["f"]["path"].get("args", ["?"])[0] for x in hir_walk(enc.hir["body"])
             if x.get("k") == "call" and "bytecode::write_to_vec" in hir_callee(x)]
    dec_t = [x["f"]["path"].get("args", ["?"])[0] for x in hir_walk(decf.hir["body"])
             if x.get("k") == "call" and "bytecode::read_from_bytes" in hir_callee(x)]
    if enc_t and dec_t and [F.size_of(t) for t in enc_t] == [F.size_of(t) for t in dec_t]:
        res.append(ok("C10.S", "C10/S/str-prefix-width", enc.loc(), "encode_str writes %s, decode_str reads %s" % (enc_t, dec_t)))
    else:
        res.append(bad("C10.S", "C10/S/str-prefix-width", enc.loc(), "length prefix written as %s but read as %s" % (enc_t, dec_t)))
    # encode_str appends exactly the string's bytes after the prefix
    ext = [x for x in hir_walk(enc.hir["body"]) if x.get("k") == "mcall" and any(n.endswith("extend_from_slice") for n in hir_callee(x))]
    ok_bytes = False
    for x in ext:
        a = hir_strip(x["args"][0])
        lid = hir_local_id(a)
        if lid is not None and len(hu.let_inits(enc).get(lid, [])) == 1:
            a = hir_strip(hu.let_inits(enc)[lid][0])     # `let payload = s.as_bytes(); .. extend_from_slice(payload)`
        if a.get("k") == "mcall" and any(n.endswith("str::as_bytes") or n.endswith("::as_bytes") for n in hir_callee(a)) \
                and hir_local_id(hu.strip_all(a["recv"])) in [p_.get("id") for p_ in enc.hir["params"]]:
            ok_bytes = True
    if ok_bytes and len(ext) == 1:
        res.append(ok("C10.S", "C10/S/encode_str/payload", enc.loc(), "payload = s.as_bytes() appended once"))
    else:
        res.append(bad("C10.S", "C10/S/encode_str/payload", enc.loc(), "encode_str must append exactly s.as_bytes() once after the prefix"))
    # write_to_vec / read_from_bytes use size_of::<T>() of the same T
    for name in ("bytecode::write_to_vec", "bytecode::read_from_bytes"):
        g = F.fn(name)
        so = [x for x in hir_walk(g.hir["body"]) if x.get("k") == "call" and any(n.endswith("mem::size_of") for n in hir_callee(x))]
        tys = [x["f"]["path"].get("args", ["?"])[0] for x in so]
        if tys == ["T"]:
            res.append(ok("C10.S", "C10/S/%s/width" % g.name, g.loc(), "advances by size_of::<T>()"))
        else:
            res.append(bad("C10.S", "C10/S/%s/width" % g.name, g.loc(), "must advance by size_of::<T>() (saw %s)" % tys))
    return res


# ---------------------------------------------------------------------------------------------------
# C10.A  the bytecode vector is append-only during compilation and never inspected as bytes
# ---------------------------------------------------------------------------------------------------

BC_APPEND = {"push", "extend", "extend_from_slice", "append", "reserve", "reserve_exact", "try_reserve", "try_reserve_exact"}
BC_MEASURE = {"len", "is_empty", "capacity"}
BC_PATCH = {"as_mut_ptr"}     # the raw in-place write itself is decided by C10.J (placeholder/patch pairing, stray-patch)
BC_REMOVE = {"pop", "truncate", "remove", "drain", "clear", "split_off", "set_len", "swap_remove", "retain", "retain_mut", "dedup",
             "dedup_by", "dedup_by_key", "pop_if", "splice", "insert", "shrink_to", "extract_if"}
BC_INSPECT = {"last", "first", "get", "get_unchecked", "iter", "ends_with", "starts_with", "contains", "as_slice", "as_ptr",
              "split_last", "split_first", "last_chunk", "first_chunk", "rchunks", "chunks", "windows", "binary_search", "to_vec",
              "clone", "into_iter", "eq", "ne", "cmp", "partial_cmp", "split_at", "concat", "repeat", "iter_mut", "last_mut",
              "first_mut", "get_mut", "as_mut_slice", "swap", "fill", "reverse", "rotate_left", "rotate_right", "copy_within"}
_WRAP = ("drop_temps", "use", "type", "addr_of", "cast")


def rule_a(F):
    """C10.A: a byte of the emitted code is an opcode or a piece of an operand, and which one can only be told by decoding
    from the front. The compiler therefore never looks at the bytes it has written and never takes any away: in the
    compiler module `program.bytecode` is only (i) appended to (push / write_to_vec / extend), (ii) asked for its length,
    (iii) patched in place through as_mut_ptr (the jump back-patch, decided by C10.J). A removal (pop, truncate, drain,
    clear, ...) or a read of the content (last, first, get, indexing, iteration, comparison) is reported; any other use
    (the vector handed to an unknown function, moved, written by index) is undecided."""
    res = []
    scan = EmitScan(F, {})
    total_append = 0
    helpers = bytecode_param_helpers(F)
    clean_helpers = set()
    # helpers that are handed the vector first: a call of one that only appends is an append
    order = [v[0] for v in helpers.values()] + [f for f in F.fns if f.short not in helpers]
    for f in order:
        if not f.hir or f.is_closure or not f.path.startswith("compiler::"):
            continue
        body = f.hir["body"]
        inits = hu.let_inits(f)
        aliases = set()
        if f.short in helpers:
            aliases.add(helpers[f.short][2])
        alias_inits = set()

        def is_bc(e):
            e = hu.strip_all(e)
            if e is None:
                return False
            if e.get("k") == "field":
                return e["name"] == "bytecode" and scan.is_bytecode(e)
            lid = hir_local_id(e)
            return lid is not None and lid in aliases
        changed = True
        while changed:
            changed = False
            for lid, es in inits.items():
                if lid not in aliases and any(is_bc(e) for e in es):
                    aliases.add(lid)
                    changed = True
        for lid in aliases:
            for e in inits.get(lid, []):
                if is_bc(e):
                    alias_inits.add(id(e))
        parent = {}
        for x in hir_walk(body):
            for c in hir_children(x):
                parent[id(c)] = x
        uses = []
        for x in hir_walk(body):
            if x.get("k") == "field" and x["name"] == "bytecode" and scan.is_bytecode(x):
                uses.append(x)
            elif x.get("k") == "path" and x["path"]["res"].get("k") == "local" and x["path"]["res"]["id"] in aliases:
                uses.append(x)
        if not uses:
            continue
        counts = {"append": 0, "measure": 0, "patch": 0}
        findings = []      # (status, what, node, msg)

        def climb(x):
            top = x
            aliased = id(top) in alias_inits
            p = parent.get(id(top))
            while p is not None and (p.get("k") in _WRAP or (p.get("k") == "un" and p.get("op") == "Deref")
                                     or (p.get("k") == "block" and not p["block"]["stmts"] and p["block"].get("expr") is top)):
                top = p
                aliased = aliased or id(top) in alias_inits
                p = parent.get(id(top))
            return top, p, aliased

        for x in uses:
            top, c, aliased = climb(x)
            if aliased:
                continue            # `let bc = &mut self.program.bytecode`: the uses of `bc` are classified instead
            k = c.get("k") if c is not None else None
            if k == "mcall" and c["recv"] is top:
                m = c["name"]
                if m in BC_APPEND:
                    counts["append"] += 1
                elif m in BC_MEASURE:
                    counts["measure"] += 1
                elif m in BC_PATCH:
                    counts["patch"] += 1
                elif m in ("resize", "resize_with"):
                    a = hu.strip_casts(c["args"][0]) if c["args"] else None
                    grows = a is not None and a.get("k") == "bin" and a["op"] == "Add" and (
                        (hu.strip_casts(a["l"]) or {}).get("k") == "mcall" and is_bc((hu.strip_casts(a["l"]))["recv"]) and hu.strip_casts(a["l"])["name"] == "len"
                        or (hu.strip_casts(a["r"]) or {}).get("k") == "mcall" and is_bc((hu.strip_casts(a["r"]))["recv"]) and hu.strip_casts(a["r"])["name"] == "len")
                    if grows:
                        counts["append"] += 1
                    else:
                        findings.append(("violation", "bytecode.%s" % m, c, "removes"))
                elif m in BC_REMOVE:
                    findings.append(("violation", "bytecode.%s" % m, c, "removes"))
                elif m in BC_INSPECT:
                    findings.append(("violation", "bytecode.%s" % m, c, "inspects"))
                else:
                    findings.append(("undecided", "bytecode.%s" % m, c, "method %s on the bytecode vector is not classified" % m))
            elif k == "call" and "bytecode::write_to_vec" in hir_callee(c) and len(c["args"]) > 1 and c["args"][1] is top:
                counts["append"] += 1
            elif k in ("call", "mcall") and any(n in clean_helpers for n in hir_callee(c)) and any(
                    helpers[n][1] < len(_call_args(c)) and _call_args(c)[helpers[n][1]] is top for n in hir_callee(c) if n in clean_helpers):
                counts["append"] += 1       # handed to a helper that was itself decided to only append to it
            elif k == "call" and any(n.endswith("mem::take") or n.endswith("mem::replace") or n.endswith("mem::swap") for n in hir_callee(c)):
                findings.append(("violation", "bytecode.take", c, "removes"))
            elif k == "index" and c["e"] is top:
                t2, c2, _al = climb(c)
                if c2 is not None and c2.get("k") == "mcall" and c2["recv"] is t2 and slice_patch_parts(scan, c2) is not None:
                    counts["patch"] += 1        # bytecode[i..i+K].copy_from_slice(&v.to_ne_bytes()): a write, decided by C10.J
                elif c2 is not None and c2.get("k") in ("assign", "assign_op") and c2["l"] is t2:
                    findings.append(("undecided", "bytecode.index-write", c, "the bytecode is written by index (not the as_mut_ptr patch that C10.J decides)"))
                else:
                    findings.append(("violation", "bytecode.index", c, "inspects"))
            elif k == "assign" and c["l"] is top:
                findings.append(("violation", "bytecode.replace", c, "removes"))
            elif k in ("bin",) and c.get("op") in ("Eq", "Ne", "Lt", "Le", "Gt", "Ge"):
                findings.append(("violation", "bytecode.compare", c, "inspects"))
            else:
                what = (hir_callee(c) or [c.get("name") or k or "?"])[0] if c is not None else "?"
                findings.append(("undecided", "bytecode.handed-to-%s" % str(what).rsplit("::", 1)[-1], c if c is not None else x,
                                 "the bytecode vector is handed to / used by `%s`, which this rule does not know" % what))
        total_append += counts["append"]
        if not findings and f.short in helpers:
            clean_helpers.add(f.short)
        if not findings:
            res.append(ok("C10.A", "C10/A/%s/bytecode-append-only" % f.name, f.loc(),
                          "%d append(s), %d length read(s), %d in-place patch(es); no removal, no read of the content" %
                          (counts["append"], counts["measure"], counts["patch"])))
            continue
        seen_keys = {}
        for status, what, node, why in findings:
            n_ = seen_keys.get(what, 0)
            seen_keys[what] = n_ + 1
            key = "C10/A/%s/%s%s" % (f.name, what, "" if n_ == 0 else "#%d" % n_)
            loc = f.loc(node.get("ln"))
            if status == "undecided":
                res.append(undecided("C10.A", key, loc, why))
            elif why == "removes":
                res.append(bad("C10.A", key, loc,
                               "%s takes bytes away from the code emitted so far (%s): the compiler cannot know whether the bytes at the end are "
                               "an opcode or the tail of an operand without decoding from the front, so for a preceding instruction with operands "
                               "(ScalarInt, ScalarFloat, CallNative handle, jump target ...) an operand is cut and everything after it - labels, "
                               "trace keys and jump targets were taken from bytecode.len() - no longer points at instruction starts; the "
                               "output does not decode front to back" % (f.name, what)))
            else:
                res.append(bad("C10.A", key, loc,
                               "%s decides on the value of raw bytes of the emitted code (%s): a byte at a given offset is an opcode or a piece of "
                               "an operand, which cannot be told without decoding from the front - a test like `last byte == opcode X` also "
                               "fires when the last instruction is e.g. ScalarInt / CallNative whose operand happens to end in that byte, and the "
                               "compiler then treats operand bytes as an instruction" % (f.name, what)))
    if total_append == 0:
        raise AnchorMissing("appends to program.bytecode in the compiler module")
    return res


def _c06_rule_w(F):
    import rules.c06 as c06
    return c06.rule_w(F)


RULES = [
    Rule("C10.W", rule_w, 150, "operand-width agreement emitter/span/decoder/disassembler per instruction"),
    Rule("C10.T", rule_t, 2, "every failing instruction has a trace entry; trace key is the opcode position"),
    Rule("C10.J", rule_j, 6, "jump operands are placeholders that get patched, or derive from bytecode.len()"),
    Rule("C10.E", rule_e, 2, "terminal Exit on every Ok path of Compiler::compile"),
    Rule("C10.A", rule_a, 10, "the bytecode vector is append-only during compilation and never inspected as bytes"),
    Rule("C10.U", shared(_c06_rule_w, "C06.W", "C10.U"), 2, "upvalue operands index the closure's own upvalue list (shared with C06.W)"),
    Rule("C10.G", rule_g, 4, "global ids and names are registered from the same string and id"),
    Rule("C10.S", rule_s, 6, "data-section string encoding and handles"),
]
